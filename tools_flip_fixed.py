#!/usr/bin/env python3
"""mark known-finding entries as fixed: tools_flip_fixed.py <commit> <id> [<id> ...]  (entries in known_findings.d/*.json)"""
import glob, json, sys
commit, ids = sys.argv[1], set(sys.argv[2:])
done = set()
for f in sorted(glob.glob("/verif/known_findings.d/*.json")):
    d = json.load(open(f)); ch = False
    for e in d["findings"]:
        if e["id"] in ids and e["status"] == "open":
            e["status"] = "fixed"; e["commit"] = commit
            e["what"] = f"fixed: property={e['property']} {commit} {e['what']}"
            ch = True; done.add(e["id"])
    if ch:
        json.dump(d, open(f, "w"), indent=1)
print(commit, "flipped", sorted(done), "NOT FOUND/ALREADY" if ids - done else "", sorted(ids - done))
with open("/verif/fix_commits.txt", "a") as fh:
    if commit + "\n" not in open("/verif/fix_commits.txt").read():
        fh.write(commit + "\n")
