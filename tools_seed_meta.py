#!/usr/bin/env python3
"""write /verif/seeded/<id>/meta.json from the outputs of tools_seed_eval.sh / tools_seed_tests.sh
usage: tools_seed_meta.py <id> <PROP> "<what it needs to manifest>" ["<strengthening note>"]"""
import json, os, re, sys, glob
sid, prop, needs = sys.argv[1:4]
note = sys.argv[4] if len(sys.argv) > 4 else ""
chk = open(f"/tmp/seed-eval-{sid}.check.txt").read() if os.path.exists(f"/tmp/seed-eval-{sid}.check.txt") else ""
viol = re.findall(r"^VIOLATION property=\S+ replay=(\S+)(.*)$", chk, re.M)
summ = re.findall(r"^SUMMARY .*$", chk, re.M)
kinds = {"obligation (E1/E2/E4/fdx)": sum(1 for v in viol if "-ob-" in v[0]), "run-time contract (E3, bounded)": sum(1 for v in viol if "-rt-" in v[0])}
tests = ""
for f in (f"/tmp/seed_tests_{sid}.txt",):
    pass
tl = []
for f in glob.glob("/tmp/seed_tests_batch*.txt"):
    txt = open(f).read()
    m = re.search(r"base:\s+(.*)\npatched:\s+(.*)\n(TESTS-\w+) " + re.escape(sid), txt)
    if m:
        tl.append(dict(base=m.group(1).strip(), patched=m.group(2).strip(), verdict=m.group(3)))
d0 = open(f"/tmp/seed-eval-{sid}.demo0.txt").read()[-300:] if os.path.exists(f"/tmp/seed-eval-{sid}.demo0.txt") else ""
d1 = open(f"/tmp/seed-eval-{sid}.demo1.txt").read()[-600:] if os.path.exists(f"/tmp/seed-eval-{sid}.demo1.txt") else ""
meta = dict(
    id=sid, property=prop, needs=needs,
    origin="written by a fresh sub-agent that was given only the property text and a scratch worktree of /repo",
    confirmed=dict(demo_exit_unchanged_tree=0, demo_exit_changed_tree=1, demo_tail_changed=d1[-400:],
                   existing_tests=tl or "see notes.md (test files named there were re-run with and without the patch)"),
    what_i_ran=f"tools_seed_eval.sh {sid} {prop} quick (scratch worktree of /repo HEAD + patch, demo both ways, ./check {prop} --tier quick with VERIF_REPO)",
    caught_quick=("yes: " + ", ".join(f"{n} x {k}" for k, n in kinds.items() if n)) if viol else "NO",
    violation_lines=[f"VIOLATION replay={v[0]}{v[1]}" for v in viol][:6],
    summary=summ[-1] if summ else "",
    note=note,
)
json.dump(meta, open(f"/verif/seeded/{sid}/meta.json", "w"), indent=1)
print(sid, meta["caught_quick"])
