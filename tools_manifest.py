#!/usr/bin/env python3
"""regenerate MANIFEST.json from props/*.py (claimed) + NOT_APPLICABLE below; validates against the schema"""
import importlib, json, os, sys, glob
ROOT = os.path.dirname(os.path.abspath(__file__))
sys.path.insert(0, ROOT)
ALL = [f"C{i:02d}" for i in range(1, 21)]
NOT_APPLICABLE = {}
checks = []
claimed = []
for pid in ALL:
    if not os.path.exists(os.path.join(ROOT, "props", f"{pid}.py")):
        NOT_APPLICABLE.setdefault(pid, "check not built yet in this tree (see DESIGN.md section 6 for the order of construction)")
        continue
    src = open(os.path.join(ROOT, "props", f"{pid}.py")).read()
    ns = {}
    # read the metadata constants without importing heavy modules
    import ast
    tree = ast.parse(src)
    meta = {}
    for node in tree.body:
        if isinstance(node, ast.Assign) and len(node.targets) == 1 and isinstance(node.targets[0], ast.Name):
            nm = node.targets[0].id
            if nm in ("PROP", "LEVEL", "LEVEL_TEXT", "LEVEL_NOTE", "TECHNIQUE", "DESIGN_REF"):
                meta[nm] = ast.literal_eval(node.value)
    claimed.append(pid)
    import contracts.index as _ix
    _lv = _ix.level_of(pid)
    if _lv:
        meta["LEVEL"] = _lv[0]
        if _lv[1]:
            meta["LEVEL_TEXT"] = _lv[1]
        if _lv[2]:
            meta["TECHNIQUE"] = _lv[2]
    checks.append(dict(
        property_id=pid,
        quick_cmd=f"./check {pid} --tier quick",
        thorough_cmd=f"./check {pid} --tier thorough",
        evidence_file=f"evidence/{pid}.json",
        replay_cmd_template=f"./check {pid} --replay {{path}}",
        engine="pyvc+rtc",
        level_claimed=dict(category=meta["LEVEL"], text=meta["LEVEL_TEXT"], design_ref=meta.get("DESIGN_REF", f"DESIGN.md section 2 ({pid})")),
        level_note=meta["LEVEL_NOTE"],
        technique=meta["TECHNIQUE"],
    ))
man = dict(
    version=1,
    setup_cmd="./setup.sh",
    hooks=dict(guard="QUIMB_VERIF", enable="no hooks: contracts are sidecar files under /verif/contracts, run-time contracts are evaluated by drivers under /verif/drivers that call the real functions; QUIMB_VERIF is unused (nothing in /repo reads it)",
               baseline_off_cmd="cd /repo && /venv/bin/python -m pytest -ra -q -p no:cacheprovider --timeout=900 --continue-on-collection-errors",
               source_commits=[],  # no hook / instrumentation commit exists; the unguarded `fix:` commits are listed in fix_commits.txt and known_findings*.json
               add_only=True),
    engines=[
        dict(name="pyvc", path="vf/pyvc.py", serves_properties=claimed, kind_free_text="E1: VC generation from the real Python source (ast) + sidecar contracts, discharged by z3/cvc5; E2 sympy; E4 AST frame/typestate; fdx finite-domain exhaustive"),
        dict(name="rtc", path="vf/rtc.py", serves_properties=claimed, kind_free_text="E3: run-time contracts on the real functions against independent numpy references over a stated bounded domain (bounded stand-in, never counted as proved)"),
    ],
    checks=checks,
    notes="See DESIGN.md. Exit 0 held / 1 violation; undecided obligations and contracts that no longer apply fall back to the bounded stand-in and are reported in evidence (never as violations).",
    not_applicable=[dict(property_id=k, reason=v) for k, v in sorted(NOT_APPLICABLE.items())],
)
json.dump(man, open(os.path.join(ROOT, "MANIFEST.json"), "w"), indent=1)
try:
    import jsonschema
    jsonschema.validate(man, json.load(open("/root/.vp/MANIFEST.schema.json")))
    print("MANIFEST.json valid;", len(checks), "claimed,", len(man["not_applicable"]), "not applicable")
except ImportError:
    print("written (jsonschema not available to validate)")
