"""C16 -- threaded kernels of quimb/core.py: partition arithmetic, per-rank frame, schedule independence.

Spec (DESIGN B.1).  For a problem of N rows, (nb, base, rem) = threading_choose_num_blocks(N, tbs, T):
   start(b) = b*base + min(b, rem),  stop(b) = start(b) + base + [b < rem]
   blocks 0..nb-1 tile [0, N);  rank r owns blocks b = r (mod T).
Every kernel run with rank r writes exactly the rows of its own blocks, and the value written to row k
is a function F(inputs, k) only (uninterpreted): the same term the (rank 0, T=1) call writes.
The kernels are proved for a *skolem* row k (arbitrary, hence for all rows).
"""

import z3

from vf.pyvc import (as_val, And, Arr, Contract, If, Implies, Loop, Max, Min, NS, Not, Or, V, I, R, Z, register, is_z3, Ref)
from vf import lemmas

CORE = "quimb/core.py"


def start_of(b, base, rem):
    return b * base + Min(b, rem)


def stop_of(b, base, rem):
    return start_of(b, base, rem) + base + If(b < rem, 1, 0)


@register
class ChooseNumBlocks(Contract):
    target = f"{CORE}::threading_choose_num_blocks"
    property_ids = ("C16",)
    floor = 10

    def inputs(self, cx, case):
        return dict(size_total=cx.Int("size_total"), target_block_size=cx.Int("tbs"), num_threads=cx.Int("T"))

    def requires(self, a, case):
        # the property quantifies over *all* sizes (incl. smaller than the thread count and zero),
        # thread counts and positive / negative block sizes
        return {"size>=0": a.size_total >= 0, "T>=1": a.num_threads >= 1, "tbs!=0": a.target_block_size != 0}

    def ensures(self, a, r, cx, case):
        nb, base, rem = r
        return {
            "nb>=1": nb >= 1,
            "partition": nb * base + rem == a.size_total,
            "rem-range": And(0 <= rem, rem < nb),
            "base>=0": base >= 0,
            "single": Implies(a.num_threads == 1, nb == 1),
        }

    def fresh_result(self, cx, a, case):
        return (cx.Int("nb"), cx.Int("base"), cx.Int("rem"))

    bounded = ("partition-exhaustive",)

    def replay(self, model):
        """concretise the solver's model and run the real (python text of the) function"""
        from quimb.core import threading_choose_num_blocks as f
        n, tbs, T = int(model.get("size_total", 0)), int(model.get("tbs", 1)), int(model.get("T", 1))
        call = f"threading_choose_num_blocks({n}, {tbs}, {T})"
        try:
            nb, base, rem = getattr(f, "py_func", f)(n, tbs, T)
        except ZeroDivisionError as e:
            return dict(call=call, observed=f"ZeroDivisionError: {e}", reproduced=True)
        ok = nb >= 1 and nb == int(nb) and nb * base + rem == n and 0 <= rem < nb and base >= 0
        return dict(call=call, observed=[float(nb), float(base), float(rem)], reproduced=not ok)


@register
class GetBlockRange(Contract):
    target = f"{CORE}::threading_get_block_range"
    property_ids = ("C16",)
    floor = 2

    def inputs(self, cx, case):
        return dict(b=cx.Int("b"), base_block_size=cx.Int("base"), block_remainder=cx.Int("rem"))

    def requires(self, a, case):
        return {"b>=0": a.b >= 0, "base>=0": a.base_block_size >= 0, "rem>=0": a.block_remainder >= 0}

    def ensures(self, a, r, cx, case):
        s, e = r
        return {
            "start": s == start_of(a.b, a.base_block_size, a.block_remainder),
            "stop": e == stop_of(a.b, a.base_block_size, a.block_remainder),
        }

    def fresh_result(self, cx, a, case):
        return (cx.Int("istart"), cx.Int("istop"))

    bounded = ("partition-exhaustive",)

    def replay(self, model):
        from quimb.core import threading_get_block_range as f
        b, base, rem = int(model.get("b", 0)), int(model.get("base", 0)), int(model.get("rem", 0))
        s, e = getattr(f, "py_func", f)(b, base, rem)
        exp = (b * base + min(b, rem), b * base + min(b, rem) + base + (1 if b < rem else 0))
        return dict(call=f"threading_get_block_range({b}, {base}, {rem})", observed=[int(s), int(e)], expected=list(exp),
                    reproduced=(int(s), int(e)) != exp)


# ---------------------------------------------------------------------------------------
# partition lemmas (pure arithmetic, used as assumptions inside the kernel proofs)
# ---------------------------------------------------------------------------------------


def _P(nb, base, rem, N):
    return And(nb >= 1, base >= 0, 0 <= rem, rem < nb, nb * base + rem == N)


@lemmas.lemma("C16", "partition-start0")
def lem_start0():
    nb, base, rem, N = z3.Ints("nb base rem N")
    return [_P(nb, base, rem, N)], start_of(0, base, rem) == 0


@lemmas.lemma("C16", "partition-contiguous")
def lem_contig():
    nb, base, rem, N, b = z3.Ints("nb base rem N b")
    return [_P(nb, base, rem, N), 0 <= b, b < nb - 1], stop_of(b, base, rem) == start_of(b + 1, base, rem)


@lemmas.lemma("C16", "partition-end")
def lem_end():
    nb, base, rem, N = z3.Ints("nb base rem N")
    return [_P(nb, base, rem, N)], stop_of(nb - 1, base, rem) == N


@lemmas.lemma("C16", "partition-nonneg-blocks")
def lem_nonneg():
    nb, base, rem, N, b = z3.Ints("nb base rem N b")
    return [_P(nb, base, rem, N), 0 <= b, b < nb], And(start_of(b, base, rem) <= stop_of(b, base, rem),
                                                        0 <= start_of(b, base, rem), stop_of(b, base, rem) <= N)


@lemmas.lemma("C16", "partition-monotone")
def lem_monotone():
    # blocks are ordered: b < b2  =>  stop(b) <= start(b2)     (hence disjoint)
    nb, base, rem, N, b, b2, d = z3.Ints("nb base rem N b b2 d")
    return [_P(nb, base, rem, N), 0 <= b, b < b2, b2 < nb, d == b2 - b - 1, d * base >= 0], \
        stop_of(b, base, rem) <= start_of(b2, base, rem)


@lemmas.lemma("C16", "partition-monotone-hint")
def lem_monotone_hint():
    d, base = z3.Ints("d base")
    return [d >= 0, base >= 0], d * base >= 0


@lemmas.lemma("C16", "partition-cover")
def lem_cover():
    # every row k in [0, N) lies in the block given by the closed form  => existence of blk(k)
    nb, base, rem, N, k, kb, q = z3.Ints("nb base rem N k kb q")
    big = rem * (base + 1)
    kbdef = If(k < big, k / (base + 1), rem + (k - big) / Max(base, 1))
    return [_P(nb, base, rem, N), 0 <= k, k < N, kb == kbdef], \
        And(0 <= kb, kb < nb, start_of(kb, base, rem) <= k, k < stop_of(kb, base, rem))


@lemmas.lemma("C16", "stride-unique-owner")
def lem_stride():
    # b = q*T + r = q2*T + r2 with 0 <= r, r2 < T   =>  q = q2 and r = r2   (each block has exactly one rank)
    T, q, r, q2, r2 = z3.Ints("T q r q2 r2")
    return [T >= 1, 0 <= r, r < T, 0 <= r2, r2 < T, q * T + r == q2 * T + r2], And(q == q2, r == r2)


@lemmas.lemma("C16", "stride-order")
def lem_stride_order():
    T, q, t = z3.Ints("T q t")
    return [T >= 1, q * T < t * T], q < t


@lemmas.lemma("C16", "stride-order2")
def lem_stride_order2():
    T, q, t = z3.Ints("T q t")
    return [T >= 1, q < t], q * T + T <= t * T


@lemmas.lemma("C16", "schedule-noninterference")
def lem_schedule():
    """two different ranks never touch the same row: rank r processes blocks r + t*T, rank r2 blocks r2 + t2*T;
    these are different blocks (stride-unique-owner), and different blocks have disjoint row ranges
    (partition-monotone).  With the kernel contracts (each rank writes only rows of its own blocks, the
    value written is F(inputs,row)) the T invocations commute: any interleaving gives out[k]=F(k) on [0,N)."""
    nb, base, rem, N, T, r, r2, t, t2, i, i2, b, b2 = z3.Ints("nb base rem N T r r2 t t2 i i2 b b2")
    hints = [  # instances of lemmas proved above
        Implies(b < b2, stop_of(b, base, rem) <= start_of(b2, base, rem)),
        Implies(b2 < b, stop_of(b2, base, rem) <= start_of(b, base, rem)),
        Implies(b == b2, And(t == t2, r == r2)),
    ]
    return [_P(nb, base, rem, N), T >= 1, 0 <= r, r < T, 0 <= r2, r2 < T, r != r2, t >= 0, t2 >= 0,
            b == r + t * T, b2 == r2 + t2 * T, b < nb, b2 < nb,
            start_of(b, base, rem) <= i, i < stop_of(b, base, rem),
            start_of(b2, base, rem) <= i2, i2 < stop_of(b2, base, rem)] + hints, i != i2


# ---------------------------------------------------------------------------------------
# kernels
# ---------------------------------------------------------------------------------------


class Kernel(Contract):
    """common part: `for b in range(thread_rank, num_blocks, num_threads)` / `for i in range(istart, istop)`"""

    property_ids = ("C16",)
    floor = 12
    rows_expr = "N"  # name of the local holding the partitioned extent
    out_name = "out"
    ndim_out = 1

    # --- ghost: skolem row k (and column kc for 2-d), its block kb = kq*T + kr
    def ghosts(self, cx):
        g = cx.ghost
        if "k" not in g:
            g["k"] = z3.Int("k!row")
            g["kc"] = z3.Int("k!col")
            g["kq"] = z3.Int("k!q")
            g["kr"] = z3.Int("k!r")
        return NS(g)

    def call(self, cx, name, args, kwargs, node):
        if name == "threading_choose_num_blocks":
            res = REG(f"{CORE}::threading_choose_num_blocks").apply(
                cx, NS(size_total=args[0], target_block_size=args[1], num_threads=args[2]), node)
            nb, base, rem = res
            g = self.ghosts(cx)
            N = args[0]
            T = args[2]
            # the extent that is partitioned must be the number of rows of the output (taken from the
            # contract, not from the code), and the thread parameters must be passed through unchanged
            out_rows = cx.old[self.out_name].shape[0]
            cx.oblige(f"partition-extent@{node.lineno}", "call-arg", N == out_rows, node.lineno)
            cx.oblige(f"partition-threads@{node.lineno}", "call-arg",
                      And(T == cx.old.num_threads, args[1] == cx.old.target_block_size), node.lineno)
            cx.ghost.update(nb=nb, base=base, rem=rem, N=N, T=T, rank=cx.env["thread_rank"])
            kb = g.kq * T + g.kr
            cx.ghost["kb"] = kb
            # instances of the partition lemmas (each proved as its own lemma obligation):
            #   cover: k in [0,N) lies in some block kb in [0,nb);   kb = kq*T + kr, 0 <= kr < T
            cx.assume(And(0 <= g.kr, g.kr < T, g.kq >= 0))
            cx.assume(Implies(And(0 <= g.k, g.k < N),
                              And(0 <= kb, kb < nb, start_of(kb, base, rem) <= g.k, g.k < stop_of(kb, base, rem))))
            return res
        if name == "threading_get_block_range":
            res = REG(f"{CORE}::threading_get_block_range").apply(
                cx, NS(b=args[0], base_block_size=args[1], block_remainder=args[2]), node)
            g = NS(cx.ghost)
            b = args[0]
            # lemma instances for this b:  blocks are disjoint and ordered; block inside [0,N)
            lo, hi = start_of(b, g.base, g.rem), stop_of(b, g.base, g.rem)
            cx.assume(Implies(And(0 <= b, b < g.nb), And(0 <= lo, lo <= hi, hi <= g.N)))
            cx.assume(Implies(And(0 <= b, b < g.nb, 0 <= g.k, g.k < g.N),
                              (g.kb == b) == And(lo <= g.k, g.k < hi)))
            # owner uniqueness / order for b = rank + t*T   (stride lemmas)
            t = cx.env.get("_it0")
            if t is not None:
                cx.assume(And((g.kb == b) == And(g.kq == t, g.kr == g.rank)))
            return res
        return NotImplemented

    def written_before(self, v):
        """row k belongs to a block of this rank that was completed before outer iteration _it0"""
        g = NS(v.cx.ghost)
        return And(0 <= g.k, g.k < g.N, g.kr == g.rank, g.kq < v._it0)

    def F(self, v, g):
        raise NotImplementedError

    def cur(self, v):
        g = NS(v.cx.ghost)
        o = v[self.out_name]
        return o.get([g.k] if self.ndim_out == 1 else [g.k, g.kc])

    def old_out(self, v):
        g = NS(v.cx.ghost)
        o = v.old[self.out_name]
        return o.get([g.k] if self.ndim_out == 1 else [g.k, g.kc])

    def col_ok(self, v):
        return True

    def outer_inv(self, v):
        g = NS(v.cx.ghost)
        return {"frame+value": self.cur(v) == If(And(self.written_before(v), self.col_ok(v)), self.F(v, g),
                                                 self.old_out(v))}

    def inner_inv(self, v):
        g = NS(v.cx.ghost)
        w = Or(self.written_before(v), And(v.istart <= g.k, g.k < v.i))
        return {"frame+value": self.cur(v) == If(And(w, self.col_ok(v)), self.F(v, g), self.old_out(v)),
                "i-range": And(v.istart <= v.i, v.i <= v.istop)}

    def on_store(self, cx, target, base, idx, val):
        # frame: every store goes to a row of the block currently being processed (which is one of this
        # rank's blocks by construction of the outer range)
        if isinstance(target.value, ast_Name) and target.value.id == self.out_name:
            g = NS(cx.ghost)
            b = cx.env["b"]
            cx.oblige(f"frame@{target.lineno}:row-in-own-block", "frame",
                      And(start_of(b, g.base, g.rem) <= idx[0], idx[0] < stop_of(b, g.base, g.rem),
                          0 <= b, b < g.nb), target.lineno)
        else:
            cx.oblige(f"frame@{target.lineno}:store-to-non-output", "frame", False, target.lineno)

    def kernel_requires(self, a):
        return {"rank": And(0 <= a.thread_rank, a.thread_rank < a.num_threads), "T>=1": a.num_threads >= 1,
                "tbs!=0": a.target_block_size != 0}

    def post(self, cx):
        g = NS(cx.ghost)
        v = cx.ns()
        own = And(0 <= g.k, g.k < g.N, g.kr == g.rank)
        return {"frame+value": self.cur(v) == If(And(own, self.col_ok(v)), self.F(v, g), self.old_out(v))}

    def ensures(self, a, r, cx, case):
        d = self.post(cx)
        # when T = 1 (the serial form) every row is owned: out[k] = F(k) on [0,N)
        g = NS(cx.ghost)
        v = cx.ns()
        d["serial-form"] = Implies(And(a.num_threads == 1, 0 <= g.k, g.k < g.N, self.col_ok(v)),
                                   self.cur(v) == self.F(v, g))
        return d


import ast as _ast

ast_Name = _ast.Name


def REG(t):
    from vf.pyvc import REGISTRY
    return REGISTRY[t]


OUTER = "for b in range(thread_rank, num_blocks, num_threads)"
INNER = "for i in range(istart, istop)"


def vec(cx, name, n):
    return Arr(cx.Array(name, z3.IntSort(), V), (n,))


def mat(cx, name, n, m):
    return Arr(cx.Array(name, z3.IntSort(), z3.IntSort(), V), (n, m))


def tparams(cx):
    return dict(thread_rank=cx.Int("rank"), num_threads=cx.Int("T"), target_block_size=cx.Int("tbs"))


@register
class ComplexArray(Kernel):
    target = f"{CORE}::_complex_array_numba"

    def inputs(self, cx, case):
        n = cx.Int("n")
        return dict(x=vec(cx, "x", n), y=vec(cx, "y", n), out=vec(cx, "out", n), **tparams(cx))

    def requires(self, a, case):
        return {"n>=0": a.x.shape[0] >= 0, **self.kernel_requires(a)}

    def F(self, v, g):
        return v.cx.uf("complex", [v.old.x.get([g.k]), v.old.y.get([g.k])])

    @property
    def loops(self):
        return {0: Loop(OUTER, self.outer_inv), 1: Loop(INNER, self.inner_inv)}


@register
class PhaseToComplex(Kernel):
    target = f"{CORE}::_phase_to_complex_numba"

    def inputs(self, cx, case):
        n = cx.Int("n")
        return dict(x=vec(cx, "x", n), out=vec(cx, "out", n), **tparams(cx))

    def requires(self, a, case):
        return {"n>=0": a.x.shape[0] >= 0, **self.kernel_requires(a)}

    def call(self, cx, name, args, kwargs, node):
        if name in ("np.cos", "np.sin"):
            return cx.uf(name.replace(".", "_"), args)
        return super().call(cx, name, args, kwargs, node)

    def F(self, v, g):
        xk = v.old.x.get([g.k])
        return v.cx.uf("complex", [v.cx.uf("np_cos", [xk]), v.cx.uf("np_sin", [xk])])

    @property
    def loops(self):
        return {0: Loop(OUTER, self.outer_inv), 1: Loop(INNER, self.inner_inv)}


class Update1D(Kernel):
    out_name = "X"

    def requires(self, a, case):
        return {"n>=0": a.X.shape[0] >= 0, **self.kernel_requires(a)}

    @property
    def loops(self):
        return {0: Loop(OUTER, self.outer_inv), 1: Loop(INNER, self.inner_inv)}


@register
class SubtractUpdate1D(Update1D):
    target = f"{CORE}::_subtract_update_1d_numba"

    def inputs(self, cx, case):
        n = cx.Int("n")
        return dict(X=vec(cx, "X", n), c=cx.Val("c"), Y=vec(cx, "Y", n), **tparams(cx))

    def F(self, v, g):
        return v.cx.uf("vSub", [v.old.X.get([g.k]), v.cx.uf("vMult", [v.old.c, v.old.Y.get([g.k])])])


@register
class DivideUpdate1D(Update1D):
    target = f"{CORE}::_divide_update_1d_numba"
    out_name = "out"
    safety_div = False

    def inputs(self, cx, case):
        n = cx.Int("n")
        return dict(X=vec(cx, "X", n), c=cx.Val("c"), out=vec(cx, "out", n), **tparams(cx))

    def F(self, v, g):
        return v.cx.uf("vDiv", [v.old.X.get([g.k]), v.old.c])


class Kernel2D(Kernel):
    ndim_out = 2
    ncols = "M"

    def col_ok(self, v):
        g = NS(v.cx.ghost)
        return And(0 <= g.kc, g.kc < v[self.ncols])

    def j_inv(self, v):
        g = NS(v.cx.ghost)
        w = Or(self.written_before(v), And(v.istart <= g.k, g.k < v.i), And(g.k == v.i, g.kc < v.j))
        return {"frame+value": self.cur(v) == If(And(w, self.col_ok(v)), self.F(v, g), self.old_out(v)),
                "j-range": And(0 <= v.j)}

    def inner_inv(self, v):
        d = super().inner_inv(v)
        return d

    @property
    def loops(self):
        return {0: Loop(OUTER, self.outer_inv), 1: Loop(INNER, self.inner_inv),
                2: Loop("for j in range(M)", self.j_inv)}


@register
class SubtractUpdate2D(Kernel2D):
    target = f"{CORE}::_subtract_update_2d_numba"
    out_name = "X"

    def inputs(self, cx, case):
        n, m = cx.Int("n"), cx.Int("m")
        return dict(X=mat(cx, "X", n, m), c=cx.Val("c"), Y=mat(cx, "Y", n, m), **tparams(cx))

    def requires(self, a, case):
        return {"n>=0": a.X.shape[0] >= 0, "m>=0": a.X.shape[1] >= 0, **self.kernel_requires(a)}

    def F(self, v, g):
        return v.cx.uf("vSub", [v.old.X.get([g.k, g.kc]), v.cx.uf("vMult", [v.old.c, v.old.Y.get([g.k, g.kc])])])


@register
class DivideUpdate2D(Kernel2D):
    target = f"{CORE}::_divide_update_2d_numba"

    def inputs(self, cx, case):
        n, m = cx.Int("n"), cx.Int("m")
        return dict(X=mat(cx, "X", n, m), c=cx.Val("c"), out=mat(cx, "out", n, m), **tparams(cx))

    def requires(self, a, case):
        return {"n>=0": a.X.shape[0] >= 0, "m>=0": a.X.shape[1] >= 0, **self.kernel_requires(a)}

    def F(self, v, g):
        return v.cx.uf("vDiv", [v.old.X.get([g.k, g.kc]), v.old.c])


@register
class LDiagDotDense(Kernel2D):
    target = f"{CORE}::_l_diag_dot_dense_par"

    def inputs(self, cx, case):
        n, m = cx.Int("n"), cx.Int("m")
        return dict(l=vec(cx, "l", n), A=mat(cx, "A", n, m), out=mat(cx, "out", n, m), **tparams(cx))

    def requires(self, a, case):
        return {"n>=0": a.A.shape[0] >= 0, "m>=0": a.A.shape[1] >= 0, **self.kernel_requires(a)}

    def F(self, v, g):
        return v.cx.uf("vMult", [v.old.l.get([g.k]), v.old.A.get([g.k, g.kc])])


@register
class RDiagDotDense(Kernel2D):
    target = f"{CORE}::_r_diag_dot_dense_par"

    def inputs(self, cx, case):
        n, m = cx.Int("n"), cx.Int("m")
        return dict(A=mat(cx, "A", n, m), l=vec(cx, "l", m), out=mat(cx, "out", n, m), **tparams(cx))

    def requires(self, a, case):
        return {"n>=0": a.A.shape[0] >= 0, "m>=0": a.A.shape[1] >= 0, **self.kernel_requires(a)}

    def F(self, v, g):
        return v.cx.uf("vMult", [v.old.A.get([g.k, g.kc]), v.old.l.get([g.kc])])


@register
class OuterPar(Kernel2D):
    target = f"{CORE}::_outer_par"
    ncols = "n"

    def inputs(self, cx, case):
        m, n = cx.Int("m"), cx.Int("n")
        return dict(x=vec(cx, "x", m), y=vec(cx, "y", n), out=mat(cx, "out", m, n), m=m, n=n, **tparams(cx))

    def requires(self, a, case):
        return {"m>=0": a.m >= 0, "n>=0": a.n >= 0, **self.kernel_requires(a)}

    def F(self, v, g):
        return v.cx.uf("vMult", [v.old.x.get([g.k]), v.old.y.get([g.kc])])

    @property
    def loops(self):
        return {0: Loop(OUTER, self.outer_inv), 1: Loop(INNER, self.inner_inv),
                2: Loop("for j in range(n)", self.j_inv)}


@register
class DotCsrMatvec(Kernel):
    """CSR matrix of n rows (= out.size, indptr has n+1 entries) and m columns (= vec.size)"""

    target = f"{CORE}::_dot_csr_matvec_numba"

    def inputs(self, cx, case):
        n, m, nnz = cx.Int("n"), cx.Int("m"), cx.Int("nnz")  # n rows, m columns
        return dict(
            data=vec(cx, "data", nnz),
            indptr=Arr(cx.Array("indptr", z3.IntSort(), z3.IntSort()), (n + 1,)),
            indices=Arr(cx.Array("indices", z3.IntSort(), z3.IntSort()), (nnz,)),
            vec=vec(cx, "vec", m), out=vec(cx, "out", n), **tparams(cx))

    def requires(self, a, case):
        n, m = a.out.shape[0], a.vec.shape[0]
        nnz = a.data.shape[0]
        return {"n>=0": n >= 0, "m>=0": m >= 0, "nnz>=0": nnz >= 0, **self.kernel_requires(a)}

    # valid CSR structure (scipy invariant: indptr monotone within [0,nnz], column indices in range), given as
    # instances at the entries the kernel reads (quantifier-free, so failed obligations come with models)
    def on_read(self, cx, node, base, idx):
        o = cx.old
        n, m, nnz = o.out.shape[0], o.vec.shape[0], o.data.shape[0]
        if base.a.eq(o.indptr.a):
            i = idx[0]
            for ii in (i, i - 1):
                cx.assume(Implies(And(0 <= ii, ii < n),
                                  And(0 <= z3.Select(base.a, ii), z3.Select(base.a, ii) <= z3.Select(base.a, ii + 1),
                                      z3.Select(base.a, ii + 1) <= nnz)))
        elif base.a.eq(o.indices.a):
            j = idx[0]
            cx.assume(Implies(And(0 <= j, j < nnz), And(0 <= z3.Select(base.a, j), z3.Select(base.a, j) < m)))

    def fold_facts(self, v):
        # definition of the spec function rowsum (recursive fold over the stored entries of a row)
        o = v.old
        term = z3.Function("vMult", V, V, V)(z3.Select(o.data.a, v.j),
                                             z3.Select(o.vec.a, z3.Select(o.indices.a, v.j)))
        return [self.rowsum(None, v.i, z3.Select(o.indptr.a, v.i)) == as_val(0.0),
                self.rowsum(None, v.i, v.j + 1) == z3.Function("vAdd", V, V, V)(self.rowsum(None, v.i, v.j), term)]

    # row sum as a recursively specified fold:  rowsum(i, j) = partial sum of row i over entries [indptr[i], j)
    def rowsum(self, cx, i, j):
        f = z3.Function("rowsum", z3.IntSort(), z3.IntSort(), V)
        return f(i, j)

    def F(self, v, g):
        return self.rowsum(v.cx, g.k, z3.Select(v.old.indptr.a, g.k + 1))

    def jj_inv(self, v):
        g = NS(v.cx.ghost)
        w = Or(self.written_before(v), And(v.istart <= g.k, g.k < v.i))
        return {"frame+value": self.cur(v) == If(w, self.F(v, g), self.old_out(v)),
                "fold": as_val(v.isum) == self.rowsum(v.cx, v.i, v.j),
                "j-range": And(z3.Select(v.old.indptr.a, v.i) <= v.j, v.j <= z3.Select(v.old.indptr.a, v.i + 1))}

    def call(self, cx, name, args, kwargs, node):
        return super().call(cx, name, args, kwargs, node)

    @property
    def loops(self):
        return {0: Loop(OUTER, self.outer_inv), 1: Loop(INNER, self.inner_inv),
                2: Loop("for j in range(indptr[i], indptr[i + 1])", self.jj_inv,
                        retype={"isum": lambda cx: cx.Val("isum")}, facts=self.fold_facts)}


@register
class KronDense(Kernel2D):
    """out[i, j] = x[i div p, j div q] * y[i mod p, j mod q]  for rows i of this rank's blocks"""

    target = f"{CORE}::_kron_dense_numba"
    ncols = "ncols_ghost"

    def inputs(self, cx, case):
        m, n, p, q = cx.Int("m"), cx.Int("n"), cx.Int("p"), cx.Int("q")
        return dict(x=mat(cx, "x", m, n), y=mat(cx, "y", p, q), out=mat(cx, "out", m * p, n * q), m=m, n=n, p=p, q=q,
                    **tparams(cx))

    def requires(self, a, case):
        return {"m>=0": a.m >= 0, "n>=0": a.n >= 0, "p>=1": a.p >= 1, "q>=1": a.q >= 1, **self.kernel_requires(a)}

    def col_ok(self, v):
        g = NS(v.cx.ghost)
        return And(0 <= g.kc, g.kc < v.old.n * v.old.q)

    def F(self, v, g):
        o = v.old
        # ghost quotient / remainder of the skolem row and column (defined by the assumptions in `facts`)
        return v.cx.uf("vMult", [o.x.get([g.ka, g.kca]), o.y.get([g.kb2, g.kcb])])

    def ghosts(self, cx):
        g = super().ghosts(cx)
        if "ka" not in cx.ghost:
            cx.ghost.update(ka=z3.Int("k!ia"), kb2=z3.Int("k!ib"), kca=z3.Int("k!ja"), kcb=z3.Int("k!jb"))
            o = cx.old
            gg = NS(cx.ghost)
            # definition of the ghost digits: k = p*ka + kb2 (0 <= kb2 < p), kc = q*kca + kcb (0 <= kcb < q)
            cx.assume(And(gg.k == o.p * gg.ka + gg.kb2, 0 <= gg.kb2, gg.kb2 < o.p,
                          gg.kc == o.q * gg.kca + gg.kcb, 0 <= gg.kcb, gg.kcb < o.q))
        return NS(cx.ghost)

    def call(self, cx, name, args, kwargs, node):
        if name == "divmod":
            # ia, ib = divmod(i, p): with p >= 1 python's divmod is the euclidean one; introduce the digits
            i, p = args
            cx.oblige(f"divzero@{node.lineno}", "safety", p != 0, node.lineno)
            ia, ib = cx.Int("ia"), cx.Int("ib")
            cx.assume(And(i == p * ia + ib, 0 <= ib, ib < p))
            g = NS(cx.ghost)
            # uniqueness of digits (instance of lemma digits-unique): same number, same digits
            cx.assume(Implies(i == g.k, And(ia == g.ka, ib == g.kb2)))
            cx.assume(Implies(And(i >= 0), ia >= 0))
            cx.assume(Implies(And(i < cx.old.m * p), ia < cx.old.m))
            return (ia, ib)
        return super().call(cx, name, args, kwargs, node)

    def ja_inv(self, v):
        g = NS(v.cx.ghost)
        o = v.old
        w = Or(self.written_before(v), And(v.istart <= g.k, g.k < v.i), And(g.k == v.i, g.kca < v.ja))
        return {"frame+value": self.cur(v) == If(And(w, self.col_ok(v)), self.F(v, g), self.old_out(v)),
                "ja>=0": v.ja >= 0}

    def jb_inv(self, v):
        g = NS(v.cx.ghost)
        w = Or(self.written_before(v), And(v.istart <= g.k, g.k < v.i),
               And(g.k == v.i, Or(g.kca < v.ja, And(g.kca == v.ja, g.kcb < v.jb))))
        return {"frame+value": self.cur(v) == If(And(w, self.col_ok(v)), self.F(v, g), self.old_out(v)),
                "jb>=0": v.jb >= 0}

    def inner_inv(self, v):
        g = NS(v.cx.ghost)
        w = Or(self.written_before(v), And(v.istart <= g.k, g.k < v.i))
        return {"frame+value": self.cur(v) == If(And(w, self.col_ok(v)), self.F(v, g), self.old_out(v)),
                "i-range": And(v.istart <= v.i, v.i <= v.istop)}

    @property
    def loops(self):
        return {0: Loop(OUTER, self.outer_inv), 1: Loop(INNER, self.inner_inv),
                2: Loop("for ja in range(n)", self.ja_inv), 3: Loop("for jb in range(q)", self.jb_inv)}


@lemmas.lemma("C16", "digits-unique")
def lem_digits():
    p, a, b, a2, b2 = z3.Ints("p a b a2 b2")
    return [p >= 1, 0 <= b, b < p, 0 <= b2, b2 < p, p * a + b == p * a2 + b2], And(a == a2, b == b2)


@lemmas.lemma("C16", "digits-range")
def lem_digits_range():
    p, a, b, m = z3.Ints("p a b m")
    return [p >= 1, 0 <= b, b < p, 0 <= p * a + b, p * a + b < m * p], And(0 <= a, a < m)


# ---------------------------------------------------------------------------------------
# wrappers: allocation of the output, the extent handed to maybe_multithread, pass-through of the thread options
# ---------------------------------------------------------------------------------------


def nd(cx, name, shape, fresh=False, base=None):
    return cx.new_obj("ndarray", shape=tuple(shape), fresh=fresh, name=name, base=base)


def size_of(shape):
    r = 1
    for s in shape:
        r = r * s
    return r


# kernel name -> (positional parameter names of the arrays/scalars, name of the output parameter,
#                 shape relations required by the kernel as a function of the bound arguments)
def _sh(cx, ref):
    return cx.fields(ref)["shape"]


def _vec_same(*names):
    def f(cx, b):
        shp = [_sh(cx, b[n]) for n in names]
        return {"all-1d": all(len(s) == 1 for s in shp),
                "same-length": And(*[shp[0][0] == s[0] for s in shp[1:]]) if all(len(s) == 1 for s in shp) else False}
    return f


def _same_shape(*names):
    def f(cx, b):
        shp = [_sh(cx, b[n]) for n in names]
        ok = all(len(s) == len(shp[0]) for s in shp)
        return {"same-rank": ok, "same-shape": And(*[a == c for s in shp[1:] for a, c in zip(shp[0], s)]) if ok else False}
    return f


KERNEL_SIGS = {
    "_complex_array_numba": (("x", "y", "out"), "out", _vec_same("x", "y", "out")),
    "_phase_to_complex_numba": (("x", "out"), "out", _vec_same("x", "out")),
    "_subtract_update_1d_numba": (("X", "c", "Y"), "X", _vec_same("X", "Y")),
    "_subtract_update_2d_numba": (("X", "c", "Y"), "X", _same_shape("X", "Y")),
    "_divide_update_1d_numba": (("X", "c", "out"), "out", _vec_same("X", "out")),
    "_divide_update_2d_numba": (("X", "c", "out"), "out", _same_shape("X", "out")),
    "_dot_csr_matvec_numba": (("data", "indptr", "indices", "vec", "out"), "out", lambda cx, b: {
        "indptr-has-rows+1": _sh(cx, b["indptr"])[0] == _sh(cx, b["out"])[0] + 1,
        "data-indices-same": _sh(cx, b["data"])[0] == _sh(cx, b["indices"])[0],
        "vec-has-ncols": _sh(cx, b["vec"])[0] == cx.ghost.get("csr_ncols", _sh(cx, b["vec"])[0])}),
    "_l_diag_dot_dense_par": (("l", "A", "out"), "out", lambda cx, b: {
        "diag-has-rows": _sh(cx, b["l"])[0] == _sh(cx, b["A"])[0], **_same_shape("A", "out")(cx, b)}),
    "_r_diag_dot_dense_par": (("A", "l", "out"), "out", lambda cx, b: {
        "diag-has-cols": _sh(cx, b["l"])[0] == _sh(cx, b["A"])[1], **_same_shape("A", "out")(cx, b)}),
    "_outer_par": (("x", "y", "out", "m", "n"), "out", lambda cx, b: {
        "x-has-m": _sh(cx, b["x"])[0] == b["m"], "y-has-n": _sh(cx, b["y"])[0] == b["n"],
        "out-is-mxn": And(_sh(cx, b["out"])[0] == b["m"], _sh(cx, b["out"])[1] == b["n"])}),
    "_kron_dense_numba": (("x", "y", "out", "m", "n", "p", "q"), "out", lambda cx, b: {
        "x-is-mxn": And(_sh(cx, b["x"])[0] == b["m"], _sh(cx, b["x"])[1] == b["n"]),
        "y-is-pxq": And(_sh(cx, b["y"])[0] == b["p"], _sh(cx, b["y"])[1] == b["q"]),
        "out-is-mp x nq": And(_sh(cx, b["out"])[0] == b["m"] * b["p"], _sh(cx, b["out"])[1] == b["n"] * b["q"])}),
}


class Wrapper(Contract):
    property_ids = ("C16",)
    safety = False
    floor = 5
    update_in_place = False  # *_update_ wrappers write into an argument instead of a fresh output
    drops = "decorators (@ensure_qarray: wraps the returned array, no effect on its content), docstring"

    def attr(self, cx, base, attr, node):
        if isinstance(base, Ref) and base.kind == "ndarray":
            shp = cx.fields(base)["shape"]
            if attr == "size":
                return size_of(shp)
            if attr == "ndim":
                return len(shp)
            if attr == "dtype":
                return cx.ghost.get("dtype", "float64")
            if attr == "shape":
                return shp
        if isinstance(base, Ref) and base.kind == "csr":
            f = cx.fields(base)
            if attr in f:
                return f[attr]
        if base is None and attr in KERNEL_SIGS:
            return ("kernel", attr)
        return NotImplemented

    def call(self, cx, name, args, kwargs, node):
        if name in ("np.empty",):
            shp = args[0]
            shp = tuple(shp) if isinstance(shp, (tuple, list)) else (shp,)
            return nd(cx, "out", shp, fresh=True)
        if name == "np.empty_like":
            return nd(cx, "out", cx.fields(args[0])["shape"], fresh=True)
        if name == ".ravel" and isinstance(args[0], Ref):
            f = cx.fields(args[0])
            return nd(cx, f["name"] + ".ravel()", (size_of(f["shape"]),), fresh=f["fresh"], base=args[0])
        if name == "common_type":
            return cx.Opaque("dtype")
        if name == "__isinstance__" and args[1] == "qarray":
            return False
        if name == "__setattr__" and isinstance(args[0], Ref) and args[1] == "shape":
            arr, _, shp = args
            f = cx.fields(arr)
            shp = tuple(shp) if isinstance(shp, (tuple, list)) else (shp,)
            # reshaping never changes the number of elements
            cx.oblige(f"reshape@{node.lineno}:size-preserved", "safety", size_of(shp) == size_of(f["shape"]), node.lineno)
            f["shape"] = shp
            return None
        if name == "maybe_multithread":
            return self.on_multithread(cx, args, kwargs, node)
        return NotImplemented

    def on_multithread(self, cx, args, kwargs, node):
        """proved contract of maybe_multithread at this call site + the callee kernel's requirements"""
        fn = args[0]
        if not (isinstance(fn, tuple) and fn[0] == "kernel"):
            cx.oblige(f"call-arg@{node.lineno}:kernel-is-a-threaded-kernel", "call-arg", False, node.lineno)
            return None
        kname = fn[1]
        params, outname, shapes = KERNEL_SIGS[kname]
        pos = args[1:]
        if len(pos) != len(params):
            cx.oblige(f"call-arg@{node.lineno}:kernel-arity", "call-arg", False, node.lineno)
            return None
        b = dict(zip(params, pos))
        for lab, c in shapes(cx, b).items():
            cx.oblige(f"call-pre@{node.lineno}:{kname}:{lab}", "call-pre", c, node.lineno)
        out = b[outname]
        rows = _sh(cx, out)[0]
        # NOTE: size_total only decides *whether* to thread (size_total <= target_block_size -> serial call); the
        # kernels partition their own extent, so the result does not depend on it.  It is therefore not an
        # obligation of C16 (r_diag_dot_dense passes the column count: a heuristic mismatch, not a wrong result).
        cx.oblige(f"call-arg@{node.lineno}:size_total-given", "call-arg", "size_total" in kwargs, node.lineno)
        o = cx.old
        cx.oblige(f"call-arg@{node.lineno}:thread-options-passed-through", "call-arg",
                  And(self.same(kwargs.get("target_block_size"), o.target_block_size),
                      self.same(kwargs.get("num_threads"), o.num_threads)), node.lineno)
        extra = set(kwargs) - {"size_total", "target_block_size", "num_threads"}
        cx.oblige(f"call-arg@{node.lineno}:no-stray-keyword", "call-arg", not extra, node.lineno)
        if not self.update_in_place:
            # the kernel must not read the array it writes: the output is freshly allocated here
            f = cx.fields(out)
            root = f["base"] if f["base"] is not None else out
            cx.oblige(f"call-pre@{node.lineno}:{kname}:output-freshly-allocated", "call-pre",
                      bool(cx.fields(root)["fresh"]) and all(
                          (x is not root and (not isinstance(x, Ref) or cx.fields(x).get("base") is not root))
                          for k, x in b.items() if k != outname), node.lineno)
        cx.ghost["filled"] = out
        cx.ghost["kernel"] = kname
        return None

    @staticmethod
    def same(a, b):
        if a is None or b is None:
            return a is None and b is None
        if is_z3(a) or is_z3(b):
            return a == b
        return a == b

    def tparams(self, cx):
        nt = None if self._case.nt == "None" else cx.Int("num_threads")
        return dict(num_threads=nt, target_block_size=cx.Int("tbs"))

    def cases(self):
        return [NS(name=f"num_threads={nt}", nt=nt) for nt in ("None", "int")]

    def ensures(self, a, r, cx, case):
        out = cx.ghost.get("filled")
        d = {"kernel-was-dispatched": out is not None}
        if out is None:
            return d
        if not self.update_in_place:
            f = cx.fields(out)
            root = f["base"] if f["base"] is not None else out
            d["returns-the-filled-array"] = isinstance(r, Ref) and (r is root or r == root)
            d.update(self.result_shape(cx, a, r) if isinstance(r, Ref) else {})
        return d

    def result_shape(self, cx, a, r):
        return {}


def _winputs(fn):
    def inputs(self, cx, case):
        self._case = case
        return fn(self, cx, case)
    return inputs


@register
class WComplexArray(Wrapper):
    target = f"{CORE}::complex_array"

    def cases(self):
        return [NS(name=f"num_threads={nt},dtype={dt}", nt=nt, dt=dt) for nt in ("None", "int") for dt in ("float32", "float64")]

    @_winputs
    def inputs(self, cx, case):
        n = cx.Int("n")
        cx.assume(n >= 0)
        cx.ghost["dtype"] = case.dt
        return dict(x=nd(cx, "x", (n,)), y=nd(cx, "y", (n,)), **self.tparams(cx))

    def result_shape(self, cx, a, r):
        return {"shape": _sh(cx, r)[0] == _sh(cx, a.x)[0]}


@register
class WPhaseToComplex(Wrapper):
    target = f"{CORE}::phase_to_complex"

    def cases(self):
        return [NS(name=f"num_threads={nt},ndim={k}", nt=nt, k=k) for nt in ("None", "int") for k in (1, 2)]

    @_winputs
    def inputs(self, cx, case):
        shp = tuple(cx.Int(f"n{i}") for i in range(case.k))
        for s in shp:
            cx.assume(s >= 0)
        return dict(x=nd(cx, "x", shp), **self.tparams(cx))

    def result_shape(self, cx, a, r):
        return {"shape": And(*[p == q for p, q in zip(_sh(cx, r), _sh(cx, a.x))]) if len(_sh(cx, r)) == len(_sh(cx, a.x)) else False}


class WUpdate(Wrapper):
    update_in_place = True

    def cases(self):
        return [NS(name=f"num_threads={nt},ndim={k}", nt=nt, k=k) for nt in ("None", "int") for k in (1, 2)]

    def ensures(self, a, r, cx, case):
        d = super().ensures(a, r, cx, case)
        d["kernel-matches-rank"] = cx.ghost.get("kernel", "").endswith(f"_{case.k}d_numba")
        return d


@register
class WSubtractUpdate(WUpdate):
    target = f"{CORE}::subtract_update_"

    @_winputs
    def inputs(self, cx, case):
        shp = tuple(cx.Int(f"n{i}") for i in range(case.k))
        return dict(X=nd(cx, "X", shp), c=cx.Val("c"), Y=nd(cx, "Y", shp), **self.tparams(cx))


@register
class WDivideUpdate(WUpdate):
    target = f"{CORE}::divide_update_"

    @_winputs
    def inputs(self, cx, case):
        shp = tuple(cx.Int(f"n{i}") for i in range(case.k))
        return dict(X=nd(cx, "X", shp), c=cx.Val("c"), out=nd(cx, "out", shp), **self.tparams(cx))


@register
class WParDotCsrMatvec(Wrapper):
    target = f"{CORE}::par_dot_csr_matvec"

    def cases(self):
        return [NS(name=f"num_threads={nt},x={k}", nt=nt, k=k) for nt in ("None", "int") for k in ("1d", "column")]

    @_winputs
    def inputs(self, cx, case):
        n, m, nnz = cx.Int("n"), cx.Int("m"), cx.Int("nnz")
        cx.assume(And(n >= 0, m >= 0, nnz >= 0))
        A = cx.new_obj("csr", shape=(n, m), data=nd(cx, "A.data", (nnz,)), indptr=nd(cx, "A.indptr", (n + 1,)),
                       indices=nd(cx, "A.indices", (nnz,)))
        cx.ghost["csr_ncols"] = m
        x = nd(cx, "x", (m,) if case.k == "1d" else (m, 1))
        return dict(A=A, x=x, num_threads=None if case.nt == "None" else cx.Int("num_threads"),
                    target_block_size=cx.Int("tbs"))

    def result_shape(self, cx, a, r):
        n = cx.fields(a.A)["shape"][0]
        shp = _sh(cx, r)
        want = (n,) if len(_sh(cx, a.x)) == 1 else (n, 1)
        return {"shape-is-rows-of-A": And(*[p == q for p, q in zip(shp, want)]) if len(shp) == len(want) else False}


@register
class WLDiagDotDense(Wrapper):
    target = f"{CORE}::l_diag_dot_dense"

    @_winputs
    def inputs(self, cx, case):
        n, m = cx.Int("n"), cx.Int("m")
        return dict(diag=nd(cx, "diag", (n,)), mat=nd(cx, "mat", (n, m)), **self.tparams(cx))

    def result_shape(self, cx, a, r):
        return {"shape": And(*[p == q for p, q in zip(_sh(cx, r), _sh(cx, a.mat))])}


@register
class WRDiagDotDense(Wrapper):
    target = f"{CORE}::r_diag_dot_dense"

    @_winputs
    def inputs(self, cx, case):
        n, m = cx.Int("n"), cx.Int("m")
        return dict(mat=nd(cx, "mat", (n, m)), diag=nd(cx, "diag", (m,)), **self.tparams(cx))

    def result_shape(self, cx, a, r):
        return {"shape": And(*[p == q for p, q in zip(_sh(cx, r), _sh(cx, a.mat))])}


@register
class WOuter(Wrapper):
    target = f"{CORE}::outer"

    @_winputs
    def inputs(self, cx, case):
        m, n = cx.Int("m"), cx.Int("n")
        return dict(a=nd(cx, "a", (m,)), b=nd(cx, "b", (n,)), **self.tparams(cx))

    def result_shape(self, cx, a, r):
        return {"shape": And(_sh(cx, r)[0] == _sh(cx, a.a)[0], _sh(cx, r)[1] == _sh(cx, a.b)[0])}


@register
class WKronDense(Wrapper):
    target = f"{CORE}::kron_dense"

    @_winputs
    def inputs(self, cx, case):
        m, n, p, q = cx.Int("m"), cx.Int("n"), cx.Int("p"), cx.Int("q")
        return dict(a=nd(cx, "a", (m, n)), b=nd(cx, "b", (p, q)), **self.tparams(cx))

    def result_shape(self, cx, a, r):
        (m, n), (p, q) = _sh(cx, a.a), _sh(cx, a.b)
        return {"shape": And(_sh(cx, r)[0] == m * p, _sh(cx, r)[1] == n * q)}


@register
class MaybeMultithread(Contract):
    """either ONE direct call fn(*args, **kwargs) (the kernel's serial defaults: rank 0 of 1), or exactly one
    submission per rank r in range(num_threads) with the same (num_threads, target_block_size), all waited for"""

    target = f"{CORE}::maybe_multithread"
    property_ids = ("C16",)
    floor = 4
    safety = False

    def cases(self):
        return [NS(name=f"num_threads={nt}", nt=nt) for nt in ("None", "int")]

    def inputs(self, cx, case):
        nt = None if case.nt == "None" else cx.Int("num_threads")
        if nt is not None:
            cx.assume(nt >= 1)
        cx.ghost["events"] = []
        return dict(fn=("kernel", "fn"), args=(Opaque_("a0", cx), Opaque_("a1", cx)), size_total=cx.Int("size_total"),
                    target_block_size=cx.Int("tbs"), num_threads=nt, kwargs={"extra": Opaque_("kw", cx)})

    def attr(self, cx, base, attr, node):
        if base is None and attr == "_NUM_THREAD_WORKERS":
            w = cx.Int("default_workers")
            cx.assume(w >= 1)
            cx.ghost["default_workers"] = w
            return w
        if base is None and attr == "cf":
            return NS(_cf=True)
        return NotImplemented

    def call(self, cx, name, args, kwargs, node):
        ev = cx.ghost["events"]
        if name == "fn":
            ev.append(("direct", tuple(args), dict(kwargs)))
            return None
        if name == "get_thread_pool":
            cx.ghost["pool_size"] = args[0]
            return NS(_pool=True)
        if name == "pool.submit":
            ev.append(("submit", tuple(args), dict(kwargs)))
            return ("future", len(ev) - 1)
        if name == "__genexp__":
            n = args[0]
            g = n.generators[0]
            it = cx.ev(g.iter)
            if not (isinstance(it, tuple) and it and it[0] == "range" and len(it) == 2) or g.ifs:
                from vf.pyvc import Unsupported
                raise Unsupported("generator over something else than range(n)")
            r = cx.Int("rank!any")
            cx.assume(And(0 <= r, r < it[1]))
            saved = dict(cx.env)
            cx.assign(g.target, r)
            elt = cx.ev(n.elt)
            cx.env = saved
            return ("forall-ranks", r, it[1], elt)
        if name == "cf.wait":
            ev.append(("wait", args[0]))
            return None
        return NotImplemented

    def ensures(self, a, r, cx, case):
        ev = cx.ghost["events"]
        kinds = [e[0] for e in ev]
        T = a.num_threads if a.num_threads is not None else cx.ghost.get("default_workers")
        d = {}
        if kinds == ["direct"]:
            _, args, kw = ev[0]
            d["serial-only-when-small"] = a.size_total <= a.target_block_size
            d["direct-call-with-the-kernel-defaults"] = (args == tuple(a.args) and set(kw) == set(a.kwargs)
                                                         and all(kw[k] is a.kwargs[k] for k in kw))
        elif kinds == ["submit", "wait"]:
            _, sargs, skw = ev[0]
            w = ev[1][1]
            ok = isinstance(w, tuple) and w[0] == "forall-ranks" and w[3] == ("future", 0)
            d["all-submissions-waited-for"] = ok
            d["threaded-only-when-large"] = a.size_total > a.target_block_size
            if ok:
                _, rvar, hi, _ = w
                d["one-submission-per-rank-in-range(num_threads)"] = And(hi == T, z3.is_int(rvar)) if T is not None else False
                d["rank-is-the-loop-variable"] = skw.get("thread_rank") is rvar or (
                    is_z3(skw.get("thread_rank")) and skw.get("thread_rank").eq(rvar))
                d["same-num_threads-for-every-rank"] = self_same(skw.get("num_threads"), T)
                d["same-target_block_size"] = self_same(skw.get("target_block_size"), a.target_block_size)
                d["kernel-and-arguments-passed-on"] = (len(sargs) == 1 + len(a.args) and sargs[0] is a.fn
                                                       and all(x is y for x, y in zip(sargs[1:], a.args))
                                                       and all(skw.get(k) is v for k, v in a.kwargs.items()))
                d["pool-has-a-worker-per-rank"] = self_same(cx.ghost.get("pool_size"), T)
        else:
            d["exactly-one-dispatch"] = False
        return d


def self_same(a, b):
    if a is None or b is None:
        return a is None and b is None
    if is_z3(a) or is_z3(b):
        return a == b
    return a == b


def Opaque_(nm, cx):
    from vf.pyvc import Opaque
    return Opaque(cx.Val(nm))
