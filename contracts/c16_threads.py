"""C16 -- threaded kernels of quimb/core.py: partition arithmetic, per-rank frame, schedule independence.

Spec (DESIGN B.1).  For a problem of N rows, (nb, base, rem) = threading_choose_num_blocks(N, tbs, T):
   start(b) = b*base + min(b, rem),  stop(b) = start(b) + base + [b < rem]
   blocks 0..nb-1 tile [0, N);  rank r owns blocks b = r (mod T).
Every kernel run with rank r writes exactly the rows of its own blocks, and the value written to row k
is a function F(inputs, k) only (uninterpreted): the same term the (rank 0, T=1) call writes.
The kernels are proved for a *skolem* row k (arbitrary, hence for all rows).
"""

import z3

from vf.pyvc import (as_val, And, Arr, Contract, If, Implies, Loop, Max, Min, NS, Not, Or, V, I, R, Z, register, is_z3)
from vf import lemmas

CORE = "quimb/core.py"


def start_of(b, base, rem):
    return b * base + Min(b, rem)


def stop_of(b, base, rem):
    return start_of(b, base, rem) + base + If(b < rem, 1, 0)


@register
class ChooseNumBlocks(Contract):
    target = f"{CORE}::threading_choose_num_blocks"
    property_ids = ("C16",)
    floor = 10

    def inputs(self, cx, case):
        return dict(size_total=cx.Int("size_total"), target_block_size=cx.Int("tbs"), num_threads=cx.Int("T"))

    def requires(self, a, case):
        # the property quantifies over *all* sizes (incl. smaller than the thread count and zero),
        # thread counts and positive / negative block sizes
        return {"size>=0": a.size_total >= 0, "T>=1": a.num_threads >= 1, "tbs!=0": a.target_block_size != 0}

    def ensures(self, a, r, cx, case):
        nb, base, rem = r
        return {
            "nb>=1": nb >= 1,
            "partition": nb * base + rem == a.size_total,
            "rem-range": And(0 <= rem, rem < nb),
            "base>=0": base >= 0,
            "single": Implies(a.num_threads == 1, nb == 1),
        }

    def fresh_result(self, cx, a, case):
        return (cx.Int("nb"), cx.Int("base"), cx.Int("rem"))

    bounded = ("partition-exhaustive",)

    def replay(self, model):
        """concretise the solver's model and run the real (python text of the) function"""
        from quimb.core import threading_choose_num_blocks as f
        n, tbs, T = int(model.get("size_total", 0)), int(model.get("tbs", 1)), int(model.get("T", 1))
        call = f"threading_choose_num_blocks({n}, {tbs}, {T})"
        try:
            nb, base, rem = getattr(f, "py_func", f)(n, tbs, T)
        except ZeroDivisionError as e:
            return dict(call=call, observed=f"ZeroDivisionError: {e}", reproduced=True)
        ok = nb >= 1 and nb == int(nb) and nb * base + rem == n and 0 <= rem < nb and base >= 0
        return dict(call=call, observed=[float(nb), float(base), float(rem)], reproduced=not ok)


@register
class GetBlockRange(Contract):
    target = f"{CORE}::threading_get_block_range"
    property_ids = ("C16",)
    floor = 2

    def inputs(self, cx, case):
        return dict(b=cx.Int("b"), base_block_size=cx.Int("base"), block_remainder=cx.Int("rem"))

    def requires(self, a, case):
        return {"b>=0": a.b >= 0, "base>=0": a.base_block_size >= 0, "rem>=0": a.block_remainder >= 0}

    def ensures(self, a, r, cx, case):
        s, e = r
        return {
            "start": s == start_of(a.b, a.base_block_size, a.block_remainder),
            "stop": e == stop_of(a.b, a.base_block_size, a.block_remainder),
        }

    def fresh_result(self, cx, a, case):
        return (cx.Int("istart"), cx.Int("istop"))

    bounded = ("partition-exhaustive",)

    def replay(self, model):
        from quimb.core import threading_get_block_range as f
        b, base, rem = int(model.get("b", 0)), int(model.get("base", 0)), int(model.get("rem", 0))
        s, e = getattr(f, "py_func", f)(b, base, rem)
        exp = (b * base + min(b, rem), b * base + min(b, rem) + base + (1 if b < rem else 0))
        return dict(call=f"threading_get_block_range({b}, {base}, {rem})", observed=[int(s), int(e)], expected=list(exp),
                    reproduced=(int(s), int(e)) != exp)


# ---------------------------------------------------------------------------------------
# partition lemmas (pure arithmetic, used as assumptions inside the kernel proofs)
# ---------------------------------------------------------------------------------------


def _P(nb, base, rem, N):
    return And(nb >= 1, base >= 0, 0 <= rem, rem < nb, nb * base + rem == N)


@lemmas.lemma("C16", "partition-start0")
def lem_start0():
    nb, base, rem, N = z3.Ints("nb base rem N")
    return [_P(nb, base, rem, N)], start_of(0, base, rem) == 0


@lemmas.lemma("C16", "partition-contiguous")
def lem_contig():
    nb, base, rem, N, b = z3.Ints("nb base rem N b")
    return [_P(nb, base, rem, N), 0 <= b, b < nb - 1], stop_of(b, base, rem) == start_of(b + 1, base, rem)


@lemmas.lemma("C16", "partition-end")
def lem_end():
    nb, base, rem, N = z3.Ints("nb base rem N")
    return [_P(nb, base, rem, N)], stop_of(nb - 1, base, rem) == N


@lemmas.lemma("C16", "partition-nonneg-blocks")
def lem_nonneg():
    nb, base, rem, N, b = z3.Ints("nb base rem N b")
    return [_P(nb, base, rem, N), 0 <= b, b < nb], And(start_of(b, base, rem) <= stop_of(b, base, rem),
                                                        0 <= start_of(b, base, rem), stop_of(b, base, rem) <= N)


@lemmas.lemma("C16", "partition-monotone")
def lem_monotone():
    # blocks are ordered: b < b2  =>  stop(b) <= start(b2)     (hence disjoint)
    nb, base, rem, N, b, b2, d = z3.Ints("nb base rem N b b2 d")
    return [_P(nb, base, rem, N), 0 <= b, b < b2, b2 < nb, d == b2 - b - 1, d * base >= 0], \
        stop_of(b, base, rem) <= start_of(b2, base, rem)


@lemmas.lemma("C16", "partition-monotone-hint")
def lem_monotone_hint():
    d, base = z3.Ints("d base")
    return [d >= 0, base >= 0], d * base >= 0


@lemmas.lemma("C16", "partition-cover")
def lem_cover():
    # every row k in [0, N) lies in the block given by the closed form  => existence of blk(k)
    nb, base, rem, N, k, kb, q = z3.Ints("nb base rem N k kb q")
    big = rem * (base + 1)
    kbdef = If(k < big, k / (base + 1), rem + (k - big) / Max(base, 1))
    return [_P(nb, base, rem, N), 0 <= k, k < N, kb == kbdef], \
        And(0 <= kb, kb < nb, start_of(kb, base, rem) <= k, k < stop_of(kb, base, rem))


@lemmas.lemma("C16", "stride-unique-owner")
def lem_stride():
    # b = q*T + r = q2*T + r2 with 0 <= r, r2 < T   =>  q = q2 and r = r2   (each block has exactly one rank)
    T, q, r, q2, r2 = z3.Ints("T q r q2 r2")
    return [T >= 1, 0 <= r, r < T, 0 <= r2, r2 < T, q * T + r == q2 * T + r2], And(q == q2, r == r2)


@lemmas.lemma("C16", "stride-order")
def lem_stride_order():
    T, q, t = z3.Ints("T q t")
    return [T >= 1, q * T < t * T], q < t


@lemmas.lemma("C16", "stride-order2")
def lem_stride_order2():
    T, q, t = z3.Ints("T q t")
    return [T >= 1, q < t], q * T + T <= t * T


@lemmas.lemma("C16", "schedule-noninterference")
def lem_schedule():
    """two different ranks never touch the same row: rank r processes blocks r + t*T, rank r2 blocks r2 + t2*T;
    these are different blocks (stride-unique-owner), and different blocks have disjoint row ranges
    (partition-monotone).  With the kernel contracts (each rank writes only rows of its own blocks, the
    value written is F(inputs,row)) the T invocations commute: any interleaving gives out[k]=F(k) on [0,N)."""
    nb, base, rem, N, T, r, r2, t, t2, i, i2, b, b2 = z3.Ints("nb base rem N T r r2 t t2 i i2 b b2")
    hints = [  # instances of lemmas proved above
        Implies(b < b2, stop_of(b, base, rem) <= start_of(b2, base, rem)),
        Implies(b2 < b, stop_of(b2, base, rem) <= start_of(b, base, rem)),
        Implies(b == b2, And(t == t2, r == r2)),
    ]
    return [_P(nb, base, rem, N), T >= 1, 0 <= r, r < T, 0 <= r2, r2 < T, r != r2, t >= 0, t2 >= 0,
            b == r + t * T, b2 == r2 + t2 * T, b < nb, b2 < nb,
            start_of(b, base, rem) <= i, i < stop_of(b, base, rem),
            start_of(b2, base, rem) <= i2, i2 < stop_of(b2, base, rem)] + hints, i != i2


# ---------------------------------------------------------------------------------------
# kernels
# ---------------------------------------------------------------------------------------


class Kernel(Contract):
    """common part: `for b in range(thread_rank, num_blocks, num_threads)` / `for i in range(istart, istop)`"""

    property_ids = ("C16",)
    floor = 12
    rows_expr = "N"  # name of the local holding the partitioned extent
    out_name = "out"
    ndim_out = 1

    # --- ghost: skolem row k (and column kc for 2-d), its block kb = kq*T + kr
    def ghosts(self, cx):
        g = cx.ghost
        if "k" not in g:
            g["k"] = z3.Int("k!row")
            g["kc"] = z3.Int("k!col")
            g["kq"] = z3.Int("k!q")
            g["kr"] = z3.Int("k!r")
        return NS(g)

    def call(self, cx, name, args, kwargs, node):
        if name == "threading_choose_num_blocks":
            res = REG(f"{CORE}::threading_choose_num_blocks").apply(
                cx, NS(size_total=args[0], target_block_size=args[1], num_threads=args[2]), node)
            nb, base, rem = res
            g = self.ghosts(cx)
            N = args[0]
            T = args[2]
            # the extent that is partitioned must be the number of rows of the output (taken from the
            # contract, not from the code), and the thread parameters must be passed through unchanged
            out_rows = cx.old[self.out_name].shape[0]
            cx.oblige(f"partition-extent@{node.lineno}", "call-arg", N == out_rows, node.lineno)
            cx.oblige(f"partition-threads@{node.lineno}", "call-arg",
                      And(T == cx.old.num_threads, args[1] == cx.old.target_block_size), node.lineno)
            cx.ghost.update(nb=nb, base=base, rem=rem, N=N, T=T, rank=cx.env["thread_rank"])
            kb = g.kq * T + g.kr
            cx.ghost["kb"] = kb
            # instances of the partition lemmas (each proved as its own lemma obligation):
            #   cover: k in [0,N) lies in some block kb in [0,nb);   kb = kq*T + kr, 0 <= kr < T
            cx.assume(And(0 <= g.kr, g.kr < T, g.kq >= 0))
            cx.assume(Implies(And(0 <= g.k, g.k < N),
                              And(0 <= kb, kb < nb, start_of(kb, base, rem) <= g.k, g.k < stop_of(kb, base, rem))))
            return res
        if name == "threading_get_block_range":
            res = REG(f"{CORE}::threading_get_block_range").apply(
                cx, NS(b=args[0], base_block_size=args[1], block_remainder=args[2]), node)
            g = NS(cx.ghost)
            b = args[0]
            # lemma instances for this b:  blocks are disjoint and ordered; block inside [0,N)
            lo, hi = start_of(b, g.base, g.rem), stop_of(b, g.base, g.rem)
            cx.assume(Implies(And(0 <= b, b < g.nb), And(0 <= lo, lo <= hi, hi <= g.N)))
            cx.assume(Implies(And(0 <= b, b < g.nb, 0 <= g.k, g.k < g.N),
                              (g.kb == b) == And(lo <= g.k, g.k < hi)))
            # owner uniqueness / order for b = rank + t*T   (stride lemmas)
            t = cx.env.get("_it0")
            if t is not None:
                cx.assume(And((g.kb == b) == And(g.kq == t, g.kr == g.rank)))
            return res
        return NotImplemented

    def written_before(self, v):
        """row k belongs to a block of this rank that was completed before outer iteration _it0"""
        g = NS(v.cx.ghost)
        return And(0 <= g.k, g.k < g.N, g.kr == g.rank, g.kq < v._it0)

    def F(self, v, g):
        raise NotImplementedError

    def cur(self, v):
        g = NS(v.cx.ghost)
        o = v[self.out_name]
        return o.get([g.k] if self.ndim_out == 1 else [g.k, g.kc])

    def old_out(self, v):
        g = NS(v.cx.ghost)
        o = v.old[self.out_name]
        return o.get([g.k] if self.ndim_out == 1 else [g.k, g.kc])

    def col_ok(self, v):
        return True

    def outer_inv(self, v):
        g = NS(v.cx.ghost)
        return {"frame+value": self.cur(v) == If(And(self.written_before(v), self.col_ok(v)), self.F(v, g),
                                                 self.old_out(v))}

    def inner_inv(self, v):
        g = NS(v.cx.ghost)
        w = Or(self.written_before(v), And(v.istart <= g.k, g.k < v.i))
        return {"frame+value": self.cur(v) == If(And(w, self.col_ok(v)), self.F(v, g), self.old_out(v)),
                "i-range": And(v.istart <= v.i, v.i <= v.istop)}

    def on_store(self, cx, target, base, idx, val):
        # frame: every store goes to a row of the block currently being processed (which is one of this
        # rank's blocks by construction of the outer range)
        if isinstance(target.value, ast_Name) and target.value.id == self.out_name:
            g = NS(cx.ghost)
            b = cx.env["b"]
            cx.oblige(f"frame@{target.lineno}:row-in-own-block", "frame",
                      And(start_of(b, g.base, g.rem) <= idx[0], idx[0] < stop_of(b, g.base, g.rem),
                          0 <= b, b < g.nb), target.lineno)
        else:
            cx.oblige(f"frame@{target.lineno}:store-to-non-output", "frame", False, target.lineno)

    def kernel_requires(self, a):
        return {"rank": And(0 <= a.thread_rank, a.thread_rank < a.num_threads), "T>=1": a.num_threads >= 1,
                "tbs!=0": a.target_block_size != 0}

    def post(self, cx):
        g = NS(cx.ghost)
        v = cx.ns()
        own = And(0 <= g.k, g.k < g.N, g.kr == g.rank)
        return {"frame+value": self.cur(v) == If(And(own, self.col_ok(v)), self.F(v, g), self.old_out(v))}

    def ensures(self, a, r, cx, case):
        d = self.post(cx)
        # when T = 1 (the serial form) every row is owned: out[k] = F(k) on [0,N)
        g = NS(cx.ghost)
        v = cx.ns()
        d["serial-form"] = Implies(And(a.num_threads == 1, 0 <= g.k, g.k < g.N, self.col_ok(v)),
                                   self.cur(v) == self.F(v, g))
        return d


import ast as _ast

ast_Name = _ast.Name


def REG(t):
    from vf.pyvc import REGISTRY
    return REGISTRY[t]


OUTER = "for b in range(thread_rank, num_blocks, num_threads)"
INNER = "for i in range(istart, istop)"


def vec(cx, name, n):
    return Arr(cx.Array(name, z3.IntSort(), V), (n,))


def mat(cx, name, n, m):
    return Arr(cx.Array(name, z3.IntSort(), z3.IntSort(), V), (n, m))


def tparams(cx):
    return dict(thread_rank=cx.Int("rank"), num_threads=cx.Int("T"), target_block_size=cx.Int("tbs"))


@register
class ComplexArray(Kernel):
    target = f"{CORE}::_complex_array_numba"

    def inputs(self, cx, case):
        n = cx.Int("n")
        return dict(x=vec(cx, "x", n), y=vec(cx, "y", n), out=vec(cx, "out", n), **tparams(cx))

    def requires(self, a, case):
        return {"n>=0": a.x.shape[0] >= 0, **self.kernel_requires(a)}

    def F(self, v, g):
        return v.cx.uf("complex", [v.old.x.get([g.k]), v.old.y.get([g.k])])

    @property
    def loops(self):
        return {0: Loop(OUTER, self.outer_inv), 1: Loop(INNER, self.inner_inv)}


@register
class PhaseToComplex(Kernel):
    target = f"{CORE}::_phase_to_complex_numba"

    def inputs(self, cx, case):
        n = cx.Int("n")
        return dict(x=vec(cx, "x", n), out=vec(cx, "out", n), **tparams(cx))

    def requires(self, a, case):
        return {"n>=0": a.x.shape[0] >= 0, **self.kernel_requires(a)}

    def call(self, cx, name, args, kwargs, node):
        if name in ("np.cos", "np.sin"):
            return cx.uf(name.replace(".", "_"), args)
        return super().call(cx, name, args, kwargs, node)

    def F(self, v, g):
        xk = v.old.x.get([g.k])
        return v.cx.uf("complex", [v.cx.uf("np_cos", [xk]), v.cx.uf("np_sin", [xk])])

    @property
    def loops(self):
        return {0: Loop(OUTER, self.outer_inv), 1: Loop(INNER, self.inner_inv)}


class Update1D(Kernel):
    out_name = "X"

    def requires(self, a, case):
        return {"n>=0": a.X.shape[0] >= 0, **self.kernel_requires(a)}

    @property
    def loops(self):
        return {0: Loop(OUTER, self.outer_inv), 1: Loop(INNER, self.inner_inv)}


@register
class SubtractUpdate1D(Update1D):
    target = f"{CORE}::_subtract_update_1d_numba"

    def inputs(self, cx, case):
        n = cx.Int("n")
        return dict(X=vec(cx, "X", n), c=cx.Val("c"), Y=vec(cx, "Y", n), **tparams(cx))

    def F(self, v, g):
        return v.cx.uf("vSub", [v.old.X.get([g.k]), v.cx.uf("vMult", [v.old.c, v.old.Y.get([g.k])])])


@register
class DivideUpdate1D(Update1D):
    target = f"{CORE}::_divide_update_1d_numba"
    out_name = "out"
    safety_div = False

    def inputs(self, cx, case):
        n = cx.Int("n")
        return dict(X=vec(cx, "X", n), c=cx.Val("c"), out=vec(cx, "out", n), **tparams(cx))

    def F(self, v, g):
        return v.cx.uf("vDiv", [v.old.X.get([g.k]), v.old.c])


class Kernel2D(Kernel):
    ndim_out = 2
    ncols = "M"

    def col_ok(self, v):
        g = NS(v.cx.ghost)
        return And(0 <= g.kc, g.kc < v[self.ncols])

    def j_inv(self, v):
        g = NS(v.cx.ghost)
        w = Or(self.written_before(v), And(v.istart <= g.k, g.k < v.i), And(g.k == v.i, g.kc < v.j))
        return {"frame+value": self.cur(v) == If(And(w, self.col_ok(v)), self.F(v, g), self.old_out(v)),
                "j-range": And(0 <= v.j)}

    def inner_inv(self, v):
        d = super().inner_inv(v)
        return d

    @property
    def loops(self):
        return {0: Loop(OUTER, self.outer_inv), 1: Loop(INNER, self.inner_inv),
                2: Loop("for j in range(M)", self.j_inv)}


@register
class SubtractUpdate2D(Kernel2D):
    target = f"{CORE}::_subtract_update_2d_numba"
    out_name = "X"

    def inputs(self, cx, case):
        n, m = cx.Int("n"), cx.Int("m")
        return dict(X=mat(cx, "X", n, m), c=cx.Val("c"), Y=mat(cx, "Y", n, m), **tparams(cx))

    def requires(self, a, case):
        return {"n>=0": a.X.shape[0] >= 0, "m>=0": a.X.shape[1] >= 0, **self.kernel_requires(a)}

    def F(self, v, g):
        return v.cx.uf("vSub", [v.old.X.get([g.k, g.kc]), v.cx.uf("vMult", [v.old.c, v.old.Y.get([g.k, g.kc])])])


@register
class DivideUpdate2D(Kernel2D):
    target = f"{CORE}::_divide_update_2d_numba"

    def inputs(self, cx, case):
        n, m = cx.Int("n"), cx.Int("m")
        return dict(X=mat(cx, "X", n, m), c=cx.Val("c"), out=mat(cx, "out", n, m), **tparams(cx))

    def requires(self, a, case):
        return {"n>=0": a.X.shape[0] >= 0, "m>=0": a.X.shape[1] >= 0, **self.kernel_requires(a)}

    def F(self, v, g):
        return v.cx.uf("vDiv", [v.old.X.get([g.k, g.kc]), v.old.c])


@register
class LDiagDotDense(Kernel2D):
    target = f"{CORE}::_l_diag_dot_dense_par"

    def inputs(self, cx, case):
        n, m = cx.Int("n"), cx.Int("m")
        return dict(l=vec(cx, "l", n), A=mat(cx, "A", n, m), out=mat(cx, "out", n, m), **tparams(cx))

    def requires(self, a, case):
        return {"n>=0": a.A.shape[0] >= 0, "m>=0": a.A.shape[1] >= 0, **self.kernel_requires(a)}

    def F(self, v, g):
        return v.cx.uf("vMult", [v.old.l.get([g.k]), v.old.A.get([g.k, g.kc])])


@register
class RDiagDotDense(Kernel2D):
    target = f"{CORE}::_r_diag_dot_dense_par"

    def inputs(self, cx, case):
        n, m = cx.Int("n"), cx.Int("m")
        return dict(A=mat(cx, "A", n, m), l=vec(cx, "l", m), out=mat(cx, "out", n, m), **tparams(cx))

    def requires(self, a, case):
        return {"n>=0": a.A.shape[0] >= 0, "m>=0": a.A.shape[1] >= 0, **self.kernel_requires(a)}

    def F(self, v, g):
        return v.cx.uf("vMult", [v.old.A.get([g.k, g.kc]), v.old.l.get([g.kc])])


@register
class OuterPar(Kernel2D):
    target = f"{CORE}::_outer_par"
    ncols = "n"

    def inputs(self, cx, case):
        m, n = cx.Int("m"), cx.Int("n")
        return dict(x=vec(cx, "x", m), y=vec(cx, "y", n), out=mat(cx, "out", m, n), m=m, n=n, **tparams(cx))

    def requires(self, a, case):
        return {"m>=0": a.m >= 0, "n>=0": a.n >= 0, **self.kernel_requires(a)}

    def F(self, v, g):
        return v.cx.uf("vMult", [v.old.x.get([g.k]), v.old.y.get([g.kc])])

    @property
    def loops(self):
        return {0: Loop(OUTER, self.outer_inv), 1: Loop(INNER, self.inner_inv),
                2: Loop("for j in range(n)", self.j_inv)}


@register
class DotCsrMatvec(Kernel):
    """CSR matrix of n rows (= out.size, indptr has n+1 entries) and m columns (= vec.size)"""

    target = f"{CORE}::_dot_csr_matvec_numba"

    def inputs(self, cx, case):
        n, m, nnz = cx.Int("n"), cx.Int("m"), cx.Int("nnz")  # n rows, m columns
        return dict(
            data=vec(cx, "data", nnz),
            indptr=Arr(cx.Array("indptr", z3.IntSort(), z3.IntSort()), (n + 1,)),
            indices=Arr(cx.Array("indices", z3.IntSort(), z3.IntSort()), (nnz,)),
            vec=vec(cx, "vec", m), out=vec(cx, "out", n), **tparams(cx))

    def requires(self, a, case):
        n, m = a.out.shape[0], a.vec.shape[0]
        nnz = a.data.shape[0]
        return {"n>=0": n >= 0, "m>=0": m >= 0, "nnz>=0": nnz >= 0, **self.kernel_requires(a)}

    # valid CSR structure (scipy invariant: indptr monotone within [0,nnz], column indices in range), given as
    # instances at the entries the kernel reads (quantifier-free, so failed obligations come with models)
    def on_read(self, cx, node, base, idx):
        o = cx.old
        n, m, nnz = o.out.shape[0], o.vec.shape[0], o.data.shape[0]
        if base.a.eq(o.indptr.a):
            i = idx[0]
            for ii in (i, i - 1):
                cx.assume(Implies(And(0 <= ii, ii < n),
                                  And(0 <= z3.Select(base.a, ii), z3.Select(base.a, ii) <= z3.Select(base.a, ii + 1),
                                      z3.Select(base.a, ii + 1) <= nnz)))
        elif base.a.eq(o.indices.a):
            j = idx[0]
            cx.assume(Implies(And(0 <= j, j < nnz), And(0 <= z3.Select(base.a, j), z3.Select(base.a, j) < m)))

    def fold_facts(self, v):
        # definition of the spec function rowsum (recursive fold over the stored entries of a row)
        o = v.old
        term = z3.Function("vMult", V, V, V)(z3.Select(o.data.a, v.j),
                                             z3.Select(o.vec.a, z3.Select(o.indices.a, v.j)))
        return [self.rowsum(None, v.i, z3.Select(o.indptr.a, v.i)) == as_val(0.0),
                self.rowsum(None, v.i, v.j + 1) == z3.Function("vAdd", V, V, V)(self.rowsum(None, v.i, v.j), term)]

    # row sum as a recursively specified fold:  rowsum(i, j) = partial sum of row i over entries [indptr[i], j)
    def rowsum(self, cx, i, j):
        f = z3.Function("rowsum", z3.IntSort(), z3.IntSort(), V)
        return f(i, j)

    def F(self, v, g):
        return self.rowsum(v.cx, g.k, z3.Select(v.old.indptr.a, g.k + 1))

    def jj_inv(self, v):
        g = NS(v.cx.ghost)
        w = Or(self.written_before(v), And(v.istart <= g.k, g.k < v.i))
        return {"frame+value": self.cur(v) == If(w, self.F(v, g), self.old_out(v)),
                "fold": as_val(v.isum) == self.rowsum(v.cx, v.i, v.j),
                "j-range": And(z3.Select(v.old.indptr.a, v.i) <= v.j, v.j <= z3.Select(v.old.indptr.a, v.i + 1))}

    def call(self, cx, name, args, kwargs, node):
        return super().call(cx, name, args, kwargs, node)

    @property
    def loops(self):
        return {0: Loop(OUTER, self.outer_inv), 1: Loop(INNER, self.inner_inv),
                2: Loop("for j in range(indptr[i], indptr[i + 1])", self.jj_inv,
                        retype={"isum": lambda cx: cx.Val("isum")}, facts=self.fold_facts)}


@register
class KronDense(Kernel2D):
    """out[i, j] = x[i div p, j div q] * y[i mod p, j mod q]  for rows i of this rank's blocks"""

    target = f"{CORE}::_kron_dense_numba"
    ncols = "ncols_ghost"

    def inputs(self, cx, case):
        m, n, p, q = cx.Int("m"), cx.Int("n"), cx.Int("p"), cx.Int("q")
        return dict(x=mat(cx, "x", m, n), y=mat(cx, "y", p, q), out=mat(cx, "out", m * p, n * q), m=m, n=n, p=p, q=q,
                    **tparams(cx))

    def requires(self, a, case):
        return {"m>=0": a.m >= 0, "n>=0": a.n >= 0, "p>=1": a.p >= 1, "q>=1": a.q >= 1, **self.kernel_requires(a)}

    def col_ok(self, v):
        g = NS(v.cx.ghost)
        return And(0 <= g.kc, g.kc < v.old.n * v.old.q)

    def F(self, v, g):
        o = v.old
        # ghost quotient / remainder of the skolem row and column (defined by the assumptions in `facts`)
        return v.cx.uf("vMult", [o.x.get([g.ka, g.kca]), o.y.get([g.kb2, g.kcb])])

    def ghosts(self, cx):
        g = super().ghosts(cx)
        if "ka" not in cx.ghost:
            cx.ghost.update(ka=z3.Int("k!ia"), kb2=z3.Int("k!ib"), kca=z3.Int("k!ja"), kcb=z3.Int("k!jb"))
            o = cx.old
            gg = NS(cx.ghost)
            # definition of the ghost digits: k = p*ka + kb2 (0 <= kb2 < p), kc = q*kca + kcb (0 <= kcb < q)
            cx.assume(And(gg.k == o.p * gg.ka + gg.kb2, 0 <= gg.kb2, gg.kb2 < o.p,
                          gg.kc == o.q * gg.kca + gg.kcb, 0 <= gg.kcb, gg.kcb < o.q))
        return NS(cx.ghost)

    def call(self, cx, name, args, kwargs, node):
        if name == "divmod":
            # ia, ib = divmod(i, p): with p >= 1 python's divmod is the euclidean one; introduce the digits
            i, p = args
            cx.oblige(f"divzero@{node.lineno}", "safety", p != 0, node.lineno)
            ia, ib = cx.Int("ia"), cx.Int("ib")
            cx.assume(And(i == p * ia + ib, 0 <= ib, ib < p))
            g = NS(cx.ghost)
            # uniqueness of digits (instance of lemma digits-unique): same number, same digits
            cx.assume(Implies(i == g.k, And(ia == g.ka, ib == g.kb2)))
            cx.assume(Implies(And(i >= 0), ia >= 0))
            cx.assume(Implies(And(i < cx.old.m * p), ia < cx.old.m))
            return (ia, ib)
        return super().call(cx, name, args, kwargs, node)

    def ja_inv(self, v):
        g = NS(v.cx.ghost)
        o = v.old
        w = Or(self.written_before(v), And(v.istart <= g.k, g.k < v.i), And(g.k == v.i, g.kca < v.ja))
        return {"frame+value": self.cur(v) == If(And(w, self.col_ok(v)), self.F(v, g), self.old_out(v)),
                "ja>=0": v.ja >= 0}

    def jb_inv(self, v):
        g = NS(v.cx.ghost)
        w = Or(self.written_before(v), And(v.istart <= g.k, g.k < v.i),
               And(g.k == v.i, Or(g.kca < v.ja, And(g.kca == v.ja, g.kcb < v.jb))))
        return {"frame+value": self.cur(v) == If(And(w, self.col_ok(v)), self.F(v, g), self.old_out(v)),
                "jb>=0": v.jb >= 0}

    def inner_inv(self, v):
        g = NS(v.cx.ghost)
        w = Or(self.written_before(v), And(v.istart <= g.k, g.k < v.i))
        return {"frame+value": self.cur(v) == If(And(w, self.col_ok(v)), self.F(v, g), self.old_out(v)),
                "i-range": And(v.istart <= v.i, v.i <= v.istop)}

    @property
    def loops(self):
        return {0: Loop(OUTER, self.outer_inv), 1: Loop(INNER, self.inner_inv),
                2: Loop("for ja in range(n)", self.ja_inv), 3: Loop("for jb in range(q)", self.jb_inv)}


@lemmas.lemma("C16", "digits-unique")
def lem_digits():
    p, a, b, a2, b2 = z3.Ints("p a b a2 b2")
    return [p >= 1, 0 <= b, b < p, 0 <= b2, b2 < p, p * a + b == p * a2 + b2], And(a == a2, b == b2)


@lemmas.lemma("C16", "digits-range")
def lem_digits_range():
    p, a, b, m = z3.Ints("p a b m")
    return [p >= 1, 0 <= b, b < p, 0 <= p * a + b, p * a + b < m * p], And(0 <= a, a < m)
