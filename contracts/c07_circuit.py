"""C07 -- circuit simulators.

Provider 1 (E2, ``provider_gates``):  every registered gate is unitary for all real parameter values and equals its
textbook definition.  The REAL builder functions of quimb/tensor/circuit/gates.py (loaded from the source text of the
repository under verification) are executed on sympy real symbols through autoray (backend 'sympy'; the functions the
builders reach through ``do(...)`` that sympy lacks -- complex, stack, array, tensordot, transpose, einsum, reshape --
are registered here).  The resulting entries are trigonometric polynomials.  They are decided exactly:

   * every parameter p_k that occurs under cos / sin gets the pair (c_k, s_k) = (cos(p_k/D_k), sin(p_k/D_k)),
     every parameter that only occurs as a pure phase exp(i q p_k) gets z_k = exp(i p_k/D_k) (conjugate = 1/z_k);
   * U^dagger U - I (resp. U - U_textbook) becomes a polynomial in (c, s, z) over Q(i)[sqrt 2], which is reduced
     modulo the Groebner basis {s_k^2 + c_k^2 - 1} (disjoint variables, so the normal form is unique);
   * normal form 0  <=>  identity for all real parameters (the real points of a product of circles / the unit
     circle are Zariski dense), so this is a decision procedure and not a heuristic simplification.
   A non-zero normal form is only reported 'failed' together with a concrete numeric parameter point at which the
   real builder (run on numpy floats) violates the identity by more than 1e-9; otherwise 'unknown'.

Provider 2 (E4, ``provider_cache``): typestate of the query cache, by reflection over the AST of every class of
quimb/tensor/circuit/*.py that derives from the class defining the validator.  See the section header below.

Provider 3 is not implemented: ``get_reverse_lightcone_tags`` closure and ``CircuitPermMPS._apply_gate`` permutation
bookkeeping are left to the bounded drivers (drivers/c07.py).
"""

from __future__ import annotations

import ast
import importlib
import importlib.util
import math
import os
import signal
import sys
import threading
import time
from fractions import Fraction

try:
    from vf.framework import ObResult
except Exception:  # pragma: no cover - standalone use
    class ObResult:  # minimal stand-in with the same fields
        def __init__(self, id, kind, status, backend, solver_s, function=None, model=None, line=None, detail=None,
                     engine="E1"):
            self.__dict__.update(locals())

CIRC = "quimb/tensor/circuit"
GATES = f"{CIRC}/gates.py"
PER_GATE_BUDGET_S = 30.0


def repo_root():
    return os.environ.get("VERIF_REPO", "/repo")


def _parse(text):
    import warnings
    with warnings.catch_warnings():
        warnings.simplefilter("ignore")   # invalid escape sequences in docstrings of the code under analysis
        return ast.parse(text)


class _Timeout(Exception):
    pass


class _budget:
    """wall-clock budget for one obligation (SIGALRM; only in the main thread, otherwise no limit)"""

    def __init__(self, seconds):
        self.s = seconds
        self.active = threading.current_thread() is threading.main_thread() and hasattr(signal, "setitimer")

    def __enter__(self):
        if self.active:
            def h(signum, frame):
                raise _Timeout()
            self.old = signal.signal(signal.SIGALRM, h)
            signal.setitimer(signal.ITIMER_REAL, self.s)
        return self

    def __exit__(self, *exc):
        if self.active:
            signal.setitimer(signal.ITIMER_REAL, 0)
            signal.signal(signal.SIGALRM, self.old)
        return False


# =====================================================================================================================
#  Provider 1 -- E2: the real gate builders on sympy symbols
# =====================================================================================================================

_SYMPY_READY = {}


def _sympy_backend():
    """register what the builders call through autoray and sympy does not provide; returns (sp, SArr)"""
    if _SYMPY_READY:
        return _SYMPY_READY["sp"], _SYMPY_READY["SArr"]
    import autoray as ar
    import numpy as np
    import sympy as sp
    from sympy.tensor.array import ImmutableDenseNDimArray

    class SArr(ImmutableDenseNDimArray):
        """sympy n-d array with the one numpy attribute su4_gate_param_gen asks for"""
        dtype = "complex128"

    ar.register_backend(SArr, "sympy")

    def tolist(x):
        return x.tolist() if isinstance(x, sp.NDimArray) else x

    def tonp(a):
        return np.array(tolist(a), dtype=object).reshape(getattr(a, "shape", ()))

    def exact_number(v):
        v = complex(v)
        re, im = Fraction(v.real), Fraction(v.imag)  # doubles are dyadic rationals: exact
        return sp.Rational(re.numerator, re.denominator) + sp.I * sp.Rational(im.numerator, im.denominator)

    def array(x, dtype=None, like=None, **kw):
        if isinstance(x, np.ndarray):
            return SArr(np.vectorize(exact_number, otypes=[object])(np.asarray(x)).tolist())
        return SArr(tolist(x))

    ar.register_function("sympy", "complex", lambda re, im: re + sp.I * im)
    ar.register_function("sympy", "stack", lambda xs, axis=0: SArr([tolist(x) for x in xs]))
    ar.register_function("sympy", "array", array)
    ar.register_function("sympy", "asarray", array)
    ar.register_function("sympy", "tensordot", lambda a, b, axes=2: SArr(np.tensordot(tonp(a), tonp(b), axes).tolist()))
    ar.register_function("sympy", "transpose", lambda a, axes=None: SArr(np.transpose(tonp(a), axes).tolist()))
    ar.register_function("sympy", "einsum", lambda eq, *xs, **kw: SArr(np.einsum(eq, *map(tonp, xs)).tolist()))
    ar.register_function("sympy", "reshape", lambda a, shape: SArr(tonp(a).reshape(shape).tolist()))
    _SYMPY_READY.update(sp=sp, SArr=SArr)
    return sp, SArr


def load_gates_module(root=None):
    """execute the text of <root>/quimb/tensor/circuit/gates.py as a fresh module inside the installed package
    (relative imports resolve against the importable quimb), so that a scratch copy of the one file can be checked"""
    root = root or repo_root()
    path = os.path.join(root, GATES)
    importlib.import_module("quimb.tensor.circuit")
    name = "quimb.tensor.circuit._verif_c07_gates"
    spec = importlib.util.spec_from_file_location(name, path)
    mod = importlib.util.module_from_spec(spec)
    sys.modules[name] = mod
    try:
        spec.loader.exec_module(mod)
    finally:
        sys.modules.pop(name, None)
    return mod


def _n_params(fn, src_tree):
    """number of parameters a builder reads: largest constant index / slice bound on its ``params`` argument,
    following calls to other builders that are handed ``params`` itself (cu3 -> u3)"""
    defs = {n.name: n for n in ast.walk(src_tree) if isinstance(n, ast.FunctionDef)}

    def scan(name, seen):
        node = defs.get(name)
        if node is None or name in seen or not node.args.args:
            return 0
        seen.add(name)
        p = node.args.args[0].arg
        n = 0
        for x in ast.walk(node):
            if isinstance(x, ast.Subscript) and isinstance(x.value, ast.Name) and x.value.id == p:
                s = x.slice
                if isinstance(s, ast.Constant) and isinstance(s.value, int):
                    n = max(n, s.value + 1)
                elif isinstance(s, ast.Slice) and isinstance(s.upper, ast.Constant):
                    n = max(n, s.upper.value)
            if isinstance(x, ast.Call) and isinstance(x.func, ast.Name) and x.func.id in defs and x.args \
                    and isinstance(x.args[0], ast.Name) and x.args[0].id == p:
                n = max(n, scan(x.func.id, seen))
        return n

    return scan(fn.__name__, set())


# closed forms that float literals / constant arrays are allowed to stand for (checked to 1 ulp, listed in evidence)
def _closed_form_candidates(sp):
    out = []
    for r in (sp.Integer(1), sp.sqrt(2), sp.sqrt(3)):
        for q in (1, 2, 4, 8):
            for p in range(-8, 9):
                out.append(sp.Rational(p, q) * r)
    return out


_CANDS = {}


def _recognise(v, sp):
    """closed form within 1 ulp of the double v: ('exact'|'closed-form'|None, value)"""
    fr = Fraction(float(v))
    if fr.denominator <= 2 ** 20:  # small dyadic rational: the double IS this number
        return "exact", sp.Rational(fr.numerator, fr.denominator)
    if "c" not in _CANDS:
        _CANDS["c"] = [(float(c), c) for c in _closed_form_candidates(sp)]
    ulp = math.ulp(float(v))
    best = None
    for f, c in _CANDS["c"]:
        if abs(f - float(v)) <= ulp and (best is None or abs(f - float(v)) < best[0]):
            best = (abs(f - float(v)), c)
    if best is not None:
        return "closed-form", best[1]
    return None, sp.Rational(fr.numerator, fr.denominator)


def _defloat(expr, sp, log):
    """float literals of the source: small dyadic rationals are exact; roundings of closed forms (2**0.5) are
    replaced by the closed form (within 1 ulp) and the substitution is logged; anything else keeps the exact value
    of the double"""
    rep = {}
    for f in expr.atoms(sp.Float):
        how, c = _recognise(float(f), sp)
        rep[f] = c
        if how == "closed-form":
            log.add(f"{float(f)!r} -> {c}")
        elif how is None:
            log.add(f"{float(f)!r} kept as the exact rational value of the double")
    return expr.xreplace(rep) if rep else expr


class TrigRing:
    """Q(i)[sqrt2][c_k, s_k, z_k] / (s_k^2 + c_k^2 - 1): exact decision of trigonometric polynomial identities"""

    def __init__(self, sp, params):
        self.sp = sp
        self.params = list(params)
        self.kind = {}      # param -> 'trig' | 'phase'
        self.den = {}       # param -> D_k
        self.exprs = []
        self.gens = None

    # ---- pass 1: collect how every parameter occurs
    def _linear(self, arg):
        sp = self.sp
        lin = sp.expand(arg)
        cs = [lin.coeff(p) for p in self.params]
        rest = sp.expand(lin - sum(c * p for c, p in zip(cs, self.params)))
        if rest != 0 or not all(c.is_Rational for c in cs):
            raise ValueError(f"argument not a rational linear form in the parameters: {arg}")
        return cs

    def scan(self, expr):
        sp = self.sp
        for a in expr.atoms(sp.cos, sp.sin):
            for c, p in zip(self._linear(a.args[0]), self.params):
                if c != 0:
                    self.kind[p] = "trig"
                    self.den[p] = math.lcm(self.den.get(p, 1), int(c.q))
        for a in expr.atoms(sp.exp):
            for c, p in zip(self._linear(a.args[0] / sp.I), self.params):
                if c != 0:
                    self.kind.setdefault(p, "phase")
                    self.den[p] = math.lcm(self.den.get(p, 1), int(c.q))

    def freeze(self):
        sp = self.sp
        self.c = {p: sp.Symbol(f"c_{p}", real=True) for p in self.params if self.kind.get(p) == "trig"}
        self.s = {p: sp.Symbol(f"s_{p}", real=True) for p in self.params if self.kind.get(p) == "trig"}
        self.z = {p: sp.Symbol(f"z_{p}") for p in self.params if self.kind.get(p) == "phase"}
        self.r2 = sp.Symbol("r2")  # sqrt(2)
        # lex order: s before c so that the leading monomial of s^2 + c^2 - 1 is s^2
        self.gens = list(self.s.values()) + list(self.c.values()) + list(self.z.values()) + [self.r2]
        self.angle = {p: sp.Symbol(f"a_{p}", real=True) for p in self.c}

    # ---- pass 2: expression -> Laurent polynomial expression in the generators
    def lower(self, expr):
        sp = self.sp

        def conv_exp(e):
            cs = self._linear(e.args[0] / sp.I)
            out, trig = sp.Integer(1), sp.Integer(0)
            for c, p in zip(cs, self.params):
                if c == 0:
                    continue
                if self.kind[p] == "phase":
                    out *= self.z[p] ** int(c * self.den[p])
                else:
                    trig += c * p
            if trig != 0:
                out *= sp.cos(trig) + sp.I * sp.sin(trig)
            return out

        expr = expr.replace(lambda e: isinstance(e, sp.exp), conv_exp)
        # p_k = D_k a_k, expand multiple angles / sums down to cos(a_k), sin(a_k)
        expr = expr.xreplace({p: self.den[p] * self.angle[p] for p in self.c})
        expr = sp.expand_trig(expr)
        rep = {}
        for p, a in self.angle.items():
            rep[sp.cos(a)] = self.c[p]
            rep[sp.sin(a)] = self.s[p]
        expr = expr.xreplace(rep)
        expr = expr.xreplace({sp.sqrt(2): self.r2})
        expr = sp.expand(expr)
        bad = expr.free_symbols - set(self.gens)
        if bad or expr.atoms(sp.Function):
            raise ValueError(f"entry is not a trigonometric polynomial in the parameters (left over: {bad or expr.atoms(sp.Function)})")
        return expr

    def min_exponents(self, exprs):
        sp = self.sp
        m = {z: 0 for z in self.z.values()}
        m[self.r2] = 0
        for e in exprs:
            for t in sp.Add.make_args(e):
                pd = t.as_powers_dict()
                for z in m:
                    k = pd.get(z, 0)
                    m[z] = min(m[z], int(k))
        return m

    def poly(self, expr, shift):
        sp = self.sp
        from sympy.polys.domains import QQ_I
        mul = sp.Mul(*[z ** (-k) for z, k in shift.items()])
        return sp.Poly(sp.expand(expr * mul), *self.gens, domain=QQ_I)

    def const(self, expr):
        from sympy.polys.domains import QQ_I
        return self.sp.Poly(expr, *self.gens, domain=QQ_I)

    def normal_form(self, poly):
        """reduce modulo s_k^2 -> 1 - c_k^2 and r2^2 -> 2"""
        sp = self.sp
        gens = self.gens
        for p in self.s:
            si, ci = gens.index(self.s[p]), gens.index(self.c[p])
            poly = self._reduce_square(poly, si, lambda q: (1 - self.c[p] ** 2) ** q)
        poly = self._reduce_square(poly, gens.index(self.r2), lambda q: sp.Integer(2) ** q)
        return poly

    def _reduce_square(self, poly, idx, repl):
        sp = self.sp
        groups = {}
        for mon, co in poly.terms():
            e = mon[idx]
            if e >= 2:
                mon = mon[:idx] + (e % 2,) + mon[idx + 1:]
            groups.setdefault(e // 2, {})
            groups[e // 2][mon] = groups[e // 2].get(mon, 0) + co
        if set(groups) <= {0}:
            return poly
        out = None
        for q, d in groups.items():
            pq = sp.Poly.from_dict(d, *self.gens, domain=poly.domain)
            if q:
                pq = pq * sp.Poly(repl(q), *self.gens, domain=poly.domain)
            out = pq if out is None else out + pq
        return out


def _as_matrix(U, sp):
    """(2,)*2n array -> 2^n x 2^n nested list, row index = output bits big-endian (first listed qubit most
    significant), column index = input bits"""
    shape = tuple(U.shape)
    if len(shape) == 2 and shape[0] == shape[1]:
        n = shape[0]
        return [[U[a, b] for b in range(n)] for a in range(n)]
    assert all(d == 2 for d in shape) and len(shape) % 2 == 0, shape
    nq = len(shape) // 2
    dim = 2 ** nq

    def bits(x):
        return tuple((x >> (nq - 1 - k)) & 1 for k in range(nq))

    return [[U[bits(a) + bits(b)] for b in range(dim)] for a in range(dim)]


def _decide_identities(sp, params, M, T):
    """M: matrix of sympy entries from the real builder; T: textbook matrix or None.
    returns dict(unitary=(bool, info), textbook=(bool|None, info))"""
    n = len(M)
    ring = TrigRing(sp, params)
    ents = [e for row in M for e in row]
    cents = [sp.conjugate(e) for e in ents]
    tents = [e for row in T for e in row] if T is not None else []
    for e in ents + cents + tents:
        ring.scan(e)
    ring.freeze()
    L = [ring.lower(e) for e in ents]
    Lc = [ring.lower(e) for e in cents]
    Lt = [ring.lower(sp.sympify(e)) for e in tents]
    sh = ring.min_exponents(L + Lt)
    shc = ring.min_exponents(Lc)
    P = [ring.poly(e, sh) for e in L]
    Pc = [ring.poly(e, shc) for e in Lc]
    one = ring.const(sp.Mul(*[z ** (-(sh[z] + shc[z])) for z in sh]))
    res = {}
    bad = []
    nterms = max(len(p.terms()) for p in P)
    for a in range(n):
        for b in range(n):
            acc = None
            for c in range(n):
                t = Pc[c * n + a] * P[c * n + b]
                acc = t if acc is None else acc + t
            if a == b:
                acc = acc - one
            acc = ring.normal_form(acc)
            if not acc.is_zero:
                bad.append((a, b, len(acc.terms())))
    res["unitary"] = (not bad, dict(nonzero_entries=bad[:6], max_terms_per_entry=nterms,
                                    generators=[str(g) for g in ring.gens]))
    if T is not None:
        Pt = [ring.poly(e, sh) for e in Lt]
        badt = []
        for k in range(n * n):
            d = ring.normal_form(P[k] - Pt[k])
            if not d.is_zero:
                badt.append((k // n, k % n))
        res["textbook"] = (not badt, dict(differing_entries=badt[:8]))
    return res


# ---------------------------------------------------------------------------------------------------------------------
#  textbook definitions (written here, independent of quimb).  Convention: a gate applied to qubits (q0, q1, ...) has
#  matrix rows/columns indexed by the bit string b_q0 b_q1 ... read as a binary number (first listed qubit = most
#  significant bit); controlled gates are controlled on the FIRST listed qubit(s).  The convention itself is checked
#  natively on the real Circuit class (obligation ...::CX::qubit-ordering-convention).
# ---------------------------------------------------------------------------------------------------------------------

def _textbook(sp):
    I = sp.I
    cos, sin, exp, sqrt, pi = sp.cos, sp.sin, sp.exp, sp.sqrt, sp.pi
    Mx = sp.Matrix
    I2 = sp.eye(2)
    X = Mx([[0, 1], [1, 0]])
    Y = Mx([[0, -I], [I, 0]])
    Z = Mx([[1, 0], [0, -1]])

    def kron(*ms):
        out = ms[0]
        for m in ms[1:]:
            out = sp.kronecker_product(out, m)
        return out

    def rot(Pm, th):  # exp(-i th/2 P) for an involution P
        return cos(th / 2) * sp.eye(Pm.shape[0]) - I * sin(th / 2) * Pm

    def ctrl(U, nc=1):  # |1..1><1..1| (x) U + rest (x) 1, controls first
        d = U.shape[0]
        D = d * 2 ** nc
        out = sp.eye(D)
        out[D - d:, D - d:] = U
        return out

    def u3(t, p, l):
        return Mx([[cos(t / 2), -exp(I * l) * sin(t / 2)], [exp(I * p) * sin(t / 2), exp(I * (p + l)) * cos(t / 2)]])

    def u2(p, l):
        return Mx([[1, -exp(I * l)], [exp(I * p), exp(I * (p + l))]]) / sqrt(2)

    def u1(l):
        return Mx([[1, 0], [0, exp(I * l)]])

    def fsim(t, p):  # Google fSim
        return Mx([[1, 0, 0, 0], [0, cos(t), -I * sin(t), 0], [0, -I * sin(t), cos(t), 0], [0, 0, 0, exp(-I * p)]])

    def fsimg(t, zeta, chi, gamma, phi):  # general number-conserving gate, Arute et al. 2019 supplement eq. (53)
        return Mx([[1, 0, 0, 0],
                   [0, exp(-I * (gamma + zeta)) * cos(t), -I * exp(-I * (gamma - chi)) * sin(t), 0],
                   [0, -I * exp(-I * (gamma + chi)) * sin(t), exp(-I * (gamma - zeta)) * cos(t), 0],
                   [0, 0, 0, exp(-I * (2 * gamma + phi))]])

    def givens(t):  # exp(t (|10><01| - |01><10|))
        return Mx([[1, 0, 0, 0], [0, cos(t), -sin(t), 0], [0, sin(t), cos(t), 0], [0, 0, 0, 1]])

    def givens2(t, p):  # exp(t (e^{-ip}|10><01| - e^{ip}|01><10|))
        return Mx([[1, 0, 0, 0], [0, cos(t), -exp(I * p) * sin(t), 0], [0, exp(-I * p) * sin(t), cos(t), 0], [0, 0, 0, 1]])

    def xx_plus_yy(t, b):
        # qiskit XXPlusYYGate: RZ_0(-b) exp(-i t/2 (XX+YY)/2) RZ_0(b), qubit 0 = first listed qubit
        # (XX+YY)/2 = |01><10| + |10><01| =: S,  exp(-i t/2 S) = 1 + (cos(t/2) - 1) P - i sin(t/2) S
        S = Mx([[0, 0, 0, 0], [0, 0, 1, 0], [0, 1, 0, 0], [0, 0, 0, 0]])
        Pm = sp.diag(0, 1, 1, 0)
        core = sp.eye(4) + (cos(t / 2) - 1) * Pm - I * sin(t / 2) * S
        rz = lambda a: sp.diag(exp(-I * a / 2), exp(I * a / 2))
        return kron(rz(-b), I2) * core * kron(rz(b), I2)

    def xx_minus_yy(t, b):
        # qiskit XXMinusYYGate: RZ_1(b) exp(-i t/2 (XX-YY)/2) RZ_1(-b), qubit 1 = second listed qubit
        S = Mx([[0, 0, 0, 1], [0, 0, 0, 0], [0, 0, 0, 0], [1, 0, 0, 0]])
        Pm = sp.diag(1, 0, 0, 1)
        core = sp.eye(4) + (cos(t / 2) - 1) * Pm - I * sin(t / 2) * S
        rz = lambda a: sp.diag(exp(-I * a / 2), exp(I * a / 2))
        return kron(I2, rz(b)) * core * kron(I2, rz(-b))

    CX = ctrl(X)
    XC = Mx([[1, 0, 0, 0], [0, 0, 0, 1], [0, 0, 1, 0], [0, 1, 0, 0]])  # control = second qubit, target = first

    def su4(*p):
        # Vatan & Williams quant-ph/0308006 fig. 7 on (a, b): (A3 x A4) NOTC (1 x Ry(t3)) CNOT (Rz(t1) x Ry(t2)) NOTC (A1 x A2)
        ry = lambda a: Mx([[cos(a / 2), -sin(a / 2)], [sin(a / 2), cos(a / 2)]])
        rz = lambda a: sp.diag(exp(-I * a / 2), exp(I * a / 2))
        return (kron(u3(*p[6:9]), u3(*p[9:12])) * XC * kron(I2, ry(p[14])) * CX * kron(rz(p[12]), ry(p[13])) * XC
                * kron(u3(*p[0:3]), u3(*p[3:6])))

    param = {
        "RX": lambda t: rot(X, t), "RY": lambda t: rot(Y, t), "RZ": lambda t: rot(Z, t),
        "U3": u3, "U2": u2, "U1": u1, "PHASE": u1,
        "CU3": lambda *p: ctrl(u3(*p)), "CU2": lambda *p: ctrl(u2(*p)), "CU1": lambda l: ctrl(u1(l)),
        "CPHASE": lambda l: ctrl(u1(l)),
        "CRX": lambda t: ctrl(rot(X, t)), "CRY": lambda t: ctrl(rot(Y, t)), "CRZ": lambda t: ctrl(rot(Z, t)),
        "FSIM": fsim, "FS": fsim, "FSIMG": fsimg, "GIVENS": givens, "GIVENS2": givens2,
        "XXPLUSYY": xx_plus_yy, "XXMINUSYY": xx_minus_yy,
        "RXX": lambda t: rot(kron(X, X), t), "RYY": lambda t: rot(kron(Y, Y), t), "RZZ": lambda t: rot(kron(Z, Z), t),
        "SU4": su4,
    }
    H = Mx([[1, 1], [1, -1]]) / sqrt(2)
    S = sp.diag(1, I)
    T = sp.diag(1, (1 + I) / sqrt(2))
    SX = Mx([[1 + I, 1 - I], [1 - I, 1 + I]]) / 2
    W = (X + Y) / sqrt(2)
    Wsqrt = (I2 - I * W) / sqrt(2)          # exp(-i pi/4 W): Google's W^(1/2) ("hz_1_2" in qsim files)
    SWAP = Mx([[1, 0, 0, 0], [0, 0, 1, 0], [0, 1, 0, 0], [0, 0, 0, 1]])
    ISWAP = Mx([[1, 0, 0, 0], [0, 0, I, 0], [0, I, 0, 0], [0, 0, 0, 1]])
    half = sp.pi / 2
    const = {
        "H": H, "X": X, "Y": Y, "Z": Z, "S": S, "SDG": S.H, "T": T, "TDG": T.H, "SX": SX, "SXDG": SX.H,
        "X_1_2": rot(X, half), "Y_1_2": rot(Y, half), "Z_1_2": rot(Z, half), "W_1_2": Wsqrt, "HZ_1_2": Wsqrt,
        "CX": CX, "CNOT": CX, "CY": ctrl(Y), "CZ": ctrl(Z), "ISWAP": ISWAP, "IS": ISWAP, "SWAP": SWAP, "IDEN": I2,
        "CCX": ctrl(X, 2), "CCNOT": ctrl(X, 2), "TOFFOLI": ctrl(X, 2), "CCY": ctrl(Y, 2), "CCZ": ctrl(Z, 2),
        "CSWAP": ctrl(SWAP), "FREDKIN": ctrl(SWAP),
    }
    return param, const


def _numeric_probe(fn, nparams, textbook, sp, seed=0, npts=5):
    """run the real builder on numpy floats at random points; returns (worst unitarity defect, point, worst textbook
    defect, point)"""
    import numpy as np
    rng = np.random.default_rng(seed)
    worst_u, pt_u, worst_t, pt_t, tb_at = 0.0, None, 0.0, None, None
    syms = sp.symbols(f"p0:{nparams}", real=True)
    tb = sp.lambdify(syms, textbook(*syms), "numpy") if textbook is not None else None
    for _ in range(npts):
        p = rng.uniform(-2 * np.pi, 2 * np.pi, size=nparams)
        U = np.asarray(fn(p), dtype=complex)
        d = int(round(math.sqrt(U.size)))
        U = U.reshape(d, d)
        du = float(np.abs(U.conj().T @ U - np.eye(d)).max())
        if du >= worst_u:
            worst_u, pt_u = du, [float(x) for x in p]
        if tb is not None:
            Tn = np.asarray(tb(*p), dtype=complex)
            dt = float(np.abs(U - Tn).max())
            if dt >= worst_t:
                worst_t, pt_t, tb_at = dt, [float(x) for x in p], [[[float(v.real), float(v.imag)] for v in row] for row in Tn]
    return worst_u, pt_u, worst_t, pt_t, tb_at


def _gate_replay_script(name, point, textbook_at=None):
    head = ("import numpy as np\n"
            "from quimb.tensor.circuit.gates import PARAM_GATES\n"
            f"p = np.array({point!r})\n"
            f"U = np.asarray(PARAM_GATES[{name!r}](p), dtype=complex); d = int(round(U.size ** 0.5)); U = U.reshape(d, d)\n")
    if textbook_at is None:
        return head + ("observed = dict(max_abs_UdagU_minus_I=float(abs(U.conj().T @ U - np.eye(d)).max()))\n"
                       "reproduced = observed['max_abs_UdagU_minus_I'] > 1e-9\n")
    return head + (f"T = np.array({textbook_at!r}); T = T[..., 0] + 1j * T[..., 1]   # textbook matrix at p\n"
                   "observed = dict(max_abs_U_minus_textbook=float(abs(U - T).max()))\n"
                   "reproduced = observed['max_abs_U_minus_textbook'] > 1e-9\n")


def _param_gate_obligations(mod, name, fn, tree, tb_param, obs):
    sp, SArr = _sympy_backend()
    fid = f"{GATES}::{fn.__name__}"
    oid_u = f"{fid}::unitary-for-all-params[{name}]"
    oid_t = f"{fid}::matches-textbook-definition[{name}]"
    textbook = tb_param.get(name)
    t0 = time.time()
    n = _n_params(fn, tree) or 1
    params = sp.symbols(f"p0:{n}", real=True)
    log = set()
    err = None
    res = {}
    try:
        with _budget(PER_GATE_BUDGET_S):
            U = fn(SArr(list(params)))
            M = [[_defloat(sp.sympify(e), sp, log) for e in row] for row in _as_matrix(U, sp)]
            T = None
            if textbook is not None:
                Tm = textbook(*params)
                T = [[Tm[a, b] for b in range(Tm.shape[1])] for a in range(Tm.shape[0])]
                if len(T) != len(M):
                    raise ValueError(f"textbook dimension {len(T)} != builder dimension {len(M)}")
            res = _decide_identities(sp, params, M, T)
    except _Timeout:
        err = f"undecided within {PER_GATE_BUDGET_S:.0f} s"
    except Exception as e:  # symbolic route not applicable: undecided, never a violation by itself
        err = f"{type(e).__name__}: {e}"[:300]
    dt = time.time() - t0
    need_probe = err is not None or not res["unitary"][0] or (textbook is not None and not res["textbook"][0])
    probe = None
    if need_probe:
        try:
            probe = _numeric_probe(fn, n, textbook, sp)
        except Exception as e:
            probe = None
            err = (err or "") + f" | numeric probe failed: {type(e).__name__}: {e}"[:200]
    subst = sorted(log)
    base = dict(gate=name, builder=fn.__name__, n_params=n, float_literal_substitutions=subst)
    # --- unitarity
    if err is None and res["unitary"][0]:
        obs.append(ObResult(oid_u, "e2", "discharged", "sympy", dt, function=fid, engine="E2",
                            detail=dict(base, **res["unitary"][1])))
    else:
        st, model = "unknown", None
        if probe is not None and probe[0] > 1e-9:
            st = "failed"
            model = dict(base, params=probe[1], max_abs_UdagU_minus_I=probe[0],
                         native_replay=dict(script=_gate_replay_script(name, probe[1]), reproduced=True,
                                            expected="U^dagger U = 1 to rounding"))
        obs.append(ObResult(oid_u, "e2", st, "sympy+numeric-probe", dt, function=fid, engine="E2", model=model,
                            detail=dict(base, reason=err or res["unitary"][1],
                                        numeric_probe_max_defect=None if probe is None else probe[0])))
    # --- textbook
    if textbook is None:
        obs.append(ObResult(oid_t, "e2", "unknown", "sympy", 0.0, function=fid, engine="E2",
                            detail=dict(base, reason="no textbook definition for this gate name in the sidecar table")))
    elif err is None and res["textbook"][0]:
        obs.append(ObResult(oid_t, "e2", "discharged", "sympy", 0.0, function=fid, engine="E2", detail=base))
    else:
        st, model = "unknown", None
        if probe is not None and probe[2] > 1e-9:
            st = "failed"
            model = dict(base, params=probe[3], max_abs_U_minus_textbook=probe[2],
                         native_replay=dict(script=_gate_replay_script(name, probe[3], probe[4]), reproduced=True,
                                            expected="the builder returns the textbook matrix"))
        obs.append(ObResult(oid_t, "e2", st, "sympy+numeric-probe", 0.0, function=fid, engine="E2", model=model,
                            detail=dict(base, reason=err or res.get("textbook", (None, None))[1],
                                        numeric_probe_max_defect=None if probe is None else probe[2])))


def _const_gate_obligations(name, G, tb_const, obs):
    import numpy as np
    sp, _ = _sympy_backend()
    fid = f"{GATES}::CONSTANT_GATES[{name}]"
    t0 = time.time()
    A = np.asarray(G, dtype=complex)
    d = int(round(math.sqrt(A.size)))
    A = A.reshape(d, d)
    exact, closed = True, set()
    M = sp.zeros(d, d)
    for a in range(d):
        for b in range(d):
            parts = []
            for v in (A[a, b].real, A[a, b].imag):
                how, c = _recognise(v, sp)
                if how is None:
                    exact = False
                elif how == "closed-form":
                    closed.add(f"{float(v)!r} -> {c}")
                parts.append(c)
            M[a, b] = parts[0] + sp.I * parts[1]
    base = dict(gate=name, dim=d, closed_forms_within_1ulp=sorted(closed))
    if exact:
        D = (M.H * M - sp.eye(d)).applyfunc(sp.expand)
        ok = D.is_zero_matrix is True
        obs.append(ObResult(f"{fid}::unitary-exact", "e2", "discharged" if ok else "failed", "sympy", time.time() - t0,
                            function=fid, engine="E2", detail=base,
                            model=None if ok else dict(base, UdagU_minus_I=str(D), array=str(A.tolist()))))
    else:
        defect = float(np.abs(A.conj().T @ A - np.eye(d)).max())
        ok = defect <= 1e-12
        obs.append(ObResult(f"{fid}::unitary-exact", "e2", "discharged" if ok else "failed", "numeric-exact-to-1e-12",
                            time.time() - t0, function=fid, engine="E2", detail=dict(base, defect=defect),
                            model=None if ok else dict(base, defect=defect, array=str(A.tolist()))))
    T = tb_const.get(name)
    t1 = time.time()
    if T is None:
        obs.append(ObResult(f"{fid}::matches-textbook-definition", "e2", "unknown", "sympy", 0.0, function=fid,
                            engine="E2", detail=dict(base, reason="no textbook definition in the sidecar table")))
        return
    if T.shape != (d, d):
        obs.append(ObResult(f"{fid}::matches-textbook-definition", "e2", "failed", "sympy", 0.0, function=fid,
                            engine="E2", model=dict(base, reason=f"dimension {d} != textbook {T.shape}")))
        return
    if exact:
        Dm = (M - T).applyfunc(lambda e: sp.simplify(sp.expand(e)))
        ok = Dm.is_zero_matrix is True
        backend = "sympy"
    else:
        Tn = np.array(T.evalf(30).tolist(), dtype=complex)
        ok = float(np.abs(A - Tn).max()) <= 1e-12
        Dm = None
        backend = "numeric-exact-to-1e-12"
    obs.append(ObResult(f"{fid}::matches-textbook-definition", "e2", "discharged" if ok else "failed", backend,
                        time.time() - t1, function=fid, engine="E2", detail=base,
                        model=None if ok else dict(base, registered=str(A.tolist()), textbook=str(T.tolist()),
                                                   replay=f"from quimb.tensor.circuit.gates import CONSTANT_GATES; "
                                                          f"print(CONSTANT_GATES[{name!r}])")))


def _ordering_convention_obligation(obs):
    """the convention of the textbook table, decided natively and exhaustively on the real simulator: for both
    argument orders of CX and all four basis inputs the dense state is the basis vector with the FIRST argument as
    control, index = bits read big-endian (qubit 0 most significant)"""
    t0 = time.time()
    oid = f"{GATES}::CONSTANT_GATES[CX]::qubit-ordering-convention"
    try:
        import numpy as np
        import quimb.tensor as qtn
        bad = []
        for ctrl, tgt in ((0, 1), (1, 0)):
            for b0 in (0, 1):
                for b1 in (0, 1):
                    c = qtn.Circuit(2)
                    if b0:
                        c.apply_gate("X", 0)
                    if b1:
                        c.apply_gate("X", 1)
                    c.apply_gate("CX", ctrl, tgt)
                    out = [b0, b1]
                    out[tgt] ^= out[ctrl]
                    v = np.asarray(c.to_dense()).ravel()
                    want = np.zeros(4)
                    want[2 * out[0] + out[1]] = 1
                    if np.abs(v - want).max() > 1e-12:
                        bad.append(dict(control=ctrl, target=tgt, input=[b0, b1], got=str(v.tolist())))
        obs.append(ObResult(oid, "fdx", "failed" if bad else "discharged", "exhaustive", time.time() - t0,
                            function=f"{GATES}::CONSTANT_GATES[CX]", engine="fdx", model=bad[0] if bad else None,
                            detail=dict(cases=8)))
    except Exception as e:
        obs.append(ObResult(oid, "fdx", "unknown", "exhaustive", time.time() - t0,
                            function=f"{GATES}::CONSTANT_GATES[CX]", engine="fdx", detail=f"{type(e).__name__}: {e}"))


def provider_gates(tier="quick", root=None, only_names=None):
    """only_names: restrict to these registered gate names (selftest mutants); None = every registered gate"""
    obs = []
    root = root or repo_root()
    t0 = time.time()
    try:
        mod = load_gates_module(root)
        with open(os.path.join(root, GATES)) as f:
            tree = _parse(f.read())
    except Exception as e:
        return [ObResult(f"{GATES}::load", "e2", "unknown", "sympy", time.time() - t0, function=GATES, engine="E2",
                         detail=f"cannot load gates module: {type(e).__name__}: {e}")]
    sp, _ = _sympy_backend()
    tb_param, tb_const = _textbook(sp)
    for name in sorted(mod.PARAM_GATES):
        if only_names is None or name in only_names:
            _param_gate_obligations(mod, name, mod.PARAM_GATES[name], tree, tb_param, obs)
    for name in sorted(mod.CONSTANT_GATES):
        if only_names is None or name in only_names:
            _const_gate_obligations(name, mod.CONSTANT_GATES[name], tb_const, obs)
    if only_names is not None:
        return obs
    _ordering_convention_obligation(obs)
    # registry census: every registered name is either parametrised, constant or special-without-array (none today)
    other = sorted(set(mod.ALL_GATES) - set(mod.PARAM_GATES) - set(mod.CONSTANT_GATES))
    _register_replay_hooks(obs)
    obs.append(ObResult(f"{GATES}::registry::every-gate-has-a-unitarity-obligation", "e2",
                        "unknown" if other else "discharged", "reflection", 0.0, function=f"{GATES}::registry",
                        engine="E2", detail=dict(not_covered=other, param=len(mod.PARAM_GATES),
                                                 constant=len(mod.CONSTANT_GATES))))
    return obs


# =====================================================================================================================
#  Provider 2 -- E4: typestate of the query cache (AST of the real classes, re-read on every run)
#
#  Ghost  valid(c)  :=  the cached query results of circuit c (fields CACHE_FIELDS) were computed for the current gate
#  list, parameters and state of c.   How THIS version implements it (read from core.py and checked below as leaf
#  obligations): ``_maybe_init_storage`` compares the stamp ``_sample_n_gates`` with ``num_gates == len(_gates)`` and
#  calls ``clear_storage`` when they differ; ``clear_storage`` empties every cache field and sets the stamp to
#  ``num_gates``.  Consequently
#     * appending to ``_gates`` invalidates by itself (the counter the validator compares moves; the stamp never
#       exceeds the counter because the list only grows),
#     * every other change of what queries depend on -- replacing an entry of ``_gates``, writing a ``params`` attribute
#       or a ``*param*`` field, an in-place change of the state ``_psi`` that is not followed by an append -- must be
#       followed by ``clear_storage()`` on every non-raising path, and ``_gates`` must never shrink or be rebound.
#
#  Rules (one obligation per method and applicable rule, id  <file>::<Class>.<method>::cache-<rule>):
#   R1  every read / write of a cache field is dominated by a validator call on the same receiver with no intervening
#       event that can change gates / parameters / state (derived summaries of callees are applied at every call site).
#       Receivers other than self: a local that aliases an object stored in self's cache ("cache-owned", e.g. the
#       sub-circuits of sample_gate_by_gate) is covered by valid(self); any other foreign receiver needs its own
#       validator call; stores to a freshly created object are R4's business.
#   R2  valid is havoc'd at every yield (the caller may apply gates before resuming); additionally every local that
#       aliases cache content is dead after a yield until re-assigned.
#   R3  see above: at every normal exit no un-invalidated mutation is pending; ``_gates`` only grows.
#   R4  a method that writes cache fields of another (fresh) object, and the constructor, either writes ALL cache fields
#       or leaves the object recognisably invalid (stamp = negative constant and the containers the invalidator calls
#       .clear() on are initialised).
#   R5  for every store into a cache container the free variables of the stored value are covered by the key, by
#       self-state (covered by valid) or by REPR_ONLY_ARGS (assumption).
#  Leaf summaries are declared here (names of validator / invalidator / stamp / gate list / state; representation-only
#  operations) and their structural content is itself checked (cache-leaf-* obligations).
# =====================================================================================================================

VALIDATOR = "_maybe_init_storage"
INVALIDATOR = "clear_storage"
STAMP = "_sample_n_gates"
COUNTER_PROP = "num_gates"
GATE_LIST = "_gates"
STATE = "_psi"
DECLARED_CACHE_FIELDS = ("_storage", "_sampled_conditionals", "_marginal_storage_size", "_sample_n_gates")
LIST_GROW = {"append", "extend", "insert"}
LIST_SHRINK = {"pop", "remove", "clear", "reverse", "sort", "__delitem__", "__setitem__"}
CONTAINER_MUTATORS = {"update", "pop", "popitem", "clear", "setdefault", "__setitem__", "__delitem__", "append",
                      "extend", "insert", "remove"}
# in-place operations on the state network that change its representation, not the state it denotes
# (C04: gauging / squeezing / casting preserve the denoted tensor; tags carry no value)
REPR_ONLY_STATE_METHODS = {"squeeze_", "astype_", "gauge_all_simple_", "add_tag", "apply_to_arrays", "view_as_",
                           "view_like_"}
# in-place spellings of the state network that have no trailing underscore
INPLACE_STATE_METHODS_NO_UNDERSCORE = {"apply_to_arrays", "add_tag", "drop_tags", "retag_all", "randomize"}
# whole methods declared representation-only, with the precondition that makes them so
REPR_ONLY_METHODS = {
    "apply_to_arrays": "fn converts backend / dtype and preserves the denoted values (true at every call site inside "
                       "the package: optimize.py to_constant / to_numpy / convert_raw_arrays); a value-changing fn "
                       "changes parameters without invalidating the cache or the gate record",
    "_maybe_convert": "casts dtype / moves arrays to another backend (to_backend) only",
}
# query arguments that select a route / representation / precision, not the value (assumptions of R5)
REPR_ONLY_ARGS = {
    "optimize": "contraction path: every route gives the same value (C01)",
    "backend": "array library used for the contraction",
    "dtype": "precision of the contraction (floats are interpreted over the reals)",
    "equalize_norms": "norm bookkeeping of the simplification (C04)",
    "simplify_equalize_norms": "norm bookkeeping of the simplification (C04)",
    "simplify_sequence": "which value-preserving simplifications run (C04)",
    "seq": "which value-preserving simplifications run (C04)",
    "simplify_atol": "tolerance below which entries are treated as zero by the simplifier: an approximation knob; "
                     "conditionals cached under one tolerance are reused under another",
    "atol": "tolerance of the simplifier (approximation knob)",
    "progbar": "display only",
}
CONSTRUCTORS = {"__init__"}
IN, CLEAN, DIRTY = 1, 0, 2


class FuncInfo:
    def __init__(self, cls, name, node, kind):
        self.cls, self.name, self.node, self.kind = cls, name, node, kind  # kind: method|property|setter|static|class
        self.is_generator = any(isinstance(n, (ast.Yield, ast.YieldFrom)) for n in _walk_same_scope(node))
        a = node.args
        self.params = [x.arg for x in a.posonlyargs + a.args + a.kwonlyargs]
        if a.vararg:
            self.params.append(a.vararg.arg)
        if a.kwarg:
            self.params.append(a.kwarg.arg)
        self.selfname = self.params[0] if (self.params and kind not in ("static", "class")) else None

    @property
    def qual(self):
        return f"{self.cls.name}.{self.name}"

    @property
    def public(self):
        return not self.name.startswith("_")


def _walk_same_scope(node):
    """nodes of a function body without descending into nested defs / lambdas / classes"""
    stack = list(ast.iter_child_nodes(node))
    while stack:
        n = stack.pop()
        yield n
        if isinstance(n, (ast.FunctionDef, ast.AsyncFunctionDef, ast.Lambda, ast.ClassDef)):
            continue
        stack.extend(ast.iter_child_nodes(n))


class ClassInfo:
    def __init__(self, rel, node):
        self.rel, self.node, self.name = rel, node, node.name
        self.bases = [b.id if isinstance(b, ast.Name) else (b.attr if isinstance(b, ast.Attribute) else None)
                      for b in node.bases]
        self.methods, self.aliases = {}, {}
        for st in node.body:
            if isinstance(st, (ast.FunctionDef, ast.AsyncFunctionDef)):
                kind, name = "method", st.name
                for d in st.decorator_list:
                    if isinstance(d, ast.Name) and d.id == "property":
                        kind = "property"
                    elif isinstance(d, ast.Name) and d.id == "staticmethod":
                        kind = "static"
                    elif isinstance(d, ast.Name) and d.id == "classmethod":
                        kind = "class"
                    elif isinstance(d, ast.Attribute) and d.attr == "setter":
                        kind, name = "setter", f"{st.name}.setter"
                self.methods[name] = FuncInfo(self, name, st, kind)
            elif isinstance(st, ast.Assign) and len(st.targets) == 1 and isinstance(st.targets[0], ast.Name) \
                    and isinstance(st.value, ast.Call) and st.value.args and isinstance(st.value.args[0], ast.Name):
                # name = functools.partialmethod(target, ...) / deprecated(target, ...): alias of a method of this body
                self.aliases[st.targets[0].id] = st.value.args[0].id


class Hierarchy:
    def __init__(self, root=None):
        self.root = root or repo_root()
        self.classes = {}
        d = os.path.join(self.root, CIRC)
        for fn in sorted(os.listdir(d)):
            if not fn.endswith(".py"):
                continue
            rel = f"{CIRC}/{fn}"
            with open(os.path.join(d, fn)) as f:
                tree = _parse(f.read())
            for node in tree.body:
                if isinstance(node, ast.ClassDef):
                    self.classes[node.name] = ClassInfo(rel, node)
        roots = [c for c in self.classes.values() if VALIDATOR in c.methods]
        self.base = roots[0] if roots else None
        self.circuit_classes = [c for c in self.classes.values() if self.base and self.base.name in
                                [k.name for k in self.mro(c)]]

    def mro(self, c):
        out, seen = [], set()

        def go(k):
            if k is None or k.name in seen:
                return
            seen.add(k.name)
            out.append(k)
            for b in k.bases:
                go(self.classes.get(b))
        go(c)
        return out

    def resolve(self, ctx, name, after=None):
        """(FuncInfo | None): method ``name`` as seen from an instance of class ctx (after = skip up to and including
        that class in the MRO, for super())"""
        chain = self.mro(ctx)
        if after is not None:
            names = [k.name for k in chain]
            chain = chain[names.index(after.name) + 1:] if after.name in names else []
        for k in chain:
            if name in k.methods:
                return k.methods[name]
            if name in k.aliases and k.aliases[name] in k.methods:
                return k.methods[k.aliases[name]]
        return None

    def subclasses_inheriting(self, fi):
        """context classes in which fi is the resolved implementation of its name"""
        out = []
        for k in self.circuit_classes:
            if fi.cls.name in [x.name for x in self.mro(k)]:
                r = self.resolve(k, fi.name)
                if r is fi:
                    out.append(k)
        return out or [fi.cls]


def _is_self_attr(node, selfname, attr=None):
    return (isinstance(node, ast.Attribute) and isinstance(node.value, ast.Name) and node.value.id == selfname
            and (attr is None or node.attr == attr))


def _rooted_at_self(node, selfname):
    while isinstance(node, (ast.Attribute, ast.Subscript, ast.Call)):
        node = node.func if isinstance(node, ast.Call) else node.value
    return isinstance(node, ast.Name) and node.id == selfname


class Summary:
    def __init__(self, inv_exit, dirty_exit, is_generator, violations, notes, r4, r5, touches, unresolved, raw_new=()):
        self.inv_exit, self.dirty_exit, self.is_generator = inv_exit, dirty_exit, is_generator
        self.violations, self.notes, self.r4, self.r5 = violations, notes, r4, r5
        self.touches, self.unresolved, self.raw_new = touches, unresolved, set(raw_new)


PESSIMISTIC = Summary(frozenset({"entry", "mut"}), DIRTY, False, [], [], {}, [], set(), set())


class CacheAnalysis:
    def __init__(self, hier):
        self.h = hier
        self.memo = {}
        self.cache_fields, self.cleared_by_call = self._cache_fields()
        self.containers = set(self.cleared_by_call)
        self.callers = {}  # (ctx, qual) -> set of caller quals

    # ---------------------------------------------------------------- leaf: which fields form the cache
    def _cache_fields(self):
        fields, by_call = set(DECLARED_CACHE_FIELDS), set()
        inv = self.h.base.methods.get(INVALIDATOR) if self.h.base else None
        if inv is not None:
            s = inv.selfname
            for n in ast.walk(inv.node):
                if isinstance(n, ast.Assign):
                    for t in n.targets:
                        if _is_self_attr(t, s):
                            fields.add(t.attr)
                if isinstance(n, ast.Call) and isinstance(n.func, ast.Attribute) and _is_self_attr(n.func.value, s) \
                        and n.func.attr == "clear":
                    fields.add(n.func.value.attr)
                    by_call.add(n.func.value.attr)
        return fields, by_call

    # ---------------------------------------------------------------- taint: locals that alias cache content
    def _taint(self, fi):
        s = fi.selfname
        tainted, fresh, state_alias = set(), set(), set()
        if s is None:
            return tainted, fresh, state_alias

        def is_alias_expr(e):
            if isinstance(e, ast.Name):
                return e.id in tainted
            if _is_self_attr(e, s) and e.attr in self.containers:
                return True
            if isinstance(e, ast.Subscript):
                return is_alias_expr(e.value)
            if isinstance(e, ast.Call) and isinstance(e.func, ast.Attribute) and e.func.attr in (
                    "get", "values", "items", "keys", "setdefault", "pop"):
                return is_alias_expr(e.func.value)
            return False

        def is_fresh_expr(e):
            if not isinstance(e, ast.Call):
                return False
            f = e.func
            if isinstance(f, ast.Attribute) and f.attr == "__new__":
                return True
            if isinstance(f, ast.Attribute) and f.attr in ("copy", "__class__", "__copy__", "__deepcopy__"):
                v = f.value
                if isinstance(v, ast.Call) and isinstance(v.func, ast.Name) and v.func.id == "super":
                    return True
                if isinstance(v, ast.Name) and v.id == s:
                    return True
            if isinstance(f, ast.Name) and f.id == "cls":
                return True
            return False

        changed = True
        while changed:
            changed = False
            for n in _walk_same_scope(fi.node):
                pairs = []
                if isinstance(n, ast.Assign):
                    for t in n.targets:
                        pairs.append((t, n.value))
                        # value stored INTO a cache container becomes an alias of cache content
                        if isinstance(t, ast.Subscript) and _is_self_attr(t.value, s) and t.value.attr in self.containers \
                                and isinstance(n.value, ast.Name) and n.value.id not in tainted:
                            tainted.add(n.value.id)
                            changed = True
                elif isinstance(n, (ast.For, ast.AsyncFor)):
                    pairs.append((n.target, n.iter))
                elif isinstance(n, ast.NamedExpr):
                    pairs.append((n.target, n.value))
                for t, v in pairs:
                    names = [x.id for x in ast.walk(t) if isinstance(x, ast.Name)] if not isinstance(t, ast.Name) else [t.id]
                    if isinstance(t, (ast.Subscript, ast.Attribute)):
                        continue
                    if is_alias_expr(v):
                        for nm in names:
                            if nm not in tainted:
                                tainted.add(nm)
                                changed = True
                    if isinstance(t, ast.Name) and is_fresh_expr(v) and t.id not in fresh:
                        fresh.add(t.id)
                        changed = True
                    if isinstance(t, ast.Name) and _is_self_attr(v, s, STATE) and t.id not in state_alias:
                        state_alias.add(t.id)
                        changed = True
        return tainted, fresh, state_alias

    # ---------------------------------------------------------------- summaries (memoised per context class)
    def summary(self, ctx, fi):
        key = (ctx.name, fi.qual)
        if key in self.memo:
            return self.memo[key] or PESSIMISTIC  # None = in progress (recursion): pessimistic
        self.memo[key] = None
        s = _MethodRun(self, ctx, fi).run()
        self.memo[key] = s
        return s


class _MethodRun:
    def __init__(self, an, ctx, fi):
        self.an, self.h, self.ctx, self.fi = an, an.h, ctx, fi
        self.s = fi.selfname
        self.viol = {}     # (rule, line, msg) -> None (ordered)
        self.notes = {}
        self.exits = []
        self.r4 = {}       # receiver -> {field: value node}
        self.r5 = []       # (line, container, key node, value node, receiver)
        self.touches = set()
        self.unresolved = set()
        self.tainted, self.fresh, self.state_alias = an._taint(fi)
        self.raw_new = {n.targets[0].id for n in _walk_same_scope(fi.node) if isinstance(n, ast.Assign)
                        and isinstance(n.targets[0], ast.Name) and isinstance(n.value, ast.Call)
                        and isinstance(n.value.func, ast.Attribute) and n.value.func.attr == "__new__"}
        self.exempt = fi.name in (VALIDATOR, INVALIDATOR) or fi.name in CONSTRUCTORS
        self.waive_mut = fi.name in REPR_ONLY_METHODS or fi.name in CONSTRUCTORS

    # ---- state: (inv frozenset, dirty int, stale frozenset, fvalid frozenset)
    @staticmethod
    def join(a, b):
        if a is None:
            return b
        if b is None:
            return a
        return (a[0] | b[0], max(a[1], b[1]), a[2] | b[2], a[3] & b[3])

    def flag(self, rule, line, msg):
        self.viol.setdefault((rule, line, msg), None)

    def run(self):
        st = (frozenset({"entry"}), IN, frozenset(), frozenset())
        out = self.block(self.fi.node.body, st, None)
        if out is not None:
            self.exits.append(out)
        ex = None
        for e in self.exits:
            ex = self.join(ex, e)
        if ex is None:  # every path raises
            ex = (frozenset({"entry"}), IN, frozenset(), frozenset())
        return Summary(ex[0], ex[1], self.fi.is_generator, list(self.viol), list(self.notes), self.r4, self.r5,
                       self.touches, self.unresolved, self.raw_new)

    # ---------------------------------------------------------------- statements
    def block(self, stmts, st, loop):
        for x in stmts:
            if st is None:
                return None
            st = self.stmt(x, st, loop)
        return st

    def stmt(self, x, st, loop):
        if isinstance(x, (ast.FunctionDef, ast.AsyncFunctionDef, ast.ClassDef)):
            # deferred body: cache accesses inside are checked against the state at the definition point (the closure
            # is normally called right away); establishing / mutating effects of a nested body are ignored
            for y in ast.walk(x):
                if isinstance(y, ast.Attribute) and isinstance(y.value, ast.Name) and y.attr in self.an.cache_fields:
                    self.event(("access", y.value.id, y.attr, y.lineno, "nested-def", None), st, True)
            return st
        if isinstance(x, ast.Return):
            if x.value is not None:
                st = self.expr(x.value, st)
            self.exits.append(st)
            return None
        if isinstance(x, ast.Raise):
            if x.exc is not None:
                self.expr(x.exc, st)
            return None
        if isinstance(x, ast.If):
            st = self.expr(x.test, st)
            a = self.block(x.body, st, loop)
            b = self.block(x.orelse, st, loop)
            return self.join(a, b)
        if isinstance(x, (ast.For, ast.AsyncFor, ast.While)):
            if isinstance(x, ast.While):
                head_ev = lambda s_: self.expr(x.test, s_)
            else:
                st = self.expr(x.iter, st)
                head_ev = lambda s_: self.store_target(x.target, None, s_, False)
            lp = dict(breaks=None, conts=None)
            head = st
            for _ in range(8):
                body_in = head_ev(head)
                lp["conts"] = None
                end = self.block(x.body, body_in, lp)
                end = self.join(end, lp["conts"])
                new_head = self.join(head, end)
                if new_head == head:
                    break
                head = new_head
            after = head_ev(head) if isinstance(x, ast.While) else head
            infinite = isinstance(x, ast.While) and isinstance(x.test, ast.Constant) and x.test.value is True
            out = None if infinite else self.block(x.orelse, after, loop) if x.orelse else after
            return self.join(out, lp["breaks"])
        if isinstance(x, ast.Break):
            loop["breaks"] = self.join(loop["breaks"], st)
            return None
        if isinstance(x, ast.Continue):
            loop["conts"] = self.join(loop["conts"], st)
            return None
        if isinstance(x, (ast.With, ast.AsyncWith)):
            for it in x.items:
                st = self.expr(it.context_expr, st)
                if it.optional_vars is not None:
                    st = self.store_target(it.optional_vars, None, st, False)
            return self.block(x.body, st, loop)
        if isinstance(x, ast.Try) or x.__class__.__name__ == "TryStar":
            # handlers may start from any intermediate state of the body
            mid = st
            cur = st
            for y in x.body:
                if cur is None:
                    break
                cur = self.stmt(y, cur, loop)
                mid = self.join(mid, cur)
            outs = []
            if cur is not None:
                outs.append(self.block(x.orelse, cur, loop) if x.orelse else cur)
            for hnd in x.handlers:
                outs.append(self.block(hnd.body, mid, loop))
            res = None
            for o in outs:
                res = self.join(res, o)
            if x.finalbody:
                res = self.block(x.finalbody, res if res is not None else mid, loop) if res is not None else None
            return res
        if isinstance(x, ast.Match):
            st = self.expr(x.subject, st)
            res = st
            for c in x.cases:
                res = self.join(res, self.block(c.body, st, loop))
            return res
        return self.simple_stmt(x, st, cond=False)

    def simple_stmt(self, x, st, cond):
        if isinstance(x, ast.Assign):
            transfer = any(isinstance(t, ast.Attribute) and isinstance(t.value, ast.Name) and t.value.id != self.s
                           and t.attr in self.an.cache_fields and t.value.id in self.fresh for t in x.targets)
            st = self.expr(x.value, st, cond=cond, transfer=transfer)
            for t in x.targets:
                st = self.store_target(t, x.value, st, cond)
            return st
        if isinstance(x, ast.AnnAssign):
            if x.value is not None:
                st = self.expr(x.value, st, cond=cond)
                st = self.store_target(x.target, x.value, st, cond)
            return st
        if isinstance(x, ast.AugAssign):
            # load target, value, store target
            st = self.expr(self._as_load(x.target), st, cond=cond)
            st = self.expr(x.value, st, cond=cond)
            return self.store_target(x.target, x.value, st, cond)
        if isinstance(x, ast.Delete):
            for t in x.targets:
                if isinstance(t, ast.Subscript) and _is_self_attr(t.value, self.s, GATE_LIST):
                    st = self.event(("shrink", "del self._gates[...]", t.lineno), st, cond)
                else:
                    st = self.expr(self._as_load(t), st, cond=cond)
            return st
        if isinstance(x, ast.Expr):
            return self.expr(x.value, st, cond=cond)
        if isinstance(x, ast.Assert):
            return self.expr(x.test, st, cond=cond)
        if isinstance(x, ast.Return) and x.value is not None:
            return self.expr(x.value, st, cond=cond)
        return st

    @staticmethod
    def _as_load(t):
        import copy as _c
        t2 = _c.copy(t)
        t2.ctx = ast.Load()
        return t2

    def store_target(self, t, value, st, cond):
        s = self.s
        if isinstance(t, (ast.Tuple, ast.List)):
            for e in t.elts:
                st = self.store_target(e, value, st, cond)
            return st
        if isinstance(t, ast.Starred):
            return self.store_target(t.value, value, st, cond)
        if isinstance(t, ast.Name):
            return (st[0], st[1], st[2] - {t.id}, st[3] - {t.id})
        if isinstance(t, ast.Attribute):
            if isinstance(t.value, ast.Name):
                r = t.value.id
                if t.attr in self.an.cache_fields:
                    return self.event(("access", r, t.attr, t.lineno, "store", value), st, cond)
                if r == s and t.attr == GATE_LIST:
                    return self.event(("shrink", "self._gates rebound", t.lineno), st, cond)
                if r == s and t.attr == STATE:
                    return self.event(("mutate", "state", "self._psi rebound", t.lineno), st, cond)
                if r == s and "param" in t.attr:
                    return self.event(("mutate", "params", f"self.{t.attr} assigned", t.lineno), st, cond)
            st = self.expr(t.value, st, cond=cond)
            if "param" in t.attr and _rooted_at_self(t.value, s):
                return self.event(("mutate", "params", f"<...>.{t.attr} assigned", t.lineno), st, cond)
            if isinstance(t.value, ast.Name) and t.value.id in self.state_alias and "param" in t.attr:
                return self.event(("mutate", "params", f"{t.value.id}.{t.attr} assigned", t.lineno), st, cond)
            return st
        if isinstance(t, ast.Subscript):
            st = self.expr(t.slice, st, cond=cond)
            v = t.value
            if _is_self_attr(v, s, GATE_LIST):
                return self.event(("mutate", "gates", "self._gates[i] replaced", t.lineno), st, cond)
            if isinstance(v, ast.Attribute) and isinstance(v.value, ast.Name) and v.attr in self.an.cache_fields:
                st = self.event(("access", v.value.id, v.attr, t.lineno, "store-item", value), st, cond)
                if v.attr in self.an.containers and not any(q[0] == t.lineno and q[1] == v.attr for q in self.r5):
                    self.r5.append((t.lineno, v.attr, t.slice, value, v.value.id))
                return st
            if _is_self_attr(v, s) and "param" in v.attr:
                return self.event(("mutate", "params", f"self.{v.attr}[...] assigned", t.lineno), st, cond)
            return self.expr(v, st, cond=cond)
        return st

    # ---------------------------------------------------------------- expressions (evaluation order)
    def expr(self, e, st, cond=False, transfer=False):
        if e is None or st is None:
            return st
        s = self.s
        E = lambda n, st_, c=cond: self.expr(n, st_, c, transfer)
        if isinstance(e, ast.Name):
            if isinstance(e.ctx, ast.Load) and e.id in st[2]:
                self.flag("R2", e.lineno, f"local '{e.id}' aliases cache content read before a yield and is used after it "
                                          f"without being re-read")
            elif isinstance(e.ctx, ast.Load) and e.id in self.tainted and "mut" in st[0] and not self.exempt:
                self.flag("R1", e.lineno, f"local '{e.id}' aliases cache content and is used after an operation that may "
                                          f"change gates / parameters / state, without re-validation")
            return st
        if isinstance(e, ast.Constant):
            return st
        if isinstance(e, ast.Attribute):
            if isinstance(e.value, ast.Name):
                r = e.value.id
                if e.attr in self.an.cache_fields:
                    if transfer and r == s:
                        self.touches.add("cache")
                        return st  # value copied to the same field of a fresh object: R4
                    return self.event(("access", r, e.attr, e.lineno, "load", None), st, cond)
                if r == s and s is not None:
                    if e.attr == "__dict__":
                        self.flag("REFLECT", e.lineno, "self.__dict__ used: reflective access defeats the analysis")
                    tgt = self.h.resolve(self.ctx, e.attr)
                    if tgt is not None and tgt.kind == "property":
                        return self.event(("callself", tgt, e.lineno, False), st, cond)
                return E(e.value, st)
            if e.attr in self.an.cache_fields and self.s is not None:
                self.touches.add("cache")
                self.flag("R1", e.lineno, f"access to <{ast.unparse(e.value)}>.{e.attr}: cache field of a computed receiver, "
                                          f"which cannot be validated")
            return E(e.value, st)
        if isinstance(e, (ast.Yield, ast.YieldFrom, ast.Await)):
            if isinstance(e, ast.YieldFrom) and isinstance(e.value, ast.Call):
                st = self.call(e.value, st, cond, transfer, yield_from=True)
            elif e.value is not None:
                st = E(e.value, st)
            return self.event(("yield", e.lineno), st, cond)
        if isinstance(e, ast.Call):
            return self.call(e, st, cond, transfer, yield_from=False)
        if isinstance(e, ast.BoolOp):
            st = E(e.values[0], st)
            for v in e.values[1:]:
                st = self.join(st, self.expr(v, st, True, transfer))
            return st
        if isinstance(e, ast.IfExp):
            st = E(e.test, st)
            return self.join(self.expr(e.body, st, True, transfer), self.expr(e.orelse, st, True, transfer))
        if isinstance(e, ast.Lambda):
            self.expr(e.body, st, True, transfer)
            return st
        if isinstance(e, (ast.ListComp, ast.SetComp, ast.GeneratorExp, ast.DictComp)):
            saved, own = st[2], set()
            for g in e.generators:
                st = E(g.iter, st)
                own |= set(_target_names(g.target))   # comprehension variables live in their own scope
                st = (st[0], st[1], st[2] - own, st[3])
                for c in g.ifs:
                    st = self.expr(c, st, True, transfer)
            for part in ([e.key, e.value] if isinstance(e, ast.DictComp) else [e.elt]):
                st = self.expr(part, st, True, transfer)
            return (st[0], st[1], (st[2] - own) | (saved & own), st[3])
        if isinstance(e, ast.NamedExpr):
            st = E(e.value, st)
            return self.store_target(e.target, e.value, st, cond)
        for ch in ast.iter_child_nodes(e):
            if isinstance(ch, ast.expr):
                st = E(ch, st)
            elif isinstance(ch, (ast.keyword,)):
                st = E(ch.value, st)
            elif isinstance(ch, ast.Slice):
                for q in (ch.lower, ch.upper, ch.step):
                    st = E(q, st)
        return st

    def call(self, e, st, cond, transfer, yield_from):
        s = self.s
        f = e.func
        E = lambda n, st_: self.expr(n, st_, cond, transfer)
        # 1. receiver expression (without the attribute itself), then arguments
        recv = None
        if isinstance(f, ast.Attribute):
            recv = f.value
            special_recv = (isinstance(recv, ast.Name) or _is_self_attr(recv, s)
                            or (isinstance(recv, ast.Call) and isinstance(recv.func, ast.Name) and recv.func.id == "super"))
            if not special_recv:
                st = E(recv, st)
            elif isinstance(recv, ast.Name):
                st = E(recv, st)
            elif _is_self_attr(recv, s) and recv.attr in self.an.cache_fields:
                if transfer:
                    self.touches.add("cache")  # self.<field>.copy() assigned to the same field of a fresh object: R4
                else:
                    st = self.event(("access", s, recv.attr, recv.lineno, "call:" + f.attr, None), st, cond)
            elif _is_self_attr(recv, s):
                tgt = self.h.resolve(self.ctx, recv.attr)
                if tgt is not None and tgt.kind == "property":
                    st = self.event(("callself", tgt, recv.lineno, False), st, cond)
        else:
            st = E(f, st)
        for a in e.args:
            st = E(a.value if isinstance(a, ast.Starred) else a, st)
        for k in e.keywords:
            st = E(k.value, st)
        # 2. the call itself
        line = e.lineno
        passes_self = any(isinstance(a, ast.Name) and a.id == s for a in e.args) or \
            any(isinstance(k.value, ast.Name) and k.value.id == s for k in e.keywords)
        passes_state = any(self._is_state(a) for a in e.args) or \
            any(self._is_state(k.value) for k in e.keywords if k.arg != "like")
        if isinstance(f, ast.Name):
            if f.id in ("getattr", "setattr", "delattr", "hasattr") and e.args and isinstance(e.args[0], ast.Name) \
                    and e.args[0].id == s:
                nm = e.args[1].value if len(e.args) > 1 and isinstance(e.args[1], ast.Constant) else None
                if nm in self.an.cache_fields and f.id != "hasattr":
                    if transfer and f.id == "getattr":
                        self.touches.add("cache")  # copied to the same field of a fresh object: R4
                    else:
                        st = self.event(("access", s, nm, line, f.id, None), st, cond)
                elif nm is None and f.id != "hasattr":
                    self.flag("REFLECT", line, f"{f.id}(self, <computed name>): reflective access defeats the analysis")
                return st
            if f.id == "vars" and passes_self:
                self.flag("REFLECT", line, "vars(self): reflective access defeats the analysis")
                return st
            if f.id in ("isinstance", "type", "id", "repr", "str", "len", "super", "print", "hash"):
                return st
            if passes_state:
                st = self.event(("mutate", "state", f"self._psi passed to {f.id}(...)", line), st, cond)
            if passes_self:
                st = self.event(("havoc", f"self passed to {f.id}(...)", line), st, cond)
            return st
        if isinstance(f, ast.Attribute):
            m = f.attr
            # self.method(...)
            if isinstance(recv, ast.Name) and recv.id == s and s is not None:
                if m == VALIDATOR:
                    return self.event(("validate", s, line), st, cond)
                if m == INVALIDATOR:
                    return self.event(("invalidate", line), st, cond)
                tgt = self.h.resolve(self.ctx, m)
                if tgt is None:
                    self.unresolved.add(f"self.{m}")
                    return st
                if passes_state and tgt.name not in REPR_ONLY_METHODS:
                    st = self.event(("mutate", "state", f"self._psi passed to self.{m}(...)", line), st, cond)
                return self.event(("callself", tgt, line, yield_from), st, cond)
            # super().method(...)
            if isinstance(recv, ast.Call) and isinstance(recv.func, ast.Name) and recv.func.id == "super":
                tgt = self.h.resolve(self.ctx, m, after=self.fi.cls)
                if tgt is None:
                    return st
                if m == VALIDATOR:
                    return self.event(("validate", s, line), st, cond)
                if m == INVALIDATOR:
                    return self.event(("invalidate", line), st, cond)
                return self.event(("callself", tgt, line, yield_from), st, cond)
            # self._gates.<m>(...)
            if _is_self_attr(recv, s, GATE_LIST):
                if m in LIST_GROW:
                    return self.event(("grow", line), st, cond)
                if m in LIST_SHRINK:
                    return self.event(("shrink", f"self._gates.{m}(...)", line), st, cond)
                return st
            # self._psi.<m>(...) or alias.<m>(...)
            if self._is_state(recv):
                inplace = m.endswith("_") or m in INPLACE_STATE_METHODS_NO_UNDERSCORE
                if inplace and m not in REPR_ONLY_STATE_METHODS:
                    return self.event(("mutate", "state", f"in-place state operation .{m}(...)", line), st, cond)
                if inplace:
                    self.notes.setdefault(f"representation-only in-place state operation .{m}(...) at line {line}", None)
                return st
            # self.<param field>.<mutator>(...)
            if _is_self_attr(recv, s) and "param" in recv.attr and m in CONTAINER_MUTATORS:
                return self.event(("mutate", "params", f"self.{recv.attr}.{m}(...)", line), st, cond)
            # foreign.validator()
            if isinstance(recv, ast.Name) and recv.id != s and m == VALIDATOR:
                return self.event(("validate", recv.id, line), st, cond)
            if isinstance(recv, ast.Name) and recv.id != s and m == INVALIDATOR:
                return self.event(("validate", recv.id, line), st, cond)
            if passes_state:
                st = self.event(("mutate", "state", f"self._psi passed to .{m}(...)", line), st, cond)
            if passes_self:
                st = self.event(("havoc", f"self passed to .{m}(...)", line), st, cond)
            return st
        # e.g. SPECIAL_GATES[label](self._psi, ...)
        if passes_state:
            st = self.event(("mutate", "state", "self._psi passed to a computed callable", line), st, cond)
        if passes_self:
            st = self.event(("havoc", "self passed to a computed callable", line), st, cond)
        return st

    def _is_state(self, n):
        return _is_self_attr(n, self.s, STATE) or (isinstance(n, ast.Name) and n.id in self.state_alias)

    # ---------------------------------------------------------------- events
    def event(self, ev, st, cond):
        inv, dirty, stale, fvalid = st
        k = ev[0]
        if k == "validate":
            if cond:
                return st
            if ev[1] == self.s:
                self.touches.add("validate")
                return (frozenset(), dirty, stale, fvalid)
            return (inv, dirty, stale, fvalid | {ev[1]})
        if k == "invalidate":
            self.touches.add("invalidate")
            if cond:
                return st
            return (frozenset(), CLEAN, stale, fvalid)
        if k == "grow":
            self.touches.add("mutate")
            return (inv | {"mut"}, dirty if cond else CLEAN, stale, fvalid)
        if k == "mutate":
            self.touches.add("mutate")
            if self.waive_mut:
                self.notes.setdefault(f"waived ({self.fi.name} is declared representation-only / constructor): {ev[2]} "
                                      f"at line {ev[3]}", None)
                return st
            return (inv | {"mut"}, DIRTY, stale, fvalid)
        if k == "shrink":
            self.touches.add("mutate")
            if self.fi.name not in CONSTRUCTORS:
                self.flag("R3", ev[2], f"{ev[1]}: the gate list must only grow (the validator compares a counter)")
            return (inv | {"mut"}, DIRTY if self.fi.name not in CONSTRUCTORS else dirty, stale, fvalid)
        if k == "havoc":
            return (inv | {"mut"}, dirty, stale, fvalid)
        if k == "yield":
            self.touches.add("yield")
            return (inv | {"yield"}, dirty, stale | frozenset(self.tainted), frozenset())
        if k == "callself":
            tgt, line, yf = ev[1], ev[2], ev[3]
            self.an.callers.setdefault((self.ctx.name, tgt.qual), set()).add(self.fi.qual)
            sm = self.an.summary(self.ctx, tgt)
            if sm.touches - {"yield"}:
                self.touches.add("call")
            cinv = sm.inv_exit - {"entry"}
            if not yf:
                cinv = cinv - {"yield"}
            elif sm.is_generator:
                self.touches.add("yield")
            ninv = (inv if "entry" in sm.inv_exit else frozenset()) | cinv
            ndirty = dirty if sm.dirty_exit == IN else sm.dirty_exit
            if cond:  # conditional evaluation: keep the pessimistic side
                ninv, ndirty = inv | ninv, max(dirty, ndirty)
            nstale = stale | (frozenset(self.tainted) if (yf and "yield" in sm.inv_exit) else frozenset())
            return (ninv, ndirty, nstale, fvalid)
        if k == "access":
            r, field, line, how, value = ev[1], ev[2], ev[3], ev[4], ev[5]
            self.touches.add("cache")
            if r == self.s:
                if self.exempt:
                    if how == "store" and self.fi.name in CONSTRUCTORS:
                        self.r4.setdefault(r, {})[field] = value
                    return st
                self._check_valid(inv, line, f"self.{field}")
                return st
            if r in self.tainted:  # cache-owned object: covered by valid(self)
                if r in stale:
                    self.flag("R2", line, f"cache-owned object '{r}' obtained before a yield is used after it")
                self._check_valid(inv, line, f"{r}.{field} (object owned by self's cache)")
                return st
            if r in self.fresh and how == "store":
                self.r4.setdefault(r, {})[field] = value
                return st
            if r not in fvalid:
                self.flag("R1", line, f"{how} of {r}.{field}: foreign receiver '{r}' is not validated on this path")
            return st
        return st

    def _check_valid(self, inv, line, what):
        if "yield" in inv:
            self.flag("R2", line, f"access to {what} after a yield without re-validation")
        if "mut" in inv:
            self.flag("R1", line, f"access to {what} after an operation that may change gates / parameters / state, "
                                  f"without re-validation")
        if "entry" in inv:
            self.flag("R1", line, f"access to {what} not dominated by a {VALIDATOR}() call")


# ---------------------------------------------------------------------------------------------------------------------
#  R5: free variables of a cached value versus its key
# ---------------------------------------------------------------------------------------------------------------------

def _names(node):
    return {n.id for n in ast.walk(node) if isinstance(n, ast.Name)} if node is not None else set()


def _target_names(t):
    if isinstance(t, ast.Name):
        return [t.id]
    if isinstance(t, (ast.Tuple, ast.List)):
        return [n for e in t.elts for n in _target_names(e)]
    if isinstance(t, ast.Starred):
        return _target_names(t.value)
    return []


def r5_uncovered(fi, line, key_node, value_node, recv):
    """parameters of the method the cached value depends on (flow-insensitive data dependence inside the method) that
    are neither named in the key expression, nor self-state, nor the receiver"""
    params = set(fi.params) - {fi.selfname}
    defs = {}

    def add(name, lineno, names):
        defs.setdefault(name, []).append((lineno, set(names)))

    for n in _walk_same_scope(fi.node):
        if isinstance(n, ast.Assign):
            for t in n.targets:
                for nm in _target_names(t):
                    add(nm, n.lineno, _names(n.value))
                if isinstance(t, (ast.Subscript, ast.Attribute)):
                    base = t
                    while isinstance(base, (ast.Subscript, ast.Attribute)):
                        base = base.value
                    if isinstance(base, ast.Name):
                        add(base.id, n.lineno, _names(n.value) | (_names(t.slice) if isinstance(t, ast.Subscript) else set()))
        elif isinstance(n, ast.AugAssign):
            for nm in _target_names(n.target):
                add(nm, n.lineno, _names(n.value))
        elif isinstance(n, (ast.For, ast.AsyncFor)):
            for nm in _target_names(n.target):
                add(nm, n.lineno, _names(n.iter))
        elif isinstance(n, ast.comprehension):
            for nm in _target_names(n.target):
                add(nm, getattr(n.iter, "lineno", 0), _names(n.iter))
        elif isinstance(n, (ast.With, ast.AsyncWith)):
            for it in n.items:
                if it.optional_vars is not None:
                    for nm in _target_names(it.optional_vars):
                        add(nm, n.lineno, _names(it.context_expr))
        elif isinstance(n, ast.NamedExpr):
            add(n.target.id, n.lineno, _names(n.value))
        elif isinstance(n, ast.Expr) and isinstance(n.value, ast.Call) and isinstance(n.value.func, ast.Attribute):
            base = n.value.func.value
            while isinstance(base, (ast.Subscript, ast.Attribute)):
                base = base.value
            if isinstance(base, ast.Name):  # x.m(args): x may be updated from the arguments
                add(base.id, n.lineno, set().union(*[_names(a) for a in n.value.args],
                                                   *[_names(k.value) for k in n.value.keywords]) if
                    (n.value.args or n.value.keywords) else set())
    # definitions that can reach the store: those textually before it, plus (back edges) those inside the outermost
    # loop that encloses the store
    bound = line
    for n in _walk_same_scope(fi.node):
        if isinstance(n, (ast.For, ast.AsyncFor, ast.While)) and n.lineno <= line <= (n.end_lineno or n.lineno):
            bound = max(bound, n.end_lineno or line)
    defs = {k: [d for d in v if d[0] <= bound] for k, v in defs.items()}
    key_names = _names(key_node)
    if isinstance(key_node, ast.Name) and key_node.id in defs:
        prior = [d for d in defs[key_node.id] if d[0] <= line]
        if prior:
            key_names |= max(prior, key=lambda d: d[0])[1]
    covered = key_names | {fi.selfname, recv}
    work, seen, reached = set(_names(value_node)), set(), set()
    while work:
        nm = work.pop()
        if nm in seen:
            continue
        seen.add(nm)
        if nm in covered:
            continue
        if nm in params:
            reached.add(nm)
        for _, ns in defs.get(nm, []):
            work |= ns
    return sorted(reached - covered), sorted(key_names)


# ---------------------------------------------------------------------------------------------------------------------
#  native replays attached to failed obligations
# ---------------------------------------------------------------------------------------------------------------------

def _exec_replay(script):
    """run a replay script natively; the script sets `observed` (dict) and `reproduced` (bool)"""
    ns = {}
    try:
        import warnings
        with warnings.catch_warnings():
            warnings.simplefilter("ignore")
            with _budget(60):
                exec(script, ns)
        return ns.get("observed"), bool(ns.get("reproduced"))
    except _Timeout:
        return dict(error="replay timed out"), False
    except Exception as e:
        return dict(error=f"{type(e).__name__}: {e}"[:300]), False


def replay_generator(cls_names, meth, params):
    """interleave a gate with a running generator query on the real class.  State |0>|+>|0>; after the first sample an
    X is applied to qubit 0, so under the gates applied so far every later sample has qubit 0 = '1' with certainty: a
    later sample starting with '0' has probability exactly 0 in the current circuit"""
    extra = ""
    if "marginal_qubits" in params:
        extra += ", marginal_qubits=(0, 1)"
    if "fix" in params:
        extra += ", fix={2: '0'}"
    out = None
    for cn in cls_names:
        script = (
            "import quimb.tensor as qtn\n"
            f"circ = qtn.{cn}(3)\n"
            "circ.apply_gate('H', 1)\n"
            f"it = circ.{meth}(30, seed=0{extra})\n"
            "first = next(it)\n"
            "circ.apply_gate('X', 0)      # from now on qubit 0 is '1' with certainty\n"
            "rest = list(it)\n"
            f"fresh = list(circ.{meth}(30, seed=1{extra}))\n"
            "observed = dict(first=first, remaining=len(rest), remaining_with_qubit0_equal_0=sum(s[0] == '0' for s in rest),\n"
            "                fresh_generator_with_qubit0_equal_0=sum(s[0] == '0' for s in fresh), examples=rest[:4])\n"
            "# expected: no sample drawn after the X gate starts with '0' (probability 0 for the gates applied so far)\n"
            "reproduced = observed['remaining_with_qubit0_equal_0'] > 0 and observed['fresh_generator_with_qubit0_equal_0'] == 0\n")
        ob, rep = _exec_replay(script)
        rec = dict(cls=cn, script=script, observed=ob, reproduced=rep,
                   expected="no sample drawn after the X gate starts with '0' (probability 0 for the gates applied so far)")
        if out is None or (rep and not out.get("reproduced")):
            out = rec
        if rep:
            break
    return out


def replay_copy(cls_names):
    out = None
    for cn in cls_names:
        script = (
            "import quimb.tensor as qtn\n"
            f"circ = qtn.{cn}(2); circ.apply_gate('H', 0); circ.apply_gate('H', 1)\n"
            "list(circ.sample(1, seed=0, group_size=1))      # fills part of the conditional cache\n"
            "c2 = circ.copy()                                # copies stamp + two of the cache fields\n"
            "try:\n"
            "    observed = dict(samples=list(c2.sample(20, seed=1, group_size=1)))\n"
            "except Exception as e:\n"
            "    observed = dict(exception=f'{type(e).__name__}: {e}', copy_has_size_field=hasattr(c2, '_marginal_storage_size'),\n"
            "                    copy_stamp=c2._sample_n_gates, copy_num_gates=c2.num_gates)\n"
            "reproduced = 'AttributeError' in observed.get('exception', '')\n")
        ob, rep = _exec_replay(script)
        rec = dict(cls=cn, script=script, observed=ob, reproduced=rep,
                   expected="sampling a copy works like sampling the original")
        if out is None or rep:
            out = rec
        if rep:
            break
    return out


class NativeReplayHook:
    """lets vf.framework.write_replay_ob re-run, in an isolated process, the native replay script attached to the model
    of a failed provider obligation (registered in pyvc.REGISTRY under the obligation's function id at run time only;
    it is not an E1 contract and is never verified)"""

    def __init__(self, target):
        self.target = target
        self.bounded = ()

    def replay(self, model):
        nr = (model or {}).get("native_replay") if isinstance(model, dict) else None
        if not nr or not nr.get("script"):
            return dict(reproduced=False, note="no native replay attached to this obligation")
        ob, rep = _exec_replay(nr["script"])
        return dict(script=nr["script"], observed=ob, reproduced=rep, expected=nr.get("expected"))


def _register_replay_hooks(obs):
    try:
        from vf import pyvc
    except Exception:
        return
    for o in obs:
        if o.status == "failed" and isinstance(o.model, dict) and o.model.get("native_replay") and o.function:
            pyvc.REGISTRY.setdefault(o.function, NativeReplayHook(o.function))


# ---------------------------------------------------------------------------------------------------------------------
#  leaf obligations: the declared summaries are what the code does
# ---------------------------------------------------------------------------------------------------------------------

def _body_wo_doc(node):
    b = list(node.body)
    if b and isinstance(b[0], ast.Expr) and isinstance(b[0].value, ast.Constant) and isinstance(b[0].value.value, str):
        b = b[1:]
    return b


def _calls_super(fi, name):
    for n in ast.walk(fi.node):
        if isinstance(n, ast.Call) and isinstance(n.func, ast.Attribute) and n.func.attr == name \
                and isinstance(n.func.value, ast.Call) and isinstance(n.func.value.func, ast.Name) \
                and n.func.value.func.id == "super":
            return True
    return False


def _leaf_obligations(h, an, obs):
    for c in h.circuit_classes:
        fi = c.methods.get(VALIDATOR)
        if fi is not None:
            s, b = fi.selfname, _body_wo_doc(fi.node)
            ok = False
            if len(b) == 1 and isinstance(b[0], ast.If) and not b[0].orelse and isinstance(b[0].test, ast.Compare) \
                    and len(b[0].test.ops) == 1 and isinstance(b[0].test.ops[0], ast.NotEq):
                l, r = b[0].test.left, b[0].test.comparators[0]
                pair = {(_is_self_attr(l, s, STAMP), _is_self_attr(r, s, COUNTER_PROP)),
                        (_is_self_attr(r, s, STAMP), _is_self_attr(l, s, COUNTER_PROP))}
                body = b[0].body
                ok = (True, True) in pair and len(body) == 1 and isinstance(body[0], ast.Expr) \
                    and isinstance(body[0].value, ast.Call) and _is_self_attr(body[0].value.func, s, INVALIDATOR)
            ok = ok or (c is not h.base and _calls_super(fi, VALIDATOR))
            obs.append(ObResult(f"{c.rel}::{c.name}.{VALIDATOR}::cache-leaf-validator", "typestate",
                                "discharged" if ok else "failed", "ast", 0.0, function=f"{c.rel}::{c.name}.{VALIDATOR}",
                                engine="E4", line=fi.node.lineno,
                                detail=f"expects: if self.{STAMP} != self.{COUNTER_PROP}: self.{INVALIDATOR}()",
                                model=None if ok else dict(source=ast.unparse(fi.node))))
        fi = c.methods.get(INVALIDATOR)
        if fi is not None:
            s = fi.selfname
            reset, stamp_ok = set(), False
            for n in _body_wo_doc(fi.node):
                if isinstance(n, ast.Expr) and isinstance(n.value, ast.Call) and isinstance(n.value.func, ast.Attribute) \
                        and n.value.func.attr == "clear" and _is_self_attr(n.value.func.value, s):
                    reset.add(n.value.func.value.attr)
                if isinstance(n, ast.Assign) and len(n.targets) == 1 and _is_self_attr(n.targets[0], s):
                    f, v = n.targets[0].attr, n.value
                    if f == STAMP:
                        stamp_ok = _is_self_attr(v, s, COUNTER_PROP) or (
                            isinstance(v, ast.Call) and isinstance(v.func, ast.Name) and v.func.id == "len"
                            and v.args and _is_self_attr(v.args[0], s, GATE_LIST))
                        if stamp_ok:
                            reset.add(f)
                    elif isinstance(v, ast.Constant) or (isinstance(v, (ast.Dict, ast.List, ast.Set, ast.Tuple))
                                                         and not (getattr(v, "keys", None) or getattr(v, "elts", None))) \
                            or (isinstance(v, ast.Call) and isinstance(v.func, ast.Name) and v.func.id in
                                ("dict", "list", "set") and not v.args):
                        reset.add(f)
            sup = c is not h.base and _calls_super(fi, INVALIDATOR)
            missing = sorted(an.cache_fields - reset) if not sup else []
            ok = not missing
            obs.append(ObResult(f"{c.rel}::{c.name}.{INVALIDATOR}::cache-leaf-invalidator", "typestate",
                                "discharged" if ok else "failed", "ast", 0.0, function=f"{c.rel}::{c.name}.{INVALIDATOR}",
                                engine="E4", line=fi.node.lineno,
                                detail=dict(resets=sorted(reset), cache_fields=sorted(an.cache_fields)),
                                model=None if ok else dict(not_reset=missing, source=ast.unparse(fi.node))))
        fi = c.methods.get(COUNTER_PROP)
        if fi is not None:
            s, b = fi.selfname, _body_wo_doc(fi.node)
            ok = fi.kind == "property" and len(b) == 1 and isinstance(b[0], ast.Return) and isinstance(b[0].value, ast.Call) \
                and isinstance(b[0].value.func, ast.Name) and b[0].value.func.id == "len" and b[0].value.args \
                and _is_self_attr(b[0].value.args[0], s, GATE_LIST)
            obs.append(ObResult(f"{c.rel}::{c.name}.{COUNTER_PROP}::cache-leaf-counter", "typestate",
                                "discharged" if ok else "failed", "ast", 0.0,
                                function=f"{c.rel}::{c.name}.{COUNTER_PROP}", engine="E4", line=fi.node.lineno,
                                detail=f"expects: property returning len(self.{GATE_LIST})",
                                model=None if ok else dict(source=ast.unparse(fi.node))))


def _r4_verdict(an, fields_written, creates_raw, is_ctor):
    """fields_written: {field: value node}.  returns (ok, reason)"""
    W = set(fields_written)
    ALL = set(an.cache_fields)
    if not W and not creates_raw and not is_ctor:
        return True, "writes no cache field of another object"
    if W == ALL:
        return True, "all cache fields written"
    v = fields_written.get(STAMP)
    neg_const = (isinstance(v, ast.UnaryOp) and isinstance(v.op, ast.USub) and isinstance(v.operand, ast.Constant)
                 and isinstance(v.operand.value, (int, float)) and v.operand.value > 0) or \
                (isinstance(v, ast.Constant) and isinstance(v.value, (int, float)) and v.value < 0)
    if neg_const and an.containers <= W:
        return True, (f"object left recognisably invalid: stamp = negative constant, containers the invalidator clears "
                      f"({sorted(an.containers)}) initialised; the first validator call creates the rest")
    missing = sorted(ALL - W)
    return False, (f"writes {sorted(W)} but not {missing}; the stamp is "
                   f"{'copied / non-constant' if STAMP in W and not neg_const else 'not written'}, so the new object can "
                   f"count as valid while {missing} do not exist")


def provider_cache(tier="quick", root=None, replays=True):
    t0 = time.time()
    obs = []
    try:
        h = Hierarchy(root)
    except Exception as e:
        return [ObResult(f"{CIRC}::cache-census", "typestate", "unknown", "ast", 0.0, function=CIRC, engine="E4",
                         detail=f"cannot parse: {type(e).__name__}: {e}")]
    if h.base is None:
        return [ObResult(f"{CIRC}::cache-census", "typestate", "unknown", "ast", 0.0, function=CIRC, engine="E4",
                         detail=f"no class defines the declared validator {VALIDATOR}")]
    an = CacheAnalysis(h)
    # pass 1: all summaries in all contexts (fills the caller map)
    table = []
    for c in h.circuit_classes:
        for fi in c.methods.values():
            try:
                ctxs = h.subclasses_inheriting(fi)
                table.append((c, fi, ctxs, {k.name: an.summary(k, fi) for k in ctxs}))
            except Exception as e:  # construct the analysis does not understand: undecided, never a violation
                import traceback
                obs.append(ObResult(f"{c.rel}::{fi.qual}::cache-analysis", "typestate", "unknown", "ast", 0.0,
                                    function=f"{c.rel}::{fi.qual}", engine="E4", line=fi.node.lineno,
                                    detail=f"{type(e).__name__}: {e} | {traceback.format_exc()[-400:]}"))
    _leaf_obligations(h, an, obs)
    importable = set()
    try:
        import quimb.tensor as qtn
        importable = {k.name for k in h.circuit_classes if hasattr(qtn, k.name)}
    except Exception:
        pass
    n_access = n_gen = 0
    unresolved = set()
    for c, fi, ctxs, sums in table:
        fid = f"{c.rel}::{fi.qual}"
        byrule = {}
        touches, notes = set(), []
        for kn, sm in sums.items():
            touches |= sm.touches
            unresolved |= sm.unresolved
            for n_ in sm.notes:
                if n_ not in notes:
                    notes.append(n_)
            for rule, line, msg in sm.violations:
                byrule.setdefault(rule, []).append(dict(context=kn, line=line, what=msg))
        if "cache" in touches:
            n_access += 1
        if fi.is_generator:
            n_gen += 1
        ctxnames = [k.name for k in ctxs]
        common = dict(contexts=ctxnames)
        if notes:
            common["notes"] = notes[:8]
        r4_relevant = any(sm.r4 or sm.raw_new for sm in sums.values()) or (fi.name in CONSTRUCTORS and c is h.base)
        r5_relevant = any(sm.r5 for sm in sums.values())
        dirty_ctx = [kn for kn, sm in sums.items() if sm.dirty_exit == DIRTY]
        relevant = touches or byrule or r4_relevant or r5_relevant or fi.is_generator
        if not relevant:
            obs.append(ObResult(f"{fid}::cache-frame", "typestate", "discharged", "ast", 0.0, function=fid, engine="E4",
                                line=fi.node.lineno,
                                detail=dict(common, derived="touches neither the cache nor the gate list / parameters / "
                                                            "state, and calls no method of the hierarchy that does")))
            continue
        emitted = False
        # ---- R1
        if "cache" in touches or "R1" in byrule or "REFLECT" in byrule:
            bad = byrule.get("R1", [])
            st = "failed" if bad else ("unknown" if "REFLECT" in byrule else "discharged")
            obs.append(ObResult(f"{fid}::cache-R1-validated-before-access", "typestate", st, "ast", 0.0, function=fid,
                                engine="E4", line=bad[0]["line"] if bad else fi.node.lineno,
                                detail=dict(common, reflective=byrule.get("REFLECT", []),
                                            exempt=("leaf (validator / invalidator / constructor): checked by cache-leaf-* "
                                                    "and cache-R4") if fi.name in (VALIDATOR, INVALIDATOR) or fi.name in CONSTRUCTORS else None),
                                model=dict(violations=bad) if bad else None))
            emitted = True
        # ---- R2
        if fi.is_generator or "R2" in byrule:
            bad = byrule.get("R2", [])
            model = None
            if bad:
                model = dict(violations=bad)
                if replays:
                    cands = [k for k in ctxnames if k in importable]
                    model["native_replay"] = replay_generator(cands, fi.name, fi.params) if cands else None
            obs.append(ObResult(f"{fid}::cache-R2-revalidated-after-yield", "typestate", "failed" if bad else "discharged",
                                "ast", 0.0, function=fid, engine="E4", line=bad[0]["line"] if bad else fi.node.lineno,
                                detail=common, model=model))
            emitted = True
        # ---- R3
        if touches & {"mutate", "invalidate", "call"} or "R3" in byrule or dirty_ctx:
            bad = list(byrule.get("R3", []))
            carried = None
            if dirty_ctx and fi.name not in CONSTRUCTORS:
                if fi.public or fi.kind in ("property", "setter"):
                    bad.append(dict(context=dirty_ctx, line=fi.node.lineno,
                                    what="a normal exit is reachable with a change of gate record / parameters / state "
                                         "that is followed neither by clear_storage() nor by an append to the gate list"))
                else:
                    callers = sorted(set().union(*[an.callers.get((kn, fi.qual), set()) for kn in dirty_ctx]))
                    if callers:
                        carried = callers
                    else:
                        bad.append(dict(context=dirty_ctx, line=fi.node.lineno,
                                        what="private helper leaves the cache stale and no method of the hierarchy calls "
                                             "it (nothing re-establishes the invariant)"))
            det = dict(common)
            if carried:
                det["summary"] = "leaves the cache stale on exit; the obligation is carried by its callers, each of which " \
                                 "is checked with this summary"
                det["callers"] = carried
            if fi.name in REPR_ONLY_METHODS:
                det["assumption"] = REPR_ONLY_METHODS[fi.name]
            obs.append(ObResult(f"{fid}::cache-R3-mutation-ends-invalidated", "typestate",
                                "failed" if bad else "discharged", "ast", 0.0, function=fid, engine="E4",
                                line=bad[0]["line"] if bad else fi.node.lineno, detail=det,
                                model=dict(violations=bad) if bad else None))
            emitted = True
        # ---- R4
        if r4_relevant:
            bad, reasons = [], []
            for kn, sm in sums.items():
                recvs = dict(sm.r4)
                for nm in sm.raw_new:
                    recvs.setdefault(nm, {})
                if fi.name in CONSTRUCTORS and c is h.base:
                    recvs.setdefault(fi.selfname, {})
                for r, fw in recvs.items():
                    ok, why = _r4_verdict(an, fw, r in sm.raw_new, fi.name in CONSTRUCTORS)
                    reasons.append(f"{r}: {why}")
                    if not ok:
                        bad.append(dict(context=kn, receiver=r, what=why))
                break  # identical in every context (syntactic)
            model = None
            if bad:
                model = dict(violations=bad)
                if replays:
                    # any class of the hierarchy that inherits this method and has a caching sampler
                    cands = [k for k in ["Circuit", "CircuitDense"] + ctxnames if k in importable]
                    model["native_replay"] = replay_copy(cands[:2]) if cands else None
            obs.append(ObResult(f"{fid}::cache-R4-copy-atomic", "typestate", "failed" if bad else "discharged", "ast", 0.0,
                                function=fid, engine="E4", line=fi.node.lineno,
                                detail=dict(common, verdicts=reasons, cache_fields=sorted(an.cache_fields)), model=model))
            emitted = True
        # ---- R5
        if r5_relevant:
            sm = next(iter(sums.values()))
            bad, assumed, stores = [], {}, []
            for line, container, key_node, value_node, recv in sm.r5:
                unc, keyn = r5_uncovered(fi, line, key_node, value_node, recv)
                hard = [a for a in unc if a not in REPR_ONLY_ARGS]
                for a in unc:
                    if a in REPR_ONLY_ARGS:
                        assumed[a] = REPR_ONLY_ARGS[a]
                stores.append(dict(line=line, container=f"{recv}.{container}", key=ast.unparse(key_node),
                                   key_variables=keyn, not_in_key=unc))
                if hard:
                    bad.append(dict(line=line, container=f"{recv}.{container}", key=ast.unparse(key_node),
                                    what=f"the cached value depends on {hard}, which the key does not contain and which "
                                         f"are not declared representation-only: a later call with a different value "
                                         f"is answered from the entry computed for the earlier one"))
            obs.append(ObResult(f"{fid}::cache-R5-key-covers-dependencies", "typestate",
                                "failed" if bad else "discharged", "ast", 0.0, function=fid, engine="E4",
                                line=bad[0]["line"] if bad else fi.node.lineno,
                                detail=dict(common, stores=stores, assumed_representation_only=assumed),
                                model=dict(violations=bad) if bad else None))
            emitted = True
        if not emitted:
            obs.append(ObResult(f"{fid}::cache-frame", "typestate", "discharged", "ast", 0.0, function=fid, engine="E4",
                                line=fi.node.lineno, detail=common))
    # nobody outside the methods of the hierarchy touches the cache fields (module-level helpers, other classes, other
    # modules of the package): otherwise the per-method rules would not cover every access
    outside = []
    circ_methods = {id(fi.node) for c in h.circuit_classes for fi in c.methods.values()}
    pkg = os.path.join(h.root, "quimb")
    for dp, dn, fns in os.walk(pkg):
        dn[:] = [d for d in dn if d != "__pycache__"]
        for fn in fns:
            if not fn.endswith(".py"):
                continue
            path = os.path.join(dp, fn)
            try:
                txt = open(path).read()
            except OSError:
                continue
            if not any(f in txt for f in an.cache_fields):
                continue
            rel = os.path.relpath(path, h.root)
            try:
                tree = _parse(txt)
            except SyntaxError:
                outside.append(f"{rel}: unparsable")
                continue
            covered = set()
            for n in ast.walk(tree):
                if isinstance(n, ast.ClassDef) and n.name in h.classes and h.classes[n.name] in h.circuit_classes \
                        and h.classes[n.name].rel == rel:
                    for m in n.body:
                        if isinstance(m, (ast.FunctionDef, ast.AsyncFunctionDef)):
                            covered |= {id(x) for x in ast.walk(m)}
            for n in ast.walk(tree):
                if isinstance(n, ast.Attribute) and n.attr in an.cache_fields and id(n) not in covered:
                    outside.append(f"{rel}:{n.lineno}: {ast.unparse(n)}")
                if isinstance(n, ast.Constant) and isinstance(n.value, str) and n.value in an.cache_fields \
                        and id(n) not in covered:
                    outside.append(f"{rel}:{n.lineno}: string {n.value!r}")
    obs.append(ObResult(f"{CIRC}::cache-census-no-access-outside-the-hierarchy", "typestate",
                        "failed" if outside else "discharged", "ast", 0.0, function=CIRC, engine="E4",
                        detail=dict(scanned=os.path.relpath(pkg, h.root), fields=sorted(an.cache_fields)),
                        model=dict(accesses_outside=outside[:20]) if outside else None))
    # census / vacuity guard
    ok = n_access >= 8 and n_gen >= 4 and len(h.circuit_classes) >= 4 and set(DECLARED_CACHE_FIELDS) <= an.cache_fields
    obs.append(ObResult(f"{CIRC}::cache-census", "typestate", "discharged" if ok else "unknown", "ast",
                        time.time() - t0, function=CIRC, engine="E4",
                        detail=dict(classes=[f"{k.rel}::{k.name}" for k in h.circuit_classes], methods=len(table),
                                    methods_touching_cache=n_access, generators=n_gen,
                                    cache_fields=sorted(an.cache_fields), containers=sorted(an.containers),
                                    assumed_pure_unresolved_self_calls=sorted(unresolved),
                                    floors="methods_touching_cache>=8, generators>=4, classes>=4")))
    per = (time.time() - t0) / max(1, len(obs))
    for o in obs:
        if o.solver_s == 0.0:
            o.solver_s = per
    if replays:
        _register_replay_hooks(obs)
    return obs


PROVIDERS = [provider_gates, provider_cache]
