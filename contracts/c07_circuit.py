"""C07 -- circuit simulators.

Provider 1 (E2, ``provider_gates``):  every registered gate is unitary for all real parameter values and equals its
textbook definition.  The REAL builder functions of quimb/tensor/circuit/gates.py (loaded from the source text of the
repository under verification) are executed on sympy real symbols through autoray (backend 'sympy'; the functions the
builders reach through ``do(...)`` that sympy lacks -- complex, stack, array, tensordot, transpose, einsum, reshape --
are registered here).  The resulting entries are trigonometric polynomials.  They are decided exactly:

   * every parameter p_k that occurs under cos / sin gets the pair (c_k, s_k) = (cos(p_k/D_k), sin(p_k/D_k)),
     every parameter that only occurs as a pure phase exp(i q p_k) gets z_k = exp(i p_k/D_k) (conjugate = 1/z_k);
   * U^dagger U - I (resp. U - U_textbook) becomes a polynomial in (c, s, z) over Q(i)[sqrt 2], which is reduced
     modulo the Groebner basis {s_k^2 + c_k^2 - 1} (disjoint variables, so the normal form is unique);
   * normal form 0  <=>  identity for all real parameters (the real points of a product of circles / the unit
     circle are Zariski dense), so this is a decision procedure and not a heuristic simplification.
   A non-zero normal form is only reported 'failed' together with a concrete numeric parameter point at which the
   real builder (run on numpy floats) violates the identity by more than 1e-9; otherwise 'unknown'.

Provider 2 (E4, ``provider_cache``): typestate of the query cache, by reflection over the AST of every class of
quimb/tensor/circuit/*.py that derives from the class defining the validator.  See the section header below.

Provider 3 is not implemented: ``get_reverse_lightcone_tags`` closure and ``CircuitPermMPS._apply_gate`` permutation
bookkeeping are left to the bounded drivers (drivers/c07.py).
"""

from __future__ import annotations

import ast
import importlib
import importlib.util
import math
import os
import signal
import sys
import threading
import time
from fractions import Fraction

try:
    from vf.framework import ObResult
except Exception:  # pragma: no cover - standalone use
    class ObResult:  # minimal stand-in with the same fields
        def __init__(self, id, kind, status, backend, solver_s, function=None, model=None, line=None, detail=None,
                     engine="E1"):
            self.__dict__.update(locals())

CIRC = "quimb/tensor/circuit"
GATES = f"{CIRC}/gates.py"
PER_GATE_BUDGET_S = 30.0


def repo_root():
    return os.environ.get("VERIF_REPO", "/repo")


class _Timeout(Exception):
    pass


class _budget:
    """wall-clock budget for one obligation (SIGALRM; only in the main thread, otherwise no limit)"""

    def __init__(self, seconds):
        self.s = seconds
        self.active = threading.current_thread() is threading.main_thread() and hasattr(signal, "setitimer")

    def __enter__(self):
        if self.active:
            def h(signum, frame):
                raise _Timeout()
            self.old = signal.signal(signal.SIGALRM, h)
            signal.setitimer(signal.ITIMER_REAL, self.s)
        return self

    def __exit__(self, *exc):
        if self.active:
            signal.setitimer(signal.ITIMER_REAL, 0)
            signal.signal(signal.SIGALRM, self.old)
        return False


# =====================================================================================================================
#  Provider 1 -- E2: the real gate builders on sympy symbols
# =====================================================================================================================

_SYMPY_READY = {}


def _sympy_backend():
    """register what the builders call through autoray and sympy does not provide; returns (sp, SArr)"""
    if _SYMPY_READY:
        return _SYMPY_READY["sp"], _SYMPY_READY["SArr"]
    import autoray as ar
    import numpy as np
    import sympy as sp
    from sympy.tensor.array import ImmutableDenseNDimArray

    class SArr(ImmutableDenseNDimArray):
        """sympy n-d array with the one numpy attribute su4_gate_param_gen asks for"""
        dtype = "complex128"

    ar.register_backend(SArr, "sympy")

    def tolist(x):
        return x.tolist() if isinstance(x, sp.NDimArray) else x

    def tonp(a):
        return np.array(tolist(a), dtype=object).reshape(getattr(a, "shape", ()))

    def exact_number(v):
        v = complex(v)
        re, im = Fraction(v.real), Fraction(v.imag)  # doubles are dyadic rationals: exact
        return sp.Rational(re.numerator, re.denominator) + sp.I * sp.Rational(im.numerator, im.denominator)

    def array(x, dtype=None, like=None, **kw):
        if isinstance(x, np.ndarray):
            return SArr(np.vectorize(exact_number, otypes=[object])(np.asarray(x)).tolist())
        return SArr(tolist(x))

    ar.register_function("sympy", "complex", lambda re, im: re + sp.I * im)
    ar.register_function("sympy", "stack", lambda xs, axis=0: SArr([tolist(x) for x in xs]))
    ar.register_function("sympy", "array", array)
    ar.register_function("sympy", "asarray", array)
    ar.register_function("sympy", "tensordot", lambda a, b, axes=2: SArr(np.tensordot(tonp(a), tonp(b), axes).tolist()))
    ar.register_function("sympy", "transpose", lambda a, axes=None: SArr(np.transpose(tonp(a), axes).tolist()))
    ar.register_function("sympy", "einsum", lambda eq, *xs, **kw: SArr(np.einsum(eq, *map(tonp, xs)).tolist()))
    ar.register_function("sympy", "reshape", lambda a, shape: SArr(tonp(a).reshape(shape).tolist()))
    _SYMPY_READY.update(sp=sp, SArr=SArr)
    return sp, SArr


def load_gates_module(root=None):
    """execute the text of <root>/quimb/tensor/circuit/gates.py as a fresh module inside the installed package
    (relative imports resolve against the importable quimb), so that a scratch copy of the one file can be checked"""
    root = root or repo_root()
    path = os.path.join(root, GATES)
    importlib.import_module("quimb.tensor.circuit")
    name = "quimb.tensor.circuit._verif_c07_gates"
    spec = importlib.util.spec_from_file_location(name, path)
    mod = importlib.util.module_from_spec(spec)
    sys.modules[name] = mod
    try:
        spec.loader.exec_module(mod)
    finally:
        sys.modules.pop(name, None)
    return mod


def _n_params(fn, src_tree):
    """number of parameters a builder reads: largest constant index / slice bound on its ``params`` argument,
    following calls to other builders that are handed ``params`` itself (cu3 -> u3)"""
    defs = {n.name: n for n in ast.walk(src_tree) if isinstance(n, ast.FunctionDef)}

    def scan(name, seen):
        node = defs.get(name)
        if node is None or name in seen or not node.args.args:
            return 0
        seen.add(name)
        p = node.args.args[0].arg
        n = 0
        for x in ast.walk(node):
            if isinstance(x, ast.Subscript) and isinstance(x.value, ast.Name) and x.value.id == p:
                s = x.slice
                if isinstance(s, ast.Constant) and isinstance(s.value, int):
                    n = max(n, s.value + 1)
                elif isinstance(s, ast.Slice) and isinstance(s.upper, ast.Constant):
                    n = max(n, s.upper.value)
            if isinstance(x, ast.Call) and isinstance(x.func, ast.Name) and x.func.id in defs and x.args \
                    and isinstance(x.args[0], ast.Name) and x.args[0].id == p:
                n = max(n, scan(x.func.id, seen))
        return n

    return scan(fn.__name__, set())


# closed forms that float literals / constant arrays are allowed to stand for (checked to 1 ulp, listed in evidence)
def _closed_form_candidates(sp):
    out = []
    for r in (sp.Integer(1), sp.sqrt(2), sp.sqrt(3)):
        for q in (1, 2, 4, 8):
            for p in range(-8, 9):
                out.append(sp.Rational(p, q) * r)
    return out


_CANDS = {}


def _recognise(v, sp):
    """closed form within 1 ulp of the double v: ('exact'|'closed-form'|None, value)"""
    fr = Fraction(float(v))
    if fr.denominator <= 2 ** 20:  # small dyadic rational: the double IS this number
        return "exact", sp.Rational(fr.numerator, fr.denominator)
    if "c" not in _CANDS:
        _CANDS["c"] = [(float(c), c) for c in _closed_form_candidates(sp)]
    ulp = math.ulp(float(v))
    best = None
    for f, c in _CANDS["c"]:
        if abs(f - float(v)) <= ulp and (best is None or abs(f - float(v)) < best[0]):
            best = (abs(f - float(v)), c)
    if best is not None:
        return "closed-form", best[1]
    return None, sp.Rational(fr.numerator, fr.denominator)


def _defloat(expr, sp, log):
    """float literals of the source: small dyadic rationals are exact; roundings of closed forms (2**0.5) are
    replaced by the closed form (within 1 ulp) and the substitution is logged; anything else keeps the exact value
    of the double"""
    rep = {}
    for f in expr.atoms(sp.Float):
        how, c = _recognise(float(f), sp)
        rep[f] = c
        if how == "closed-form":
            log.add(f"{float(f)!r} -> {c}")
        elif how is None:
            log.add(f"{float(f)!r} kept as the exact rational value of the double")
    return expr.xreplace(rep) if rep else expr


class TrigRing:
    """Q(i)[sqrt2][c_k, s_k, z_k] / (s_k^2 + c_k^2 - 1): exact decision of trigonometric polynomial identities"""

    def __init__(self, sp, params):
        self.sp = sp
        self.params = list(params)
        self.kind = {}      # param -> 'trig' | 'phase'
        self.den = {}       # param -> D_k
        self.exprs = []
        self.gens = None

    # ---- pass 1: collect how every parameter occurs
    def _linear(self, arg):
        sp = self.sp
        lin = sp.expand(arg)
        cs = [lin.coeff(p) for p in self.params]
        rest = sp.expand(lin - sum(c * p for c, p in zip(cs, self.params)))
        if rest != 0 or not all(c.is_Rational for c in cs):
            raise ValueError(f"argument not a rational linear form in the parameters: {arg}")
        return cs

    def scan(self, expr):
        sp = self.sp
        for a in expr.atoms(sp.cos, sp.sin):
            for c, p in zip(self._linear(a.args[0]), self.params):
                if c != 0:
                    self.kind[p] = "trig"
                    self.den[p] = math.lcm(self.den.get(p, 1), int(c.q))
        for a in expr.atoms(sp.exp):
            for c, p in zip(self._linear(a.args[0] / sp.I), self.params):
                if c != 0:
                    self.kind.setdefault(p, "phase")
                    self.den[p] = math.lcm(self.den.get(p, 1), int(c.q))

    def freeze(self):
        sp = self.sp
        self.c = {p: sp.Symbol(f"c_{p}", real=True) for p in self.params if self.kind.get(p) == "trig"}
        self.s = {p: sp.Symbol(f"s_{p}", real=True) for p in self.params if self.kind.get(p) == "trig"}
        self.z = {p: sp.Symbol(f"z_{p}") for p in self.params if self.kind.get(p) == "phase"}
        self.r2 = sp.Symbol("r2")  # sqrt(2)
        # lex order: s before c so that the leading monomial of s^2 + c^2 - 1 is s^2
        self.gens = list(self.s.values()) + list(self.c.values()) + list(self.z.values()) + [self.r2]
        self.angle = {p: sp.Symbol(f"a_{p}", real=True) for p in self.c}

    # ---- pass 2: expression -> Laurent polynomial expression in the generators
    def lower(self, expr):
        sp = self.sp

        def conv_exp(e):
            cs = self._linear(e.args[0] / sp.I)
            out, trig = sp.Integer(1), sp.Integer(0)
            for c, p in zip(cs, self.params):
                if c == 0:
                    continue
                if self.kind[p] == "phase":
                    out *= self.z[p] ** int(c * self.den[p])
                else:
                    trig += c * p
            if trig != 0:
                out *= sp.cos(trig) + sp.I * sp.sin(trig)
            return out

        expr = expr.replace(lambda e: isinstance(e, sp.exp), conv_exp)
        # p_k = D_k a_k, expand multiple angles / sums down to cos(a_k), sin(a_k)
        expr = expr.xreplace({p: self.den[p] * self.angle[p] for p in self.c})
        expr = sp.expand_trig(expr)
        rep = {}
        for p, a in self.angle.items():
            rep[sp.cos(a)] = self.c[p]
            rep[sp.sin(a)] = self.s[p]
        expr = expr.xreplace(rep)
        expr = expr.xreplace({sp.sqrt(2): self.r2})
        expr = sp.expand(expr)
        bad = expr.free_symbols - set(self.gens)
        if bad or expr.atoms(sp.Function):
            raise ValueError(f"entry is not a trigonometric polynomial in the parameters (left over: {bad or expr.atoms(sp.Function)})")
        return expr

    def min_exponents(self, exprs):
        sp = self.sp
        m = {z: 0 for z in self.z.values()}
        m[self.r2] = 0
        for e in exprs:
            for t in sp.Add.make_args(e):
                pd = t.as_powers_dict()
                for z in m:
                    k = pd.get(z, 0)
                    m[z] = min(m[z], int(k))
        return m

    def poly(self, expr, shift):
        sp = self.sp
        from sympy.polys.domains import QQ_I
        mul = sp.Mul(*[z ** (-k) for z, k in shift.items()])
        return sp.Poly(sp.expand(expr * mul), *self.gens, domain=QQ_I)

    def const(self, expr):
        from sympy.polys.domains import QQ_I
        return self.sp.Poly(expr, *self.gens, domain=QQ_I)

    def normal_form(self, poly):
        """reduce modulo s_k^2 -> 1 - c_k^2 and r2^2 -> 2"""
        sp = self.sp
        gens = self.gens
        for p in self.s:
            si, ci = gens.index(self.s[p]), gens.index(self.c[p])
            poly = self._reduce_square(poly, si, lambda q: (1 - self.c[p] ** 2) ** q)
        poly = self._reduce_square(poly, gens.index(self.r2), lambda q: sp.Integer(2) ** q)
        return poly

    def _reduce_square(self, poly, idx, repl):
        sp = self.sp
        groups = {}
        for mon, co in poly.terms():
            e = mon[idx]
            if e >= 2:
                mon = mon[:idx] + (e % 2,) + mon[idx + 1:]
            groups.setdefault(e // 2, {})
            groups[e // 2][mon] = groups[e // 2].get(mon, 0) + co
        if set(groups) <= {0}:
            return poly
        out = None
        for q, d in groups.items():
            pq = sp.Poly.from_dict(d, *self.gens, domain=poly.domain)
            if q:
                pq = pq * sp.Poly(repl(q), *self.gens, domain=poly.domain)
            out = pq if out is None else out + pq
        return out


def _as_matrix(U, sp):
    """(2,)*2n array -> 2^n x 2^n nested list, row index = output bits big-endian (first listed qubit most
    significant), column index = input bits"""
    shape = tuple(U.shape)
    if len(shape) == 2 and shape[0] == shape[1]:
        n = shape[0]
        return [[U[a, b] for b in range(n)] for a in range(n)]
    assert all(d == 2 for d in shape) and len(shape) % 2 == 0, shape
    nq = len(shape) // 2
    dim = 2 ** nq

    def bits(x):
        return tuple((x >> (nq - 1 - k)) & 1 for k in range(nq))

    return [[U[bits(a) + bits(b)] for b in range(dim)] for a in range(dim)]


def _decide_identities(sp, params, M, T):
    """M: matrix of sympy entries from the real builder; T: textbook matrix or None.
    returns dict(unitary=(bool, info), textbook=(bool|None, info))"""
    n = len(M)
    ring = TrigRing(sp, params)
    ents = [e for row in M for e in row]
    cents = [sp.conjugate(e) for e in ents]
    tents = [e for row in T for e in row] if T is not None else []
    for e in ents + cents + tents:
        ring.scan(e)
    ring.freeze()
    L = [ring.lower(e) for e in ents]
    Lc = [ring.lower(e) for e in cents]
    Lt = [ring.lower(sp.sympify(e)) for e in tents]
    sh = ring.min_exponents(L + Lt)
    shc = ring.min_exponents(Lc)
    P = [ring.poly(e, sh) for e in L]
    Pc = [ring.poly(e, shc) for e in Lc]
    one = ring.const(sp.Mul(*[z ** (-(sh[z] + shc[z])) for z in sh]))
    res = {}
    bad = []
    nterms = max(len(p.terms()) for p in P)
    for a in range(n):
        for b in range(n):
            acc = None
            for c in range(n):
                t = Pc[c * n + a] * P[c * n + b]
                acc = t if acc is None else acc + t
            if a == b:
                acc = acc - one
            acc = ring.normal_form(acc)
            if not acc.is_zero:
                bad.append((a, b, len(acc.terms())))
    res["unitary"] = (not bad, dict(nonzero_entries=bad[:6], max_terms_per_entry=nterms,
                                    generators=[str(g) for g in ring.gens]))
    if T is not None:
        Pt = [ring.poly(e, sh) for e in Lt]
        badt = []
        for k in range(n * n):
            d = ring.normal_form(P[k] - Pt[k])
            if not d.is_zero:
                badt.append((k // n, k % n))
        res["textbook"] = (not badt, dict(differing_entries=badt[:8]))
    return res


# ---------------------------------------------------------------------------------------------------------------------
#  textbook definitions (written here, independent of quimb).  Convention: a gate applied to qubits (q0, q1, ...) has
#  matrix rows/columns indexed by the bit string b_q0 b_q1 ... read as a binary number (first listed qubit = most
#  significant bit); controlled gates are controlled on the FIRST listed qubit(s).  The convention itself is checked
#  natively on the real Circuit class (obligation ...::CX::qubit-ordering-convention).
# ---------------------------------------------------------------------------------------------------------------------

def _textbook(sp):
    I = sp.I
    cos, sin, exp, sqrt, pi = sp.cos, sp.sin, sp.exp, sp.sqrt, sp.pi
    Mx = sp.Matrix
    I2 = sp.eye(2)
    X = Mx([[0, 1], [1, 0]])
    Y = Mx([[0, -I], [I, 0]])
    Z = Mx([[1, 0], [0, -1]])

    def kron(*ms):
        out = ms[0]
        for m in ms[1:]:
            out = sp.kronecker_product(out, m)
        return out

    def rot(Pm, th):  # exp(-i th/2 P) for an involution P
        return cos(th / 2) * sp.eye(Pm.shape[0]) - I * sin(th / 2) * Pm

    def ctrl(U, nc=1):  # |1..1><1..1| (x) U + rest (x) 1, controls first
        d = U.shape[0]
        D = d * 2 ** nc
        out = sp.eye(D)
        out[D - d:, D - d:] = U
        return out

    def u3(t, p, l):
        return Mx([[cos(t / 2), -exp(I * l) * sin(t / 2)], [exp(I * p) * sin(t / 2), exp(I * (p + l)) * cos(t / 2)]])

    def u2(p, l):
        return Mx([[1, -exp(I * l)], [exp(I * p), exp(I * (p + l))]]) / sqrt(2)

    def u1(l):
        return Mx([[1, 0], [0, exp(I * l)]])

    def fsim(t, p):  # Google fSim
        return Mx([[1, 0, 0, 0], [0, cos(t), -I * sin(t), 0], [0, -I * sin(t), cos(t), 0], [0, 0, 0, exp(-I * p)]])

    def fsimg(t, zeta, chi, gamma, phi):  # general number-conserving gate, Arute et al. 2019 supplement eq. (53)
        return Mx([[1, 0, 0, 0],
                   [0, exp(-I * (gamma + zeta)) * cos(t), -I * exp(-I * (gamma - chi)) * sin(t), 0],
                   [0, -I * exp(-I * (gamma + chi)) * sin(t), exp(-I * (gamma - zeta)) * cos(t), 0],
                   [0, 0, 0, exp(-I * (2 * gamma + phi))]])

    def givens(t):  # exp(t (|10><01| - |01><10|))
        return Mx([[1, 0, 0, 0], [0, cos(t), -sin(t), 0], [0, sin(t), cos(t), 0], [0, 0, 0, 1]])

    def givens2(t, p):  # exp(t (e^{-ip}|10><01| - e^{ip}|01><10|))
        return Mx([[1, 0, 0, 0], [0, cos(t), -exp(I * p) * sin(t), 0], [0, exp(-I * p) * sin(t), cos(t), 0], [0, 0, 0, 1]])

    def xx_plus_yy(t, b):
        # qiskit XXPlusYYGate: RZ_0(-b) exp(-i t/2 (XX+YY)/2) RZ_0(b), qubit 0 = first listed qubit
        # (XX+YY)/2 = |01><10| + |10><01| =: S,  exp(-i t/2 S) = 1 + (cos(t/2) - 1) P - i sin(t/2) S
        S = Mx([[0, 0, 0, 0], [0, 0, 1, 0], [0, 1, 0, 0], [0, 0, 0, 0]])
        Pm = sp.diag(0, 1, 1, 0)
        core = sp.eye(4) + (cos(t / 2) - 1) * Pm - I * sin(t / 2) * S
        rz = lambda a: sp.diag(exp(-I * a / 2), exp(I * a / 2))
        return kron(rz(-b), I2) * core * kron(rz(b), I2)

    def xx_minus_yy(t, b):
        # qiskit XXMinusYYGate: RZ_1(b) exp(-i t/2 (XX-YY)/2) RZ_1(-b), qubit 1 = second listed qubit
        S = Mx([[0, 0, 0, 1], [0, 0, 0, 0], [0, 0, 0, 0], [1, 0, 0, 0]])
        Pm = sp.diag(1, 0, 0, 1)
        core = sp.eye(4) + (cos(t / 2) - 1) * Pm - I * sin(t / 2) * S
        rz = lambda a: sp.diag(exp(-I * a / 2), exp(I * a / 2))
        return kron(I2, rz(b)) * core * kron(I2, rz(-b))

    CX = ctrl(X)
    XC = Mx([[1, 0, 0, 0], [0, 0, 0, 1], [0, 0, 1, 0], [0, 1, 0, 0]])  # control = second qubit, target = first

    def su4(*p):
        # Vatan & Williams quant-ph/0308006 fig. 7 on (a, b): (A3 x A4) NOTC (1 x Ry(t3)) CNOT (Rz(t1) x Ry(t2)) NOTC (A1 x A2)
        ry = lambda a: Mx([[cos(a / 2), -sin(a / 2)], [sin(a / 2), cos(a / 2)]])
        rz = lambda a: sp.diag(exp(-I * a / 2), exp(I * a / 2))
        return (kron(u3(*p[6:9]), u3(*p[9:12])) * XC * kron(I2, ry(p[14])) * CX * kron(rz(p[12]), ry(p[13])) * XC
                * kron(u3(*p[0:3]), u3(*p[3:6])))

    param = {
        "RX": lambda t: rot(X, t), "RY": lambda t: rot(Y, t), "RZ": lambda t: rot(Z, t),
        "U3": u3, "U2": u2, "U1": u1, "PHASE": u1,
        "CU3": lambda *p: ctrl(u3(*p)), "CU2": lambda *p: ctrl(u2(*p)), "CU1": lambda l: ctrl(u1(l)),
        "CPHASE": lambda l: ctrl(u1(l)),
        "CRX": lambda t: ctrl(rot(X, t)), "CRY": lambda t: ctrl(rot(Y, t)), "CRZ": lambda t: ctrl(rot(Z, t)),
        "FSIM": fsim, "FS": fsim, "FSIMG": fsimg, "GIVENS": givens, "GIVENS2": givens2,
        "XXPLUSYY": xx_plus_yy, "XXMINUSYY": xx_minus_yy,
        "RXX": lambda t: rot(kron(X, X), t), "RYY": lambda t: rot(kron(Y, Y), t), "RZZ": lambda t: rot(kron(Z, Z), t),
        "SU4": su4,
    }
    H = Mx([[1, 1], [1, -1]]) / sqrt(2)
    S = sp.diag(1, I)
    T = sp.diag(1, (1 + I) / sqrt(2))
    SX = Mx([[1 + I, 1 - I], [1 - I, 1 + I]]) / 2
    W = (X + Y) / sqrt(2)
    Wsqrt = (I2 - I * W) / sqrt(2)          # exp(-i pi/4 W): Google's W^(1/2) ("hz_1_2" in qsim files)
    SWAP = Mx([[1, 0, 0, 0], [0, 0, 1, 0], [0, 1, 0, 0], [0, 0, 0, 1]])
    ISWAP = Mx([[1, 0, 0, 0], [0, 0, I, 0], [0, I, 0, 0], [0, 0, 0, 1]])
    half = sp.pi / 2
    const = {
        "H": H, "X": X, "Y": Y, "Z": Z, "S": S, "SDG": S.H, "T": T, "TDG": T.H, "SX": SX, "SXDG": SX.H,
        "X_1_2": rot(X, half), "Y_1_2": rot(Y, half), "Z_1_2": rot(Z, half), "W_1_2": Wsqrt, "HZ_1_2": Wsqrt,
        "CX": CX, "CNOT": CX, "CY": ctrl(Y), "CZ": ctrl(Z), "ISWAP": ISWAP, "IS": ISWAP, "SWAP": SWAP, "IDEN": I2,
        "CCX": ctrl(X, 2), "CCNOT": ctrl(X, 2), "TOFFOLI": ctrl(X, 2), "CCY": ctrl(Y, 2), "CCZ": ctrl(Z, 2),
        "CSWAP": ctrl(SWAP), "FREDKIN": ctrl(SWAP),
    }
    return param, const


def _numeric_probe(fn, nparams, textbook, sp, seed=0, npts=5):
    """run the real builder on numpy floats at random points; returns (worst unitarity defect, point, worst textbook
    defect, point)"""
    import numpy as np
    rng = np.random.default_rng(seed)
    worst_u, pt_u, worst_t, pt_t = 0.0, None, 0.0, None
    syms = sp.symbols(f"p0:{nparams}", real=True)
    tb = sp.lambdify(syms, textbook(*syms), "numpy") if textbook is not None else None
    for _ in range(npts):
        p = rng.uniform(-2 * np.pi, 2 * np.pi, size=nparams)
        U = np.asarray(fn(p), dtype=complex)
        d = int(round(math.sqrt(U.size)))
        U = U.reshape(d, d)
        du = float(np.abs(U.conj().T @ U - np.eye(d)).max())
        if du >= worst_u:
            worst_u, pt_u = du, [float(x) for x in p]
        if tb is not None:
            dt = float(np.abs(U - np.asarray(tb(*p), dtype=complex)).max())
            if dt >= worst_t:
                worst_t, pt_t = dt, [float(x) for x in p]
    return worst_u, pt_u, worst_t, pt_t


def _param_gate_obligations(mod, name, fn, tree, tb_param, obs):
    sp, SArr = _sympy_backend()
    fid = f"{GATES}::{fn.__name__}"
    oid_u = f"{fid}::unitary-for-all-params[{name}]"
    oid_t = f"{fid}::matches-textbook-definition[{name}]"
    textbook = tb_param.get(name)
    t0 = time.time()
    n = _n_params(fn, tree) or 1
    params = sp.symbols(f"p0:{n}", real=True)
    log = set()
    err = None
    res = {}
    try:
        with _budget(PER_GATE_BUDGET_S):
            U = fn(SArr(list(params)))
            M = [[_defloat(sp.sympify(e), sp, log) for e in row] for row in _as_matrix(U, sp)]
            T = None
            if textbook is not None:
                Tm = textbook(*params)
                T = [[Tm[a, b] for b in range(Tm.shape[1])] for a in range(Tm.shape[0])]
                if len(T) != len(M):
                    raise ValueError(f"textbook dimension {len(T)} != builder dimension {len(M)}")
            res = _decide_identities(sp, params, M, T)
    except _Timeout:
        err = f"undecided within {PER_GATE_BUDGET_S:.0f} s"
    except Exception as e:  # symbolic route not applicable: undecided, never a violation by itself
        err = f"{type(e).__name__}: {e}"[:300]
    dt = time.time() - t0
    need_probe = err is not None or not res["unitary"][0] or (textbook is not None and not res["textbook"][0])
    probe = None
    if need_probe:
        try:
            probe = _numeric_probe(fn, n, textbook, sp)
        except Exception as e:
            probe = None
            err = (err or "") + f" | numeric probe failed: {type(e).__name__}: {e}"[:200]
    subst = sorted(log)
    base = dict(gate=name, builder=fn.__name__, n_params=n, float_literal_substitutions=subst)
    # --- unitarity
    if err is None and res["unitary"][0]:
        obs.append(ObResult(oid_u, "e2", "discharged", "sympy", dt, function=fid, engine="E2",
                            detail=dict(base, **res["unitary"][1])))
    else:
        st, model = "unknown", None
        if probe is not None and probe[0] > 1e-9:
            st = "failed"
            model = dict(base, params=probe[1], max_abs_UdagU_minus_I=probe[0],
                         replay=f"from quimb.tensor.circuit.gates import PARAM_GATES; import numpy as np; "
                                f"U=np.asarray(PARAM_GATES[{name!r}](np.array({probe[1]}))).reshape({2 ** 1},-1)")
        obs.append(ObResult(oid_u, "e2", st, "sympy+numeric-probe", dt, function=fid, engine="E2", model=model,
                            detail=dict(base, reason=err or res["unitary"][1],
                                        numeric_probe_max_defect=None if probe is None else probe[0])))
    # --- textbook
    if textbook is None:
        obs.append(ObResult(oid_t, "e2", "unknown", "sympy", 0.0, function=fid, engine="E2",
                            detail=dict(base, reason="no textbook definition for this gate name in the sidecar table")))
    elif err is None and res["textbook"][0]:
        obs.append(ObResult(oid_t, "e2", "discharged", "sympy", 0.0, function=fid, engine="E2", detail=base))
    else:
        st, model = "unknown", None
        if probe is not None and probe[2] > 1e-9:
            st = "failed"
            model = dict(base, params=probe[3], max_abs_U_minus_textbook=probe[2])
        obs.append(ObResult(oid_t, "e2", st, "sympy+numeric-probe", 0.0, function=fid, engine="E2", model=model,
                            detail=dict(base, reason=err or res.get("textbook", (None, None))[1],
                                        numeric_probe_max_defect=None if probe is None else probe[2])))


def _const_gate_obligations(name, G, tb_const, obs):
    import numpy as np
    sp, _ = _sympy_backend()
    fid = f"{GATES}::CONSTANT_GATES[{name}]"
    t0 = time.time()
    A = np.asarray(G, dtype=complex)
    d = int(round(math.sqrt(A.size)))
    A = A.reshape(d, d)
    exact, closed = True, set()
    M = sp.zeros(d, d)
    for a in range(d):
        for b in range(d):
            parts = []
            for v in (A[a, b].real, A[a, b].imag):
                how, c = _recognise(v, sp)
                if how is None:
                    exact = False
                elif how == "closed-form":
                    closed.add(f"{float(v)!r} -> {c}")
                parts.append(c)
            M[a, b] = parts[0] + sp.I * parts[1]
    base = dict(gate=name, dim=d, closed_forms_within_1ulp=sorted(closed))
    if exact:
        D = (M.H * M - sp.eye(d)).applyfunc(sp.expand)
        ok = D.is_zero_matrix is True
        obs.append(ObResult(f"{fid}::unitary-exact", "e2", "discharged" if ok else "failed", "sympy", time.time() - t0,
                            function=fid, engine="E2", detail=base,
                            model=None if ok else dict(base, UdagU_minus_I=str(D), array=str(A.tolist()))))
    else:
        defect = float(np.abs(A.conj().T @ A - np.eye(d)).max())
        ok = defect <= 1e-12
        obs.append(ObResult(f"{fid}::unitary-exact", "e2", "discharged" if ok else "failed", "numeric-exact-to-1e-12",
                            time.time() - t0, function=fid, engine="E2", detail=dict(base, defect=defect),
                            model=None if ok else dict(base, defect=defect, array=str(A.tolist()))))
    T = tb_const.get(name)
    t1 = time.time()
    if T is None:
        obs.append(ObResult(f"{fid}::matches-textbook-definition", "e2", "unknown", "sympy", 0.0, function=fid,
                            engine="E2", detail=dict(base, reason="no textbook definition in the sidecar table")))
        return
    if T.shape != (d, d):
        obs.append(ObResult(f"{fid}::matches-textbook-definition", "e2", "failed", "sympy", 0.0, function=fid,
                            engine="E2", model=dict(base, reason=f"dimension {d} != textbook {T.shape}")))
        return
    if exact:
        Dm = (M - T).applyfunc(lambda e: sp.simplify(sp.expand(e)))
        ok = Dm.is_zero_matrix is True
        backend = "sympy"
    else:
        Tn = np.array(T.evalf(30).tolist(), dtype=complex)
        ok = float(np.abs(A - Tn).max()) <= 1e-12
        Dm = None
        backend = "numeric-exact-to-1e-12"
    obs.append(ObResult(f"{fid}::matches-textbook-definition", "e2", "discharged" if ok else "failed", backend,
                        time.time() - t1, function=fid, engine="E2", detail=base,
                        model=None if ok else dict(base, registered=str(A.tolist()), textbook=str(T.tolist()),
                                                   replay=f"from quimb.tensor.circuit.gates import CONSTANT_GATES; "
                                                          f"print(CONSTANT_GATES[{name!r}])")))


def _ordering_convention_obligation(obs):
    """the convention of the textbook table, decided natively and exhaustively on the real simulator: for both
    argument orders of CX and all four basis inputs the dense state is the basis vector with the FIRST argument as
    control, index = bits read big-endian (qubit 0 most significant)"""
    t0 = time.time()
    oid = f"{GATES}::CONSTANT_GATES[CX]::qubit-ordering-convention"
    try:
        import numpy as np
        import quimb.tensor as qtn
        bad = []
        for ctrl, tgt in ((0, 1), (1, 0)):
            for b0 in (0, 1):
                for b1 in (0, 1):
                    c = qtn.Circuit(2)
                    if b0:
                        c.apply_gate("X", 0)
                    if b1:
                        c.apply_gate("X", 1)
                    c.apply_gate("CX", ctrl, tgt)
                    out = [b0, b1]
                    out[tgt] ^= out[ctrl]
                    v = np.asarray(c.to_dense()).ravel()
                    want = np.zeros(4)
                    want[2 * out[0] + out[1]] = 1
                    if np.abs(v - want).max() > 1e-12:
                        bad.append(dict(control=ctrl, target=tgt, input=[b0, b1], got=str(v.tolist())))
        obs.append(ObResult(oid, "fdx", "failed" if bad else "discharged", "exhaustive", time.time() - t0,
                            function=f"{GATES}::CONSTANT_GATES[CX]", engine="fdx", model=bad[0] if bad else None,
                            detail=dict(cases=8)))
    except Exception as e:
        obs.append(ObResult(oid, "fdx", "unknown", "exhaustive", time.time() - t0,
                            function=f"{GATES}::CONSTANT_GATES[CX]", engine="fdx", detail=f"{type(e).__name__}: {e}"))


def provider_gates(tier="quick", root=None):
    obs = []
    root = root or repo_root()
    t0 = time.time()
    try:
        mod = load_gates_module(root)
        with open(os.path.join(root, GATES)) as f:
            tree = ast.parse(f.read())
    except Exception as e:
        return [ObResult(f"{GATES}::load", "e2", "unknown", "sympy", time.time() - t0, function=GATES, engine="E2",
                         detail=f"cannot load gates module: {type(e).__name__}: {e}")]
    sp, _ = _sympy_backend()
    tb_param, tb_const = _textbook(sp)
    for name in sorted(mod.PARAM_GATES):
        _param_gate_obligations(mod, name, mod.PARAM_GATES[name], tree, tb_param, obs)
    for name in sorted(mod.CONSTANT_GATES):
        _const_gate_obligations(name, mod.CONSTANT_GATES[name], tb_const, obs)
    _ordering_convention_obligation(obs)
    # registry census: every registered name is either parametrised, constant or special-without-array (none today)
    other = sorted(set(mod.ALL_GATES) - set(mod.PARAM_GATES) - set(mod.CONSTANT_GATES))
    obs.append(ObResult(f"{GATES}::registry::every-gate-has-a-unitarity-obligation", "e2",
                        "unknown" if other else "discharged", "reflection", 0.0, function=f"{GATES}::registry",
                        engine="E2", detail=dict(not_covered=other, param=len(mod.PARAM_GATES),
                                                 constant=len(mod.CONSTANT_GATES))))
    return obs
