"""C06 extension: discrete bookkeeping of the gate application routes that contracts/c09_labels.py leaves to drivers.

CONVENTION (same as c09_labels, C06): a gate array in tensor form has the ROW (output) index of target j on axis j and the
COLUMN (input) index on axis ng+j; applying G (G @ x) joins the COLUMN axes to the network and leaves the ROW axes outside
under the ORIGINAL labels; transposed, the halves exchange roles.

Every contract below executes the REAL ast of the function (re-read from /repo each run) on recording stand-ins: calls to
other quimb functions are leaves that are RECORDED with their actual arguments; the post-conditions speak about exactly
which leaf is reached, how often, and with which arguments (labels in the given site order, option threading, flags).
"""
import z3

from vf.pyvc import Contract, NS, register, PyRaise, Unsupported, And, Or, Not, Implies, If  # noqa: F401
from contracts.c09_labels import module_const  # reads a module-level set constant from the REAL source on every run

GATING = "quimb/tensor/gating.py"
T1D = "quimb/tensor/tn1d/core.py"
TAG = "quimb/tensor/tnag/core.py"
TC = "quimb/tensor/tensor_core.py"


class Tok:
    """an opaque python-level value with identity semantics (arrays, option values, networks)"""

    def __init__(self, name, **kw):
        self.name = name
        self.__dict__.update(kw)

    truth = True

    def __repr__(self):
        return f"<{self.name}>"


class WSeq(Tok):
    """a sequence of sites of symbolic length n"""


class Lbl:
    """label of a site: kind in {'site', 'upper', 'lower'}, structural equality"""

    def __init__(self, kind, site):
        self.kind, self.site = kind, site

    def __eq__(self, o):
        return isinstance(o, Lbl) and o.kind == self.kind and o.site is self.site

    def __hash__(self):
        return hash((self.kind, id(self.site)))

    def __repr__(self):
        return f"{self.kind}({self.site!r})"


def same(x, y):
    """python-level sameness of recorded values (identity for tokens, equality for str / bool / None, structural for
    tuples / lists / dicts); bool and int / str are never confused"""
    if isinstance(x, (tuple, list)) and isinstance(y, (tuple, list)):
        return type(x) is type(y) and len(x) == len(y) and all(same(p, q) for p, q in zip(x, y))
    if isinstance(x, dict) and isinstance(y, dict):
        return list(x) == list(y) and all(same(x[k], y[k]) for k in x)
    if isinstance(x, (str, bool, int, Lbl)) or x is None:
        return type(x) is type(y) and x == y
    return x is y


class Rec(Contract):
    """recording base: unknown method calls on tokens are leaves; `ret` decides what they return"""
    property_ids = ("C06",)
    safety = False

    def on_fstring(self, cx, node):
        import ast
        out = ""
        for p in node.values:
            if isinstance(p, ast.Constant):
                out += str(p.value)
            else:
                v = cx.ev(p.value)
                if not isinstance(v, (int, str)) or isinstance(v, bool) or p.format_spec is not None:
                    return NotImplemented
                out += str(v)
        return out

    def leaf(self, cx, name, recv, args, kwargs, node):
        return NotImplemented

    def call(self, cx, name, args, kwargs, node):
        if name == "__eq__":
            return same(args[0], args[1])
        if name == "len" and isinstance(args[0], WSeq):
            return args[0].n
        if name == "tags_to_oset":
            return args[0]
        if name == "rand_uuid":
            k = sum(1 for e in cx.events if e[0] == "fresh")
            t = Tok(f"fresh{k}", fresh=True)
            cx.events.append(("fresh", t))
            return t
        if name.startswith(".") and isinstance(args[0], Tok):
            r = self.leaf(cx, name[1:], args[0], args[1:], kwargs, node)
            if r is not NotImplemented:
                return r
        elif not name.startswith("__"):
            r = self.leaf(cx, name, None, args, kwargs, node)
            if r is not NotImplemented:
                return r
        return NotImplemented

    def calls(self, cx, name):
        return [e for e in cx.events if e[0] == "call" and e[1] == name]

    def record(self, cx, name, recv, args, kwargs, ret=None):
        e = ("call", name, NS(recv=recv, args=list(args), kw=dict(kwargs), ret=ret))
        cx.events.append(e)
        return ret


# ------------------------------------------------------------------------------------------------------------
# gate_TN_1D: contract mode string -> implementation
# ------------------------------------------------------------------------------------------------------------
MODES_1D = (False, True, "split", "reduce-split", "split-gate", "swap-split-gate", "auto-split-gate", "swap+split",
            "nonlocal", "auto-mps", "bogus")


def mode_table_1d(contract, ngc):
    """SPEC (docstring of gate_TN_1D / MatrixProductState.gate): which implementation serves (contract, #sites);
    ngc in {1, 2, 3 (= 3 or more)}.  ('generic', c): TensorNetworkGenVector.gate with contract=c."""
    if contract == "auto-mps" and contract is not True:
        contract = {1: True, 2: "swap+split"}.get(ngc, "nonlocal")
    if contract in ("swap+split", "nonlocal") and contract is not True:
        if ngc == 1:
            return ("generic", True)
        return ("auto_swap",) if contract == "swap+split" else ("nonlocal",)
    return ("generic", contract)


@register
class GateTN1D(Rec):
    """gate_TN_1D: every (contract, number of sites) request reaches EXACTLY ONE implementation -- the MPS swap+split
    route, the sub-MPO route or the generic arbitrary-geometry gate -- as the mode table says, with the gate, the sites
    (an integer site as a 1-tuple), info, inplace, cur_orthog / tags / propagate_tags and the compress options unchanged"""

    target = f"{T1D}::gate_TN_1D"
    floor = 400

    def cases(self):
        out = []
        for c in MODES_1D:
            for wk, ngc in (("int", 1), ("seq", 1), ("seq", 2), ("seq", 3)):
                for ip in (False, True):
                    out.append(NS(name=f"contract={c!r},where={wk},ng={'3+' if ngc == 3 else ngc},inplace={ip}",
                                  contract=c, wk=wk, ngc=ngc, inplace=ip))
        return out

    def inputs(self, cx, case):
        if case.wk == "int":
            where = Tok("site", isint=True)
        else:
            if case.ngc == 3:
                n = cx.Int("ng")
                cx.assume(n >= 3)
            else:
                n = case.ngc
            where = WSeq("where", n=n, isint=False)
        return dict(tn=Tok("tn"), G=Tok("G"), where=where, contract=case.contract, tags=Tok("tags"),
                    propagate_tags=Tok("propagate_tags"), info=Tok("info"), inplace=case.inplace,
                    cur_orthog=Tok("cur_orthog"), compress_opts={"max_bond": Tok("max_bond"), "cutoff": Tok("cutoff")})

    def call(self, cx, name, args, kwargs, node):
        if name == "__isinstance__" and args[1] == "Integral":
            return bool(getattr(args[0], "isint", False))
        if name == "TensorNetworkGenVector.gate":
            return self.record(cx, "generic", args[0], args[1:], kwargs, Tok("ret-generic"))
        return super().call(cx, name, args, kwargs, node)

    def leaf(self, cx, name, recv, args, kwargs, node):
        if recv is not None and name == "gate_with_auto_swap":
            return self.record(cx, "auto_swap", recv, args, kwargs, Tok("ret-auto_swap"))
        if recv is not None and name == "gate_nonlocal":
            return self.record(cx, "nonlocal", recv, args, kwargs, Tok("ret-nonlocal"))
        return NotImplemented

    def ensures_raise(self, a, exc, cx, case):
        return {f"no-raise-{exc}": False}

    def ensures(self, a, r, cx, case):
        exp = mode_table_1d(case.contract, case.ngc)
        cs = [e for e in cx.events if e[0] == "call"]
        d = {"exactly-one-implementation-reached": len(cs) == 1}
        if len(cs) != 1:
            return d
        _, which, c = cs[0]
        d["implementation-of-the-mode-table"] = which == exp[0]
        d["returns-what-the-implementation-returns"] = r is c.ret
        d["applied-to-the-given-network"] = c.recv is a.tn
        d["gate-passed-on"] = len(c.args) == 2 and c.args[0] is a.G
        w = c.args[1] if len(c.args) == 2 else None
        if case.wk == "int":
            d["integer-site-becomes-1-tuple"] = isinstance(w, tuple) and len(w) == 1 and w[0] is a.where
        else:
            d["sites-passed-on-in-the-given-order"] = w is a.where
        kw = dict(c.kw)
        d["info-passed-on"] = kw.pop("info", None) is a.info
        d["inplace-passed-on"] = kw.pop("inplace", None) is case.inplace
        d["compress-options-passed-on"] = kw.pop("max_bond", None) is a.compress_opts["max_bond"] and \
            kw.pop("cutoff", None) is a.compress_opts["cutoff"]
        if which == "generic":
            d["effective-contract-of-the-mode-table"] = len(exp) == 2 and same(kw.pop("contract", "missing"), exp[1])
            kw.pop("contract", None)
            d["tags-passed-on"] = kw.pop("tags", None) is a.tags
            d["propagate_tags-passed-on"] = kw.pop("propagate_tags", None) is a.propagate_tags
        else:
            d["cur_orthog-passed-on"] = kw.pop("cur_orthog", None) is a.cur_orthog
        d["no-other-option-invented"] = not kw
        return d


# ------------------------------------------------------------------------------------------------------------
# _tensor_network_gate_inds_lazy_split
# ------------------------------------------------------------------------------------------------------------
class TGv(Tok):
    pass


@register
class GateIndsLazySplit(Rec):
    """_tensor_network_gate_inds_lazy_split (reached by tensor_network_gate_inds only with ng == 2 and a gate-splitting
    mode, see GateInds' mode table): the gate tensor carries on its ROW axes the labels that become the new OUTER labels
    and on its COLUMN axes the labels joined to the network (exchanged when transposed); the network's targets `inds` are
    rewired, in order, inner = r*, outer = l*, exactly once; 'split-gate' factorises target 0 | target 1, 'swap-split-gate'
    across (outer 0, inner 1), 'auto-split-gate' takes the swap iff its rank is strictly smaller, else the spatial split
    iff it reduces the rank below the full row dimension, else the unsplit gate"""

    target = f"{GATING}::_tensor_network_gate_inds_lazy_split"
    floor = 150

    def cases(self):
        return [NS(name=f"contract={c!r},transpose={t}", contract=c, transpose=t)
                for c in ("split-gate", "swap-split-gate", "auto-split-gate") for t in (False, True)]

    def inputs(self, cx, case):
        dims = (Tok("d0"), Tok("d1"), Tok("d0'"), Tok("d1'"))
        return dict(tn=Tok("tn"), G=Tok("G", shape=dims), inds=Tok("inds"), ng=2, tags=Tok("tags"),
                    contract=case.contract, transpose=case.transpose,
                    compress_opts={"max_bond": Tok("max_bond"), "cutoff": Tok("cutoff")})

    def attr(self, cx, base, attr, node):
        if isinstance(base, Tok) and attr == "shape" and hasattr(base, "shape"):
            return base.shape
        return super().attr(cx, base, attr, node)

    def leaf(self, cx, name, recv, args, kwargs, node):
        if recv is None and name == "Tensor":
            t = TGv("TG", args=list(args), kw=dict(kwargs))
            cx.events.append(("tensor", t))
            return t
        if recv is None and name == "prod":
            full = cx.Int("full")
            cx.events.append(("prod", args[0], full))
            return full
        if isinstance(recv, TGv) and name == "split":
            s = Tok(f"split{len([e for e in cx.events if e[0] == 'split'])}", of=recv, args=list(args), kw=dict(kwargs),
                    rank=None)
            cx.events.append(("split", s))
            return s
        if recv is not None and name == "ind_size" and hasattr(recv, "of"):
            if recv.rank is None:
                recv.rank = cx.Int("rank_" + recv.name)
                cx.assume(recv.rank >= 1)
            cx.events.append(("ind_size", recv, args[0]))
            return recv.rank
        if recv is not None and name == "gate_inds_with_tn_":
            return self.record(cx, "gate_inds_with_tn_", recv, args, kwargs, Tok("ret"))
        return NotImplemented

    def ensures_raise(self, a, exc, cx, case):
        return {f"no-raise-{exc}": False}

    def ensures(self, a, r, cx, case):
        tens = [e[1] for e in cx.events if e[0] == "tensor"]
        cs = self.calls(cx, "gate_inds_with_tn_")
        fresh = [e[1] for e in cx.events if e[0] == "fresh"]
        d = {"one-gate-tensor": len(tens) == 1, "network-rewired-exactly-once": len(cs) == 1,
             "one-fresh-bond-label": len(fresh) == 1}
        if not all(d.values()):
            return d
        TG, c = tens[0], cs[0][2]
        L, R = ["l0", "l1"], ["r0", "r1"]
        d["gate-tensor-holds-the-given-array"] = not TG.args and TG.kw.get("data") is a.G
        d["gate-tensor-tags"] = TG.kw.get("tags") is a.tags
        d["ROW-axes-outer-COLUMN-axes-inner--exchanged-when-transposed"] = \
            same(TG.kw.get("inds"), (R + L) if case.transpose else (L + R))
        d["left_inds-are-the-inner-labels"] = same(TG.kw.get("left_inds"), R)
        d["no-other-tensor-option"] = set(TG.kw) == {"data", "inds", "tags", "left_inds"}
        d["rewires-the-given-network"] = c.recv is a.tn and r is c.ret
        d["targets-in-the-given-order"] = len(c.args) == 4 and c.args[0] is a.inds and not c.kw
        if len(c.args) != 4:
            return d
        d["inner-labels-joined-to-the-network"] = same(c.args[2], R)
        d["outer-labels-take-the-original-names"] = same(c.args[3], L)
        g = c.args[1]
        splits = {tuple(e[1].args[0]) if e[1].args and isinstance(e[1].args[0], (tuple, list)) else None: e[1]
                  for e in cx.events if e[0] == "split"}
        spat, swap = splits.get(("l0", "r0")), splits.get(("l0", "r1"))
        for s in (e[1] for e in cx.events if e[0] == "split"):
            d[f"{s.name}:splits-the-gate-tensor-with-the-fresh-bond-and-the-caller's-options"] = \
                s.of is TG and len(s.args) == 1 and s.kw.get("bond_ind") is fresh[0] and \
                s.kw.get("max_bond") is a.compress_opts["max_bond"] and s.kw.get("cutoff") is a.compress_opts["cutoff"] \
                and set(s.kw) == {"bond_ind", "max_bond", "cutoff"}
        if case.contract == "split-gate":
            d["split-gate:target-0-|-target-1"] = spat is not None and g is spat
        elif case.contract == "swap-split-gate":
            d["swap-split-gate:(outer-0,inner-1)-|-(outer-1,inner-0)"] = swap is not None and g is swap
        else:
            d["auto:both-splits-tried"] = spat is not None and swap is not None
            if spat is None or swap is None or spat.rank is None or swap.rank is None:
                d["auto:ranks-read"] = False
                return d
            sizes = [e for e in cx.events if e[0] == "ind_size"]
            d["auto:ranks-read-on-the-fresh-bond"] = all(e[2] is fresh[0] for e in sizes)
            pr = [e for e in cx.events if e[0] == "prod"]
            full = pr[0][2] if pr else None
            if pr:
                d["auto:full-rank-is-the-row-dimension-of-the-gate"] = same(tuple(pr[0][1]), tuple(a.G.shape[:2]))
            is_swap, is_spat, is_tg = g is swap, g is spat, g is TG
            d["auto:one-of-the-three"] = is_swap or is_spat or is_tg
            d["auto:swap-iff-strictly-smaller-rank"] = (swap.rank < spat.rank) if is_swap else Not(swap.rank < spat.rank)
            if is_spat:
                d["auto:spatial-split-only-if-rank-reduced"] = full is not None and And(Not(swap.rank < spat.rank),
                                                                                         spat.rank < full)
            if is_tg:
                d["auto:unsplit-only-if-no-rank-reduction"] = full is not None and And(Not(swap.rank < spat.rank),
                                                                                       Not(spat.rank < full))
        return d


# ------------------------------------------------------------------------------------------------------------
# TensorNetwork.gate_inds_with_tn
# ------------------------------------------------------------------------------------------------------------
@register
class GateIndsWithTN(Rec):
    """TensorNetwork.gate_inds_with_tn (n = 1, 2, 3 targets, each present in the network or not): for every target label
    present the network leg is moved to a FRESH label, the gate's inner label of the same position is renamed to that
    same fresh label and the gate's outer label of the same position takes the ORIGINAL label (outer labels unchanged);
    absent targets rename nothing; unequal lengths raise before anything is touched"""

    target = f"{TC}::TensorNetwork.gate_inds_with_tn"
    floor = 60

    def cases(self):
        out = [NS(name=f"n={n},inplace={ip}", n=n, ni=n, no=n, inplace=ip) for n in (1, 2, 3) for ip in (False, True)]
        out += [NS(name="lengths 2,1,2", n=2, ni=1, no=2, inplace=False), NS(name="lengths 2,2,3", n=2, ni=2, no=3, inplace=True),
                NS(name="single strings", n=0, ni=0, no=0, inplace=False)]
        return out

    def inputs(self, cx, case):
        if case.n == 0:
            inds, gi, go = "k0", "r0", "l0"
        else:
            inds = tuple(f"k{j}" for j in range(case.n))
            gi = tuple(f"r{j}" for j in range(case.ni))
            go = tuple(f"l{j}" for j in range(case.no))
        tn = Tok("self", is_tn=True)
        tn.ind_map = Tok("ind_map", of=tn)
        return dict(self=tn, inds=inds, gate=Tok("gate"), gate_inds_inner=gi, gate_inds_outer=go, inplace=case.inplace)

    def attr(self, cx, base, attr, node):
        if isinstance(base, Tok) and attr == "ind_map" and hasattr(base, "ind_map"):
            return base.ind_map
        return super().attr(cx, base, attr, node)

    def call(self, cx, name, args, kwargs, node):
        if name == "__isinstance__" and args[1] == "str":
            return isinstance(args[0], str)
        if name == "__contains__" and isinstance(args[0], Tok) and args[0].name == "ind_map":
            b = cx.Bool(f"present[{args[1]}]")
            cx.events.append(("present", args[0].of, args[1], b))
            return b
        if name == "__binop__" and args[0] == "BitOr" and isinstance(args[1], Tok):
            cx.events.append(("ior", args[1], args[2]))
            return args[1]
        return super().call(cx, name, args, kwargs, node)

    def leaf(self, cx, name, recv, args, kwargs, node):
        if recv is not None and name == "copy" and getattr(recv, "is_tn", False):
            t = Tok("copy", is_tn=True, copy_of=recv)
            t.ind_map = Tok("ind_map", of=t)
            return t
        if recv is not None and name == "reindex_":
            cx.events.append(("reindex_", recv, dict(args[0])))
            return recv
        if recv is not None and name == "reindex":
            t = Tok("gate'", renamed=recv, map=dict(args[0]))
            return t
        return NotImplemented

    def ensures_raise(self, a, exc, cx, case):
        touched = [e for e in cx.events if e[0] in ("reindex_", "ior")]
        return {"raises-only-on-unequal-lengths": exc == "ValueError" and not (case.n == case.ni == case.no),
                "nothing-touched-before-raising": not touched}

    def ensures(self, a, r, cx, case):
        if not (case.n == case.ni == case.no):
            return {"unequal-lengths-must-raise": False}
        inds, gi, go = ((a.inds,), (a.gate_inds_inner,), (a.gate_inds_outer,)) if case.n == 0 else \
            (a.inds, a.gate_inds_inner, a.gate_inds_outer)
        re_ = [e for e in cx.events if e[0] == "reindex_"]
        ior = [e for e in cx.events if e[0] == "ior"]
        d = {"network-relabelled-once-gate-attached-once": len(re_) == 1 and len(ior) == 1}
        if not d["network-relabelled-once-gate-attached-once"]:
            return d
        tgt = re_[0][1]
        d["works-on-receiver-iff-inplace"] = (tgt is a.self) if case.inplace else (getattr(tgt, "copy_of", None) is a.self)
        d["returns-the-working-network"] = r is tgt and ior[0][1] is tgt
        g2 = ior[0][2]
        d["attaches-the-renamed-COPY-of-the-given-gate"] = getattr(g2, "renamed", None) is a.gate
        if getattr(g2, "renamed", None) is not a.gate:
            return d
        tix, gix = re_[0][2], g2.map
        pres = {e[2]: e[3] for e in cx.events if e[0] == "present"}
        d["presence-tested-on-the-working-network"] = all(e[1] is tgt for e in cx.events if e[0] == "present") and \
            set(pres) == set(inds)
        fresh = [e[1] for e in cx.events if e[0] == "fresh"]
        d["fresh-labels-pairwise-different-objects"] = len({id(f) for f in fresh}) == len(fresh)
        for k, (t, i, o) in enumerate(zip(inds, gi, go)):
            p = pres.get(t)
            if p is None:
                d[f"pos{k}:presence-tested"] = False
                continue
            there = t in tix
            d[f"pos{k}:renamed-iff-present"] = p if there else Not(p)
            if there:
                f = tix[t]
                d[f"pos{k}:network-leg-to-a-fresh-label"] = getattr(f, "fresh", False) is True and \
                    sum(1 for v in tix.values() if v is f) == 1
                d[f"pos{k}:gate-inner-label-joins-the-same-fresh-label"] = gix.get(i) is f
                d[f"pos{k}:gate-outer-label-takes-the-original-label"] = gix.get(o) == t
            else:
                d[f"pos{k}:absent-target-renames-nothing"] = i not in gix and o not in gix
        d["no-other-renaming"] = set(tix) <= set(inds) and set(gix) <= set(gi) | set(go)
        return d


# ------------------------------------------------------------------------------------------------------------
# MatrixProductState.gate_split / gate_with_auto_swap / gate_nonlocal
# ------------------------------------------------------------------------------------------------------------
@register
class MPSGateSplit(Rec):
    """MatrixProductState.gate_split: the labels of the two sites IN THE GIVEN ORDER (also for where[0] > where[1]), mode
    'split', inplace and the compress options (plus the default cutoff_mode of the chain's boundary condition)"""

    target = f"{T1D}::MatrixProductState.gate_split"
    floor = 20

    def cases(self):
        return [NS(name=f"inplace={ip},cyclic={cy},cutoff_mode given={cm}", inplace=ip, cyclic=cy, cm=cm)
                for ip in (False, True) for cy in (False, True) for cm in (False, True)]

    def inputs(self, cx, case):
        opts = {"max_bond": Tok("max_bond")}
        if case.cm:
            opts["cutoff_mode"] = Tok("cutoff_mode")
        return dict(self=Tok("self", cyclic=case.cyclic), G=Tok("G"), where=(Tok("s0"), Tok("s1")), inplace=case.inplace,
                    compress_opts=opts)

    def attr(self, cx, base, attr, node):
        if isinstance(base, Tok) and attr == "cyclic":
            return base.cyclic
        if isinstance(base, Tok) and attr == "site_ind":
            return ("bound", base, "site")
        return super().attr(cx, base, attr, node)

    def call(self, cx, name, args, kwargs, node):
        if name == "map" and isinstance(args[0], tuple) and args[0][0] == "bound" and isinstance(args[1], tuple):
            return tuple(Lbl(args[0][2], s) for s in args[1])
        if name == "set_default_compress_mode":
            # leaf (3 lines, tn1d/core.py): opts.setdefault("cutoff_mode", "rel" if cyclic else "rsum2")
            args[0].setdefault("cutoff_mode", "rel" if (args[1] if len(args) > 1 else kwargs.get("cyclic", False)) else "rsum2")
            return None
        return super().call(cx, name, args, kwargs, node)

    def leaf(self, cx, name, recv, args, kwargs, node):
        if recv is not None and name == "gate_inds":
            return self.record(cx, "gate_inds", recv, args, kwargs, Tok("ret"))
        return NotImplemented

    def ensures_raise(self, a, exc, cx, case):
        return {f"no-raise-{exc}": False}

    def ensures(self, a, r, cx, case):
        cs = self.calls(cx, "gate_inds")
        d = {"gate_inds-exactly-once": len(cs) == 1}
        if len(cs) != 1:
            return d
        c = cs[0][2]
        d["on-the-receiver-result-returned"] = c.recv is a.self and r is c.ret
        d["gate-passed-on"] = len(c.args) == 2 and c.args[0] is a.G
        d["site-labels-in-the-given-order"] = len(c.args) == 2 and same(c.args[1], (Lbl("site", a.where[0]), Lbl("site", a.where[1])))
        kw = dict(c.kw)
        d["mode-split"] = same(kw.pop("contract", None), "split")
        d["inplace-passed-on"] = kw.pop("inplace", None) is case.inplace
        d["max_bond-passed-on"] = kw.pop("max_bond", None) is a.compress_opts["max_bond"]
        cm = kw.pop("cutoff_mode", None)
        d["cutoff_mode:caller's-else-default-of-the-boundary-condition"] = (cm is cx.old.compress_opts.get("cutoff_mode")) \
            if case.cm else same(cm, "rel" if case.cyclic else "rsum2")
        d["no-other-option-invented"] = not kw
        return d


@register
class MPSGateAutoSwap(Rec):
    """MatrixProductState.gate_with_auto_swap for symbolic sites i != j in ANY order: the farther site is swapped next to
    the smaller one iff they are not adjacent, the pair is made the orthogonality centre, the gate is applied by
    gate_split_ on (lo, lo+1) when where[0] < where[1] and on (lo+1, lo) when where[0] > where[1] -- i.e. gate axis 0 acts
    on the tensor that came from where[0] -- the factor is absorbed towards lo+1, cur_orthog = (lo+1, lo+1), and the site is
    swapped back to where it came from iff it was moved and swap_back"""

    target = f"{T1D}::MatrixProductState.gate_with_auto_swap"
    floor = 40

    def cases(self):
        return [NS(name=f"inplace={ip},swap_back={sb}", inplace=ip, swap_back=sb) for ip in (False, True) for sb in (False, True)]

    def inputs(self, cx, case):
        i, j = cx.Int("i"), cx.Int("j")
        return dict(self=Tok("self", is_mps=True), G=Tok("G"), where=(i, j), info={}, swap_back=case.swap_back,
                    inplace=case.inplace, compress_opts={"max_bond": Tok("max_bond"), "cutoff": Tok("cutoff")})

    def requires(self, a, case):
        i, j = a.where
        return {"two-different-sites": And(i >= 0, j >= 0, i != j)}

    def leaf(self, cx, name, recv, args, kwargs, node):
        if recv is not None and name == "copy" and getattr(recv, "is_mps", False):
            return Tok("copy", is_mps=True, copy_of=recv)
        if recv is not None and name in ("swap_site_to", "canonicalize_", "gate_split_"):
            return self.record(cx, name, recv, args, kwargs, None)
        return NotImplemented

    def ensures_raise(self, a, exc, cx, case):
        return {f"no-raise-{exc}": False}

    def ensures(self, a, r, cx, case):
        i, j = a.where
        lo = If(i < j, i, j)
        hi = If(i < j, j, i)
        cs = [e for e in cx.events if e[0] == "call"]
        names = [e[1] for e in cs]
        adjacent = hi == lo + 1
        d = {}
        work = cs[0][2].recv if cs else None
        d["works-on-receiver-iff-inplace"] = (work is a.self) if case.inplace else (getattr(work, "copy_of", None) is a.self)
        d["every-step-on-the-working-state-which-is-returned"] = all(e[2].recv is work for e in cs) and r is work
        core = [n for n in names if n != "swap_site_to"]
        d["canonicalize-then-gate_split-once-each"] = core == ["canonicalize_", "gate_split_"]
        if core != ["canonicalize_", "gate_split_"]:
            return d
        kc, kg = names.index("canonicalize_"), names.index("gate_split_")
        before = [e[2] for e in cs[:kc]]
        between = cs[kc + 1:kg]
        after = [e[2] for e in cs[kg + 1:]]
        d["nothing-between-canonicalize-and-gate"] = not between
        d["swap-to-adjacent-iff-not-adjacent"] = Not(adjacent) if len(before) == 1 else (adjacent if not before else False)
        opts_ok = lambda kw: kw.get("max_bond") is a.compress_opts["max_bond"] and kw.get("cutoff") is a.compress_opts["cutoff"]  # noqa
        for c in before[:1]:
            d["swap:moves-the-larger-site-next-to-the-smaller"] = len(c.args) == 2 and And(c.args[0] == hi, c.args[1] == lo + 1)
            d["swap:in-place-info-and-options"] = c.kw.get("inplace") is True and c.kw.get("info") is a.info and opts_ok(c.kw) \
                and set(c.kw) == {"inplace", "info", "max_bond", "cutoff"}
        c = cs[kc][2]
        d["canonical-centre-on-the-adjacent-pair"] = len(c.args) == 1 and isinstance(c.args[0], tuple) and len(c.args[0]) == 2 \
            and And(c.args[0][0] == lo, c.args[0][1] == lo + 1)
        d["canonicalize-info"] = c.kw.get("info") is a.info and set(c.kw) == {"info"}
        c = cs[kg][2]
        w = c.kw.get("where")
        d["gate-array-passed-on"] = len(c.args) == 1 and c.args[0] is a.G
        # after the move the tensor of the smaller site sits at lo, the tensor of the larger site at lo+1
        d["gate-axis-0-on-the-tensor-of-where[0]"] = isinstance(w, tuple) and len(w) == 2 and \
            And(w[0] == If(i < j, lo, lo + 1), w[1] == If(i < j, lo + 1, lo))
        ab = c.kw.get("absorb")
        d["factor-absorbed-towards-the-second-site-lo+1"] = isinstance(ab, str) and \
            (Not(i > j) if ab == "right" else (i > j) if ab == "left" else False)
        d["gate_split-options"] = opts_ok(c.kw) and set(c.kw) == {"where", "absorb", "max_bond", "cutoff"}
        co = a.info.get("cur_orthog")
        d["cur_orthog-recorded-at-lo+1"] = isinstance(co, tuple) and len(co) == 2 and And(co[0] == lo + 1, co[1] == lo + 1)
        want_back = And(Not(adjacent), case.swap_back)
        d["swap-back-iff-moved-and-swap_back"] = want_back if len(after) == 1 else (Not(want_back) if not after else False)
        for c in after[:1]:
            d["swap-back:from-lo+1-to-the-original-site"] = len(c.args) == 2 and And(c.args[0] == lo + 1, c.args[1] == hi)
            d["swap-back:in-place-info-and-options"] = c.kw.get("inplace") is True and c.kw.get("info") is a.info and \
                opts_ok(c.kw) and set(c.kw) == {"inplace", "info", "max_bond", "cutoff"}
        return d


@register
class MPSGateNonlocal(Rec):
    """MatrixProductState.gate_nonlocal: the sub-operator is built from the gate (conjugated iff dagger) with the physical
    dimensions of the sites IN THE GIVEN ORDER (or the caller's dims), on sites=where, for the length of the state, and
    applied through gate_with_submpo_ on the same sites with transpose = transpose or dagger, method / info / inplace and
    the compress options unchanged"""

    target = f"{T1D}::MatrixProductState.gate_nonlocal"
    floor = 60

    def cases(self):
        return [NS(name=f"n={n},dims given={dg},dagger={da},transpose={tr},inplace={ip}", n=n, dg=dg, dagger=da,
                   transpose=tr, inplace=ip)
                for n in (2, 3) for dg in (False, True) for da in (False, True) for tr in (False, True) for ip in (False, True)]

    def inputs(self, cx, case):
        return dict(self=Tok("self", L=Tok("L")), G=Tok("G", conj=False), where=tuple(Tok(f"s{k}") for k in range(case.n)),
                    dims=Tok("dims") if case.dg else None, method=Tok("method"), transpose=case.transpose, info=Tok("info"),
                    inplace=case.inplace, dagger=case.dagger, compress_opts={"max_bond": Tok("max_bond")})

    def attr(self, cx, base, attr, node):
        if isinstance(base, Tok) and attr == "L" and hasattr(base, "L"):
            return base.L
        return super().attr(cx, base, attr, node)

    def call(self, cx, name, args, kwargs, node):
        if name == "do" and args and args[0] == "conj" and isinstance(args[1], Tok) and hasattr(args[1], "conj"):
            return Tok("conj(G)", conj=not args[1].conj, of=args[1])
        if name == "MatrixProductOperator.from_dense":
            return self.record(cx, "from_dense", None, args, kwargs, Tok("mpo"))
        return super().call(cx, name, args, kwargs, node)

    def leaf(self, cx, name, recv, args, kwargs, node):
        if recv is not None and name == "phys_dim":
            return ("phys_dim", recv, args[0]) if len(args) == 1 and not kwargs else NotImplemented
        if recv is not None and name == "gate_with_submpo_":
            return self.record(cx, "submpo", recv, args, kwargs, Tok("ret"))
        return NotImplemented

    def ensures_raise(self, a, exc, cx, case):
        return {f"no-raise-{exc}": False}

    def ensures(self, a, r, cx, case):
        fd, sm = self.calls(cx, "from_dense"), self.calls(cx, "submpo")
        d = {"one-sub-operator-applied-once": len(fd) == 1 and len(sm) == 1}
        if not d["one-sub-operator-applied-once"]:
            return d
        f, s = fd[0][2], sm[0][2]
        g = f.args[0] if f.args else None
        d["operator-from-the-gate-conjugated-iff-dagger"] = len(f.args) == 1 and \
            ((getattr(g, "of", None) is a.G and g.conj is True) if case.dagger else g is a.G)
        d["caller's-array-untouched"] = a.G.conj is False
        want_dims = a.dims if case.dg else tuple(("phys_dim", a.self, w) for w in a.where)
        d["dims-of-the-sites-in-the-given-order"] = same(f.kw.get("dims"), want_dims) if not case.dg else f.kw.get("dims") is a.dims
        d["operator-sites-are-where-in-the-given-order"] = f.kw.get("sites") is a.where
        d["operator-length-of-the-state"] = f.kw.get("L") is a.self.L and set(f.kw) == {"dims", "sites", "L"}
        d["applied-to-the-receiver-result-returned"] = s.recv is a.self and r is s.ret
        d["the-built-operator-is-applied"] = len(s.args) == 1 and s.args[0] is f.ret
        kw = dict(s.kw)
        d["same-sites"] = kw.pop("where", None) is a.where
        d["method-passed-on"] = kw.pop("method", None) is a.method
        d["transpose-is-(transpose-or-dagger)"] = kw.pop("transpose", None) is bool(case.transpose or case.dagger)
        d["info-passed-on"] = kw.pop("info", None) is a.info
        d["inplace-passed-on"] = kw.pop("inplace", None) is case.inplace
        d["inplace_mpo-is-a-flag-about-the-temporary-operator-only"] = isinstance(kw.pop("inplace_mpo", None), bool)
        d["compress-options-passed-on"] = kw.pop("max_bond", None) is a.compress_opts["max_bond"]
        d["no-other-option-invented"] = not kw
        return d


# ------------------------------------------------------------------------------------------------------------
# tensor_network_ag_gate: site -> label mapping of TensorNetworkGenVector.gate(_) and
# TensorNetworkGenOperator.gate(_) / gate_upper(_) / gate_lower(_) / gate_sandwich(_)
# ------------------------------------------------------------------------------------------------------------
class TagSet(Tok):
    """the mutable tag collection handed to the gate: items in insertion order"""


def _tagset(cx, x):
    t = TagSet("tags", items=[x])
    return t


@register
class AGGate(Rec):
    """tensor_network_ag_gate: `which` resolves to site (vector), upper, lower or sandwich (operator default / 'both');
    the targets are the site / upper / lower labels of the sites IN THE GIVEN ORDER (sandwich: all upper labels, then all
    lower labels, to gate_sandwich_inds_); G, contract, dagger, transpose, info and the compress options reach the label
    level unchanged; tags = caller's tags (+ tags_upper / tags_lower for the one-sided routes) + the tags of the tensors
    holding the targets iff the mode is lazy and propagate_tags in (True, 'sites') ('sites': filtered to site tags);
    'register': afterwards the tensor holding target k is tagged with the site tag of where[k]; receiver or its copy"""

    target = f"{TAG}::tensor_network_ag_gate"
    floor = 2000
    WHICH = (("vec", None), ("op", None), ("vec", "site"), ("op", "upper"), ("op", "lower"), ("op", "sandwich"),
             ("op", "both"), ("vec", "bogus"))

    def cases(self):
        out = []
        for kind, which in self.WHICH:
            for n in (0, 2, 3):
                for c in (False, "split-gate", True):
                    for pt in (False, True, "sites", "register", "bogus"):
                        for ip in (False, True):
                            if n == 3 and (ip or c == "split-gate"):
                                continue
                            out.append(NS(name=f"{kind},which={which!r},n={n or 'single'},contract={c!r},propagate={pt!r},"
                                               f"inplace={ip}", kind=kind, which=which, n=n, contract=c, pt=pt, inplace=ip))
        return out

    def inputs(self, cx, case):
        where = Tok("site", single=True) if case.n == 0 else tuple(Tok(f"s{k}") for k in range(case.n))
        return dict(self=Tok("self", kind=case.kind, is_tn=True), G=Tok("G"), where=where, which=case.which,
                    contract=case.contract, dagger=Tok("dagger"), transpose=Tok("transpose"), tags=Tok("tags0"),
                    tags_upper=Tok("tags_upper"), tags_lower=Tok("tags_lower"), propagate_tags=case.pt, info=Tok("info"),
                    inplace=case.inplace, compress_opts={"max_bond": Tok("max_bond")})

    def attr(self, cx, base, attr, node):
        if base is None and attr in ("_VALID_GATE_PROPAGATE", "_LAZY_GATE_CONTRACT"):
            return module_const(TAG, attr)
        if isinstance(base, Tok) and attr in ("upper_ind", "lower_ind", "site_ind") and getattr(base, "is_tn", False):
            return ("bound", base, attr[:-4])
        if isinstance(base, Tok) and attr == "tags" and hasattr(base, "holds"):
            return ("tags-of", base)
        return super().attr(cx, base, attr, node)

    def call(self, cx, name, args, kwargs, node):
        if name == "check_opt":
            nm, value, valid = args
            if not any(type(value) is type(v) and value == v for v in valid):
                raise PyRaise("ValueError", node.lineno)
            return None
        if name == "tags_to_oset":
            return TagSet("tags", items=[args[0]])
        if name == "__isinstance__" and args[1] == "TensorNetworkGenOperator":
            return getattr(args[0], "kind", None) == "op"
        if name == "map" and isinstance(args[0], tuple) and args[0][0] == "bound" and isinstance(args[1], tuple):
            cx.events.append(("map", args[0][1]))
            return tuple(Lbl(args[0][2], s) for s in args[1])
        if name == "oset.union":
            return ("union", tuple(args))
        return super().call(cx, name, args, kwargs, node)

    def leaf(self, cx, name, recv, args, kwargs, node):
        if recv is None:
            return NotImplemented
        if isinstance(recv, TagSet) and name == "update":
            x = args[0]
            recv.items.extend(x.items if isinstance(x, TagSet) else [x])
            return None
        if name == "copy" and getattr(recv, "is_tn", False) and not hasattr(recv, "copy_of"):
            return Tok("copy", kind=recv.kind, is_tn=True, copy_of=recv)
        if name == "has_site":
            return bool(getattr(args[0], "single", False))
        if name == "_inds_get":
            # leaf: the tensors holding the given labels NOW (each target label on one tensor)
            k = len(self.calls(cx, "gate"))
            return tuple(Tok("holder", holds=ix, after_gate=k, net=recv) for ix in args)
        if name == "filter_valid_site_tags":
            return ("site-tags-of", recv, args[0])
        if name == "site_tag":
            return ("site_tag", recv, args[0])
        if name == "add_tag" and hasattr(recv, "holds"):
            cx.events.append(("add_tag", recv, args[0]))
            return None
        if name in ("gate_inds_", "gate_sandwich_inds_"):
            kw = dict(kwargs)
            if isinstance(kw.get("tags"), TagSet):
                kw["tags"] = list(kw["tags"].items)  # snapshot at the time of the call
            return self.record(cx, "gate", recv, [name] + list(args), kw, None)
        return NotImplemented

    def resolved(self, case):
        w = case.which
        if w is None:
            return "sandwich" if case.kind == "op" else "site"
        return "sandwich" if w == "both" else w

    def ensures_raise(self, a, exc, cx, case):
        bad = case.pt == "bogus" or self.resolved(case) == "bogus"
        return {"raises-only-on-invalid-option": exc == "ValueError" and bad,
                "nothing-applied-before-rejecting": not self.calls(cx, "gate") and not [e for e in cx.events if e[0] == "add_tag"]}

    def ensures(self, a, r, cx, case):
        res = self.resolved(case)
        if case.pt == "bogus" or res == "bogus":
            return {"invalid-option-must-raise": False}
        cs = self.calls(cx, "gate")
        d = {"exactly-one-label-level-gate": len(cs) == 1}
        if len(cs) != 1:
            return d
        c = cs[0][2]
        work = c.recv
        d["works-on-receiver-iff-inplace"] = (work is a.self) if case.inplace else (getattr(work, "copy_of", None) is a.self)
        d["returns-the-working-network"] = r is work
        d["labels-asked-from-the-working-network"] = all(e[1] is work for e in cx.events if e[0] == "map")
        sites = (a.where,) if case.n == 0 else a.where
        impl, args = c.args[0], c.args[1:]
        d["gate-array-passed-on"] = bool(args) and args[0] is a.G
        if res == "sandwich":
            d["sandwich-implementation"] = impl == "gate_sandwich_inds_"
            d["upper-labels-in-the-given-site-order"] = len(args) == 3 and same(args[1], tuple(Lbl("upper", s) for s in sites))
            d["lower-labels-in-the-given-site-order"] = len(args) == 3 and same(args[2], tuple(Lbl("lower", s) for s in sites))
            targets = tuple(Lbl("upper", s) for s in sites) + tuple(Lbl("lower", s) for s in sites)
            reg_sites = tuple(sites) + tuple(sites)
        else:
            d["one-sided-implementation"] = impl == "gate_inds_"
            targets = tuple(Lbl(res, s) for s in sites)
            reg_sites = tuple(sites)
            d[f"{res}-labels-in-the-given-site-order"] = len(args) == 2 and same(args[1], targets)
        kw = dict(c.kw)
        d["contract-passed-on"] = same(kw.pop("contract", "missing"), case.contract)
        d["dagger-passed-on"] = kw.pop("dagger", None) is a.dagger
        d["transpose-passed-on"] = kw.pop("transpose", None) is a.transpose
        d["info-passed-on"] = kw.pop("info", None) is a.info
        d["compress-options-passed-on"] = kw.pop("max_bond", None) is a.compress_opts["max_bond"]
        if res == "sandwich":
            d["tags_upper-tags_lower-passed-on"] = kw.pop("tags_upper", None) is a.tags_upper and \
                kw.pop("tags_lower", None) is a.tags_lower
        want = [a.tags]
        if res == "upper":
            want.append(a.tags_upper)
        if res == "lower":
            want.append(a.tags_lower)
        lazy = case.contract is False or case.contract in ("split-gate", "swap-split-gate", "auto-split-gate")
        got = kw.pop("tags", None)
        d["tags-is-a-list-of-contributions"] = isinstance(got, list)
        if isinstance(got, list):
            base, extra = got[:len(want)], got[len(want):]
            d["tags:caller's-(plus-one-sided-tags)"] = same(base, want)
            if lazy and case.pt in (True, "sites"):
                ok = len(extra) == 1
                if ok:
                    u = extra[0]
                    if case.pt == "sites":
                        ok = isinstance(u, tuple) and u[0] == "site-tags-of" and u[1] is work
                        u = u[2] if ok else None
                    ok = ok and isinstance(u, tuple) and u[0] == "union" and len(u[1]) == len(targets) and all(
                        isinstance(x, tuple) and x[0] == "tags-of" and x[1].net is work and x[1].after_gate == 0 and
                        x[1].holds == t for x, t in zip(u[1], targets))
                d["tags:lightcone-of-the-target-tensors-before-gating" + ("-site-tags-only" if case.pt == "sites" else "")] = ok
            else:
                d["tags:nothing-propagated"] = not extra
        d["no-other-option-invented"] = not kw
        adds = [e for e in cx.events if e[0] == "add_tag"]
        if case.pt == "register":
            d["register:one-tag-per-target-after-gating"] = len(adds) == len(targets) and all(
                e[1].net is work and e[1].after_gate == 1 and e[1].holds == t and
                isinstance(e[2], tuple) and e[2][0] == "site_tag" and e[2][1] is work and e[2][2] is s
                for e, t, s in zip(adds, targets, reg_sites))
        else:
            d["no-register-tags"] = not adds
        return d


# ------------------------------------------------------------------------------------------------------------
# maybe_factor_gate
# ------------------------------------------------------------------------------------------------------------
@register
class MaybeFactorGate(Rec):
    """maybe_factor_gate (ng = 1, 2, 3; physical dimension d = 2..5 on the guessing route): a gate already in tensor form
    (ndim == 2 ng) is returned AS IS (no reshape); a matrix is reshaped to the physical dimensions of the targets IN THE
    ORDER OF inds, twice (rows then columns), when the network is known and the array is not block sparse, else to
    (d,) * 2 ng with d**(2 ng) == size"""

    target = f"{GATING}::maybe_factor_gate"
    floor = 100

    def cases(self):
        out = []
        for ng in (1, 2, 3):
            for form in ("tensor", "matrix"):
                for d in (2, 3, 4, 5):
                    for tn in (False, True):
                        for bs in (False, True):
                            for xp in (False, True):
                                if (d > 2 and tn and not bs) or (xp and d > 2):
                                    continue  # d is irrelevant on the inferring route
                                out.append(NS(name=f"ng={ng},{form},d={d},tn={tn},blocksparse={bs},xp given={xp}", ng=ng,
                                              form=form, pd=d, tn=tn, bs=bs, xp=xp))
        return out

    def inputs(self, cx, case):
        nd = 2 * case.ng if case.form == "tensor" else 2
        G = Tok("G", ndim=nd, size=case.pd ** (2 * case.ng), bs=case.bs)
        return dict(G=G, inds=tuple(f"k{j}" for j in range(case.ng)), xp=Tok("xp", is_xp=True) if case.xp else None,
                    tn=Tok("tn") if case.tn else None)

    def attr(self, cx, base, attr, node):
        if base is None and attr == "ar":
            return Tok("ar", is_ar=True)
        return super().attr(cx, base, attr, node)

    def leaf(self, cx, name, recv, args, kwargs, node):
        if recv is None and name == "isblocksparse":
            return args[0].bs
        if recv is not None and getattr(recv, "is_ar", False) and name == "get_namespace":
            return Tok("xp", is_xp=True, of=args[0])
        if recv is not None and getattr(recv, "is_xp", False):
            if name == "ndim":
                return args[0].ndim
            if name == "size":
                return args[0].size
            if name == "reshape":
                return self.record(cx, "reshape", recv, args, kwargs, Tok("G'"))
        if recv is not None and name == "ind_size":
            return ("ind_size", recv, args[0])
        return NotImplemented

    def ensures_raise(self, a, exc, cx, case):
        return {f"no-raise-{exc}": False}

    def ensures(self, a, r, cx, case):
        rs = self.calls(cx, "reshape")
        if case.form == "tensor" or case.ng == 1:
            return {"tensor-form-gate-returned-as-is": r is a.G and not rs}
        d = {"reshaped-exactly-once": len(rs) == 1}
        if len(rs) != 1:
            return d
        c = rs[0][2]
        d["reshapes-the-given-array-and-returns-it"] = len(c.args) == 2 and c.args[0] is a.G and r is c.ret and not c.kw
        d["namespace-of-the-array-unless-given"] = (c.recv is a.xp) if case.xp else (getattr(c.recv, "of", None) is a.G)
        shp = c.args[1] if len(c.args) == 2 else None
        if case.tn and not case.bs:
            dims = tuple(("ind_size", a.tn, ix) for ix in a.inds)
            d["shape-is-(dims-of-inds-in-order)-twice"] = same(shp, dims + dims)
        else:
            d["shape-is-(d,)*2ng-with-d^(2ng)==size"] = same(shp, (case.pd,) * (2 * case.ng))
        return d


# ------------------------------------------------------------------------------------------------------------
# 2D / 3D coordinate wrappers
# ------------------------------------------------------------------------------------------------------------
class _LatticeGate(Rec):
    floor = 30
    NAMES = ()

    def cases(self):
        return [NS(name=f"where={wk},inplace={ip}", wk=wk, inplace=ip) for wk in ("single", "tuple2", "list2", "tuple3")
                for ip in (False, True)]

    def inputs(self, cx, case):
        n = {"single": 0, "tuple2": 2, "list2": 2, "tuple3": 3}[case.wk]
        sites = [Tok(f"coo{k}") for k in range(n)]
        where = Tok("coo", single=True) if n == 0 else (sites if case.wk == "list2" else tuple(sites))
        d = dict(self=Tok("self", is_tn=True), G=Tok("G"), where=where, contract=Tok("contract"), tags=Tok("tags"),
                 inplace=case.inplace, info=Tok("info"), compress_opts={"max_bond": Tok("max_bond")})
        if "propagate_tags" in self.NAMES:
            d["propagate_tags"] = Tok("propagate_tags")
        return d

    def attr(self, cx, base, attr, node):
        if isinstance(base, Tok) and attr == "site_ind" and getattr(base, "is_tn", False):
            return ("bound", base, "site")
        return super().attr(cx, base, attr, node)

    def call(self, cx, name, args, kwargs, node):
        if name in ("super().gate", "super().gate_inds"):
            return self.record(cx, name[8:], cx.env["self"], args, kwargs, Tok("ret"))
        if name == "map" and isinstance(args[0], tuple) and args[0][0] == "bound" and isinstance(args[1], tuple):
            return tuple(Lbl(args[0][2], s) for s in args[1])
        return super().call(cx, name, args, kwargs, node)

    def leaf(self, cx, name, recv, args, kwargs, node):
        if recv is not None and name == "has_site":
            return bool(getattr(args[0], "single", False))
        return NotImplemented

    def ensures_raise(self, a, exc, cx, case):
        return {f"no-raise-{exc}": False}

    def sites(self, a, case):
        return (a.where,) if case.wk == "single" else tuple(a.where)


@register
class Gate2D(_LatticeGate):
    """TensorNetwork2DVector.gate: a single coordinate becomes a 1-tuple, a sequence of coordinates a tuple IN THE GIVEN
    ORDER; the generic arbitrary-geometry gate receives G, the sites and every option unchanged, once"""
    target = "quimb/tensor/tn2d/core.py::TensorNetwork2DVector.gate"
    NAMES = ("propagate_tags",)

    def ensures(self, a, r, cx, case):
        cs = [e for e in cx.events if e[0] == "call"]
        d = {"generic-gate-exactly-once": len(cs) == 1 and cs[0][1] == "gate"}
        if not d["generic-gate-exactly-once"]:
            return d
        c = cs[0][2]
        kw = dict(c.kw)
        d["on-the-receiver-result-returned"] = c.recv is a.self and r is c.ret and not c.args
        d["gate-passed-on"] = kw.pop("G", None) is a.G
        w = kw.pop("where", None)
        d["sites-as-a-tuple-in-the-given-order"] = isinstance(w, tuple) and same(w, self.sites(a, case))
        for k in ("contract", "tags", "propagate_tags", "info"):
            d[f"{k}-passed-on"] = kw.pop(k, None) is a[k]
        d["inplace-passed-on"] = kw.pop("inplace", None) is case.inplace
        d["compress-options-passed-on"] = kw.pop("max_bond", None) is a.compress_opts["max_bond"]
        d["no-other-option-invented"] = not kw
        return d


@register
class Gate3D(_LatticeGate):
    """TensorNetwork3DVector.gate: the site labels of the coordinates IN THE GIVEN ORDER (single coordinate: one label) go
    to gate_inds with G and every option unchanged, once"""
    target = "quimb/tensor/tn3d/core.py::TensorNetwork3DVector.gate"

    def ensures(self, a, r, cx, case):
        cs = [e for e in cx.events if e[0] == "call"]
        d = {"gate_inds-exactly-once": len(cs) == 1 and cs[0][1] == "gate_inds"}
        if not d["gate_inds-exactly-once"]:
            return d
        c = cs[0][2]
        kw = dict(c.kw)
        d["on-the-receiver-result-returned"] = c.recv is a.self and r is c.ret
        d["gate-passed-on"] = len(c.args) == 2 and c.args[0] is a.G
        d["site-labels-in-the-given-order"] = len(c.args) == 2 and isinstance(c.args[1], tuple) and \
            same(c.args[1], tuple(Lbl("site", s) for s in self.sites(a, case)))
        for k in ("contract", "tags", "info"):
            d[f"{k}-passed-on"] = kw.pop(k, None) is a[k]
        d["inplace-passed-on"] = kw.pop("inplace", None) is case.inplace
        d["compress-options-passed-on"] = kw.pop("max_bond", None) is a.compress_opts["max_bond"]
        d["no-other-option-invented"] = not kw
        return d


# ------------------------------------------------------------------------------------------------------------
# Tensor.gate: which axis of G is summed with which axis of the tensor, and where the free axis of G ends up
# ------------------------------------------------------------------------------------------------------------
@register
class TensorGate(Rec):
    """Tensor.gate (ndim 1..4, every axis): x <- G x sums the COLUMN axis (1) of G with the axis of the label, x <- G^T x
    the ROW axis (0); with preserve_inds the free axis of G ends up AT THE POSITION OF THE LABEL and every other axis stays
    where it was (labels untouched); without, the label moves to the front and the other labels keep their order; the
    deprecated spelling `transposed` overrides `transpose`; receiver untouched unless inplace"""

    target = f"{TC}::Tensor.gate"
    floor = 200

    def cases(self):
        out = []
        for nd in (1, 2, 3, 4):
            for ax in range(nd):
                for pres in (True, False):
                    for tr, trd in ((False, None), (True, None), (False, True), (True, False)):
                        for ip in (False, True):
                            if nd == 4 and ip:
                                continue
                            out.append(NS(name=f"ndim={nd},axis={ax},preserve_inds={pres},transpose={tr},transposed={trd},"
                                               f"inplace={ip}", nd=nd, ax=ax, pres=pres, tr=tr, trd=trd, inplace=ip))
        return out

    def inputs(self, cx, case):
        inds = ("a", "b", "c", "d")[:case.nd]
        t = Tok("t", is_t=True, inds=inds, ndim=case.nd, data=Tok("x"))
        return dict(self=t, G=Tok("G"), ind=inds[case.ax], preserve_inds=case.pres, transpose=case.tr, inplace=case.inplace,
                    transposed=case.trd)

    def attr(self, cx, base, attr, node):
        if base is None and attr == "FutureWarning":
            return Tok("FutureWarning")
        if isinstance(base, Tok) and getattr(base, "is_t", False) and attr in ("inds", "ndim", "data"):
            return getattr(base, attr)
        return super().attr(cx, base, attr, node)

    def call(self, cx, name, args, kwargs, node):
        if name == "__tuple__":
            out = []
            for kind, v in args[0]:
                if kind == "item":
                    out.append(v)
                elif isinstance(v, (range, list, tuple)):
                    out.extend(v)
                else:
                    return NotImplemented
            return tuple(out)
        if name == "warnings.warn":
            return None
        if name == "do" and args and args[0] == "tensordot":
            _, A, B, axes = args
            ga, xa = axes
            if not (isinstance(ga, tuple) and isinstance(xa, tuple) and len(ga) == 1 and len(xa) == 1):
                raise Unsupported("tensordot over several axes")
            # numpy: the free axes of A (in order) followed by the free axes of B (in order); A = G is a matrix
            res = Tok("td", A=A, B=B, summed=(ga[0], xa[0]),
                      axes=[("G", k) for k in (0, 1) if k != ga[0]] + [("x", k) for k in range(cx.env["t"].ndim) if k != xa[0]])
            return res
        if name == "do" and args and args[0] == "transpose":
            _, A, perm = args
            perm = tuple(perm)
            if sorted(perm) != list(range(len(A.axes))):
                cx.oblige(f"call-pre@{node.lineno}:transpose:perm-is-a-permutation", "call-pre", False, node.lineno)
                raise PyRaise("ValueError", node.lineno)
            return Tok("tr", A=A.A, B=A.B, summed=A.summed, axes=[A.axes[p] for p in perm])
        return super().call(cx, name, args, kwargs, node)

    def leaf(self, cx, name, recv, args, kwargs, node):
        if recv is not None and getattr(recv, "is_t", False):
            if name == "copy":
                return Tok("copy", is_t=True, inds=recv.inds, ndim=recv.ndim, data=recv.data, copy_of=recv)
            if name == "modify":
                cx.events.append(("modify", recv, dict(kwargs), list(args)))
                return None
        return NotImplemented

    def ensures_raise(self, a, exc, cx, case):
        return {f"no-raise-{exc}": False}

    def ensures(self, a, r, cx, case):
        mods = [e for e in cx.events if e[0] == "modify"]
        d = {"tensor-modified-exactly-once": len(mods) == 1 and not mods[0][3]}
        if not d["tensor-modified-exactly-once"]:
            return d
        _, t, kw, _ = mods[0]
        d["works-on-receiver-iff-inplace"] = (t is a.self) if case.inplace else (getattr(t, "copy_of", None) is a.self)
        d["returns-the-working-tensor"] = r is t
        nd_ = kw.get("data")
        d["new-data-is-G-contracted-with-the-tensor's-data"] = hasattr(nd_, "summed") and nd_.A is a.G and nd_.B is a.self.data
        if not hasattr(nd_, "summed"):
            return d
        eff_t = case.tr if case.trd is None else case.trd
        d["G-summed-over-its-COLUMN-axis--ROW-axis-when-transposed"] = nd_.summed[0] == (0 if eff_t else 1)
        d["tensor-summed-over-the-axis-of-the-label"] = nd_.summed[1] == case.ax
        free = ("G", 1 if eff_t else 0)
        inds = kw.get("inds", a.self.inds)
        d["labels-are-a-tuple-of-ndim"] = isinstance(inds, tuple) and len(inds) == case.nd and len(nd_.axes) == case.nd
        if not d["labels-are-a-tuple-of-ndim"]:
            return d
        if case.pres:
            d["labels-untouched"] = "inds" not in kw and set(kw) == {"data"}
        else:
            d["label-first-others-in-order"] = same(inds, (a.ind,) + tuple(x for x in a.self.inds if x != a.ind)) and \
                set(kw) == {"data", "inds"}
        for k, lab in enumerate(inds):
            want = free if lab == a.ind else ("x", a.self.inds.index(lab))
            d[f"axis{k}:label-{lab}-on-" + ("the-free-axis-of-G" if lab == a.ind else "its-old-tensor-axis")] = nd_.axes[k] == want
        return d


# ------------------------------------------------------------------------------------------------------------
# the sub-operator route: TensorNetworkGenVector.gate_with_op_lazy and MatrixProductState.gate_with_submpo
# ------------------------------------------------------------------------------------------------------------
@register
class GateWithOpLazy(Rec):
    """TensorNetworkGenVector.gate_with_op_lazy: A x joins the LOWER labels of A to the state, the transposed application
    the UPPER ones (C09 contract of tensor_network_apply_op_vec: which_A names the side of A that is contracted with x);
    nothing is contracted; inplace / inplace_op / further options unchanged"""
    target = f"{TAG}::TensorNetworkGenVector.gate_with_op_lazy"
    floor = 20

    def cases(self):
        return [NS(name=f"transpose={t},inplace={ip},inplace_op={io}", transpose=t, inplace=ip, inplace_op=io)
                for t in (False, True) for ip in (False, True) for io in (False, True)]

    def inputs(self, cx, case):
        return dict(self=Tok("self"), A=Tok("A"), transpose=case.transpose, inplace=case.inplace, inplace_op=case.inplace_op,
                    kwargs={"fuse_multibonds": Tok("fuse_multibonds")})

    def leaf(self, cx, name, recv, args, kwargs, node):
        if recv is None and name == "tensor_network_apply_op_vec":
            return self.record(cx, name, None, args, kwargs, Tok("ret"))
        return NotImplemented

    def ensures_raise(self, a, exc, cx, case):
        return {f"no-raise-{exc}": False}

    def ensures(self, a, r, cx, case):
        cs = [e for e in cx.events if e[0] == "call"]
        d = {"apply_op_vec-exactly-once": len(cs) == 1}
        if len(cs) != 1:
            return d
        c = cs[0][2]
        kw = dict(c.kw)
        d["result-returned"] = r is c.ret and not c.args
        d["operator-and-state"] = kw.pop("A", None) is a.A and kw.pop("x", None) is a.self
        d["lower-side-of-A-meets-the-state--upper-when-transposed"] = same(kw.pop("which_A", None), "upper" if case.transpose else "lower")
        d["lazy:nothing-contracted"] = kw.pop("contract", None) is False
        d["inplace-passed-on"] = kw.pop("inplace", None) is case.inplace
        d["inplace_op-passed-on"] = kw.pop("inplace_A", None) is case.inplace_op
        d["other-options-passed-on"] = kw.pop("fuse_multibonds", None) is a.kwargs["fuse_multibonds"]
        d["no-other-option-invented"] = not kw
        return d


@register
class MPSGateWithSubMPO(Rec):
    """MatrixProductState.gate_with_submpo (sites symbolic, any order): unless lazy the state is first made canonical around
    [min(where), max(where)]; the operator is attached once with the caller's transpose flag; lazy returns right there;
    otherwise exactly the site tags min..max are split off, compressed with the caller's method and options (no array
    permutation, in place), cur_orthog = (min, min) -- (max, max) with sweep_reverse -- and the region is joined back"""
    target = f"{T1D}::MatrixProductState.gate_with_submpo"
    floor = 40

    def cases(self):
        out = []
        for wk in ("none", "2", "3"):
            for method in ("lazy", "direct"):
                for ip in (False, True):
                    for sr in ("absent", False, True):
                        if wk == "3" and (ip or sr is False):
                            continue
                        out.append(NS(name=f"where={wk},method={method},inplace={ip},sweep_reverse={sr}", wk=wk, method=method,
                                      inplace=ip, sr=sr))
        return out

    def inputs(self, cx, case):
        n = 3 if case.wk == "3" else 2
        sites = tuple(cx.Int(f"s{k}") for k in range(n))
        opts = {"max_bond": Tok("max_bond")}
        if case.sr != "absent":
            opts["sweep_reverse"] = case.sr
        return dict(self=Tok("self", is_mps=True), submpo=Tok("submpo", sites=sites), where=None if case.wk == "none" else sites,
                    method=case.method, transpose=Tok("transpose"), info={}, inplace=case.inplace, inplace_mpo=Tok("inplace_mpo"),
                    compress_opts=opts)

    def call(self, cx, name, args, kwargs, node):
        if name == "__genexp__":
            import ast
            comp = args[0]
            g = comp.generators[0]
            if isinstance(comp, ast.ListComp) and isinstance(g.iter, ast.Call) and ast.unparse(g.iter.func) == "range" and \
                    ast.unparse(comp.elt) == f"psi.site_tag({ast.unparse(g.target)})" and not g.ifs and len(g.iter.args) == 2:
                return Tok("site-tags", lo=cx.ev(g.iter.args[0]), hi=cx.ev(g.iter.args[1]), net=cx.env["psi"])
            return NotImplemented
        if name == "__binop__" and args[0] == "BitOr" and isinstance(args[1], Tok):
            cx.events.append(("ior", args[1], args[2]))
            return args[1]
        return super().call(cx, name, args, kwargs, node)

    def leaf(self, cx, name, recv, args, kwargs, node):
        if recv is None and name == "tensor_network_1d_compress":
            return self.record(cx, "compress", None, args, kwargs, None)
        if recv is None:
            return NotImplemented
        if name == "copy" and getattr(recv, "is_mps", False):
            return Tok("copy", is_mps=True, copy_of=recv)
        if name == "gen_sites_present":
            return recv.sites
        if name in ("canonicalize_", "gate_with_op_lazy_"):
            return self.record(cx, name, recv, args, kwargs, None)
        if name == "partition":
            rest, sub = Tok("rest"), Tok("subpsi")
            self.record(cx, "partition", recv, args, kwargs, sub)
            return (rest, sub)
        return NotImplemented

    def ensures_raise(self, a, exc, cx, case):
        return {f"no-raise-{exc}": False}

    def ensures(self, a, r, cx, case):
        from vf.pyvc import Min, Max
        sites = a.submpo.sites if a.where is None else a.where
        lo, hi = sites[0], sites[0]
        for s in sites[1:]:
            lo, hi = Min(lo, s), Max(hi, s)
        ev = [e for e in cx.events if e[0] in ("call", "ior")]
        names = [e[1] if e[0] == "call" else "ior" for e in ev]
        want = ["gate_with_op_lazy_"] if case.method == "lazy" else \
            ["canonicalize_", "gate_with_op_lazy_", "partition", "compress", "ior"]
        d = {"steps-in-order": names == want}
        if names != want:
            return d
        by = {n: e for n, e in zip(names, ev)}
        g = by["gate_with_op_lazy_"][2]
        psi = g.recv
        d["works-on-receiver-iff-inplace"] = (psi is a.self) if case.inplace else (getattr(psi, "copy_of", None) is a.self)
        d["returns-the-working-state"] = r is psi
        d["operator-attached-with-the-caller's-transpose-flag"] = len(g.args) == 1 and g.args[0] is a.submpo and \
            g.kw.get("transpose") is a.transpose and g.kw.get("inplace_op") is a.inplace_mpo and set(g.kw) == {"transpose", "inplace_op"}
        if case.method == "lazy":
            d["lazy:cur_orthog-not-claimed"] = "cur_orthog" not in a.info
            return d
        c = by["canonicalize_"][2]
        d["canonical-around-[min,max]-of-the-sites"] = c.recv is psi and len(c.args) == 1 and isinstance(c.args[0], tuple) and \
            len(c.args[0]) == 2 and And(c.args[0][0] == lo, c.args[0][1] == hi)
        d["canonicalize-info"] = c.kw.get("info") is a.info and set(c.kw) == {"info"}
        p = by["partition"][2]
        tg = p.args[0] if p.args else None
        d["region-split-off-is-site-tags-min..max"] = p.recv is psi and len(p.args) == 1 and hasattr(tg, "lo") and tg.net is psi and \
            And(tg.lo == lo, tg.hi == hi + 1)
        d["partition-any-in-place"] = same(p.kw.get("which"), "any") and p.kw.get("inplace") is True and set(p.kw) == {"which", "inplace"}
        k = by["compress"][2]
        kw = dict(k.kw)
        d["compresses-the-region"] = len(k.args) == 1 and k.args[0] is p.ret
        d["compress-site-tags-of-the-region"] = kw.pop("site_tags", None) is tg
        d["method-passed-on"] = same(kw.pop("method", None), case.method)
        d["no-permutation-in-place"] = kw.pop("permute_arrays", None) is False and kw.pop("inplace", None) is True
        d["compress-options-passed-on"] = kw.pop("max_bond", None) is a.compress_opts["max_bond"] and \
            (case.sr == "absent" or kw.pop("sweep_reverse", None) is case.sr)
        d["no-other-option-invented"] = not kw
        co = a.info.get("cur_orthog")
        end = hi if case.sr is True else lo
        d["cur_orthog-at-the-end-the-sweep-stops"] = isinstance(co, tuple) and len(co) == 2 and And(co[0] == end, co[1] == end)
        d["region-joined-back"] = by["ior"][1] is psi and by["ior"][2] is p.ret
        return d


# ------------------------------------------------------------------------------------------------------------
# tensor_network_ag_gate_simple: 1 site | 2 neighbouring sites (gauged) | 2 disconnected sites (long range) | > 2 tensors
# ------------------------------------------------------------------------------------------------------------
@register
class AGGateSimple(Rec):
    """tensor_network_ag_gate_simple: on every route the caller's G, the sites in the given order and BOTH flags dagger and
    transpose reach the gate leaf unchanged.  One tensor: tensor_network_ag_gate(tn, G, where, contract=True, dagger,
    transpose, inplace=True), no gauges touched.  Two disconnected tensors: the long-range routine gets every option.
    Two bonded tensors: the two tensors are selected, the gauges are inserted around them (caller's gauges, smudge, power,
    outer only) BEFORE and the gate call lies INSIDE that with-block (removal on exit), the gate gets max_bond / cutoff /
    info and the gate options (absorb=None, contract='reduce-split' unless given), the new bond gauge reported by the
    split is stored under the bond label, normalised iff renorm, nothing else in gauges changes.  More than two tensors:
    NotImplementedError before anything is applied.  Result: the working network (copy iff not inplace)"""

    target = f"{TAG}::tensor_network_ag_gate_simple"
    floor = 300

    def cases(self):
        out = []
        for wk, routes in (("single", ("1",)), ("tuple1", ("1",)), ("tuple2", ("1", "2nn", "2lr", "3+")), ("list2", ("2nn", "2lr"))):
            for route in routes:
                for ip in (False, True):
                    for opts in ("none", "given"):
                        for renorm in (True, False):
                            for info in ("none", "dict"):
                                if route != "2nn" and (renorm is False or info == "dict") and route != "2lr":
                                    continue
                                out.append(NS(name=f"where={wk},route={route},inplace={ip},gate_opts={opts},renorm={renorm},"
                                                   f"info={info}", wk=wk, route=route, inplace=ip, opts=opts, renorm=renorm,
                                              info=info))
        return out

    def inputs(self, cx, case):
        s0, s1 = Tok("s0"), Tok("s1")
        where = {"single": s0, "tuple1": (s0,), "tuple2": (s0, s1), "list2": [s0, s1]}[case.wk]
        if case.route == "3+":
            n = cx.Int("ntids")
            cx.assume(n >= 3)
            tids = WSeq("tids", n=n)
        else:
            tids = tuple(Tok(f"tid{k}") for k in range(1 if case.route == "1" else 2))
        tn = Tok("self", is_tn=True, tids=tids, bonded=case.route == "2nn")
        go = {"propagate_tags": Tok("propagate_tags")}
        if case.opts == "given":
            go.update(absorb=Tok("absorb"), contract=Tok("contract"))
        tn.old_gauge = Tok("old-gauge")  # snapshot of the entry content of the (mutable) gauges dict
        return dict(self=tn, G=Tok("G"), where=where, gauges={"old-bond": tn.old_gauge}, dagger=Tok("dagger"),
                    transpose=Tok("transpose"), max_bond=Tok("max_bond"), cutoff=Tok("cutoff"), renorm=case.renorm,
                    smudge=Tok("smudge"), power=Tok("power"), path=Tok("path"), info=None if case.info == "none" else {},
                    inplace=case.inplace, gate_opts=go)

    def attr(self, cx, base, attr, node):
        if isinstance(base, Tok) and getattr(base, "is_tn", False) and attr == "site_tag":
            return ("bound", base, "tag")
        if isinstance(base, Tok) and getattr(base, "is_tn", False) and attr == "tensor_map":
            return Tok("tensor_map", of=base)
        return super().attr(cx, base, attr, node)

    def call(self, cx, name, args, kwargs, node):
        if name == "__isinstance__" and args[1].replace(" ", "") in ("(tuple,list)", "(list,tuple)"):
            return isinstance(args[0], (tuple, list))
        if name == "warnings.warn":
            return None
        if name == "map" and isinstance(args[0], tuple) and args[0][0] == "bound" and isinstance(args[1], (tuple, list)):
            return tuple(Lbl(args[0][2], s) for s in args[1])
        if name == "__getitem__" and isinstance(args[0], Tok) and args[0].name == "tensor_map":
            return Tok("tensor", tid=args[1], net=args[0].of)
        if name == "do" and args and args[0] == "linalg.norm":
            return Tok("norm", of=args[1])
        if name == "__binop__" and args[0] == "Div" and isinstance(args[1], Tok) and isinstance(args[2], Tok):
            return Tok("quot", num=args[1], den=args[2])
        return super().call(cx, name, args, kwargs, node)

    def leaf(self, cx, name, recv, args, kwargs, node):
        if recv is None and name == "tensor_network_ag_gate":
            info = kwargs.get("info")
            if isinstance(info, dict) and not info and kwargs.get("contract") is not True:
                # the split leaf reports the new singular values under (kind, bond label)
                info[("singular_values", Tok("new-bond"))] = Tok("s-new")
            e = self.record(cx, "ag_gate", None, args, kwargs, args[0] if args else None)
            cx.events[-1][2].line = node.lineno
            cx.events[-1][2].info_snapshot = dict(info) if isinstance(info, dict) else None
            return e
        if recv is None and name == "tensor_network_ag_gate_simple_long_range":
            return self.record(cx, "long_range", None, args, kwargs, args[0] if args else None)
        if recv is None:
            return NotImplemented
        if name == "copy" and getattr(recv, "is_tn", False) and not hasattr(recv, "copy_of"):
            return Tok("copy", is_tn=True, tids=recv.tids, bonded=recv.bonded, copy_of=recv)
        if name == "_get_tids_from_tags" and getattr(recv, "is_tn", False):
            self.record(cx, "tids", recv, args, kwargs, recv.tids)
            return recv.tids
        if name == "bonds" and recv.name == "tensor" and args and getattr(args[0], "name", "") == "tensor":
            self.record(cx, "bonds", recv, args, kwargs, None)
            return ("bond",) if recv.net.bonded else ()
        if name == "_select_tids" and getattr(recv, "is_tn", False):
            return self.record(cx, "select", recv, args, kwargs, Tok("tn_where", is_tn=True, tids=args[0], bonded=True, sel_of=recv))
        if name == "gauge_simple_temp":
            r = self.record(cx, "gauge_temp", recv, args, kwargs, Tok("gauge-context"))
            cx.events[-1][2].line = node.lineno
            return r
        return NotImplemented

    def ensures_raise(self, a, exc, cx, case):
        applied = [e for e in cx.events if e[0] == "call" and e[1] in ("ag_gate", "long_range", "gauge_temp")]
        return {"raises-only-for-more-than-two-tensors": exc == "NotImplementedError" and case.route == "3+",
                "nothing-applied-before-rejecting": not applied,
                "gauges-untouched-when-rejecting": list(a.gauges.items()) == [("old-bond", a.self.old_gauge)]}

    def ensures(self, a, r, cx, case):
        import ast
        from vf.pyvc import load_function
        if case.route == "3+":
            return {"more-than-two-tensors-must-raise": False}
        cs = {n: self.calls(cx, n) for n in ("tids", "bonds", "select", "gauge_temp", "ag_gate", "long_range")}
        d = {"tensors-looked-up-once": len(cs["tids"]) == 1}
        if not d["tensors-looked-up-once"]:
            return d
        t = cs["tids"][0][2]
        work = t.recv
        d["works-on-receiver-iff-inplace"] = (work is a.self) if case.inplace else (getattr(work, "copy_of", None) is a.self)
        d["returns-the-working-network"] = r is work
        sites = (a.where,) if case.wk == "single" else tuple(a.where)
        d["tensors-of-the-site-tags-of-the-sites-any"] = len(t.args) == 2 and same(t.args[0], tuple(Lbl("tag", s) for s in sites)) \
            and same(t.args[1], "any")
        old_gauge = [("old-bond", a.self.old_gauge)]

        def where_ok(w):
            if case.wk == "single":
                return isinstance(w, tuple) and len(w) == 1 and w[0] is a.where
            return w is a.where

        if case.route == "1":
            d["one-site:exactly-one-gate-no-gauging"] = len(cs["ag_gate"]) == 1 and not cs["long_range"] and not cs["gauge_temp"]
            if not d["one-site:exactly-one-gate-no-gauging"]:
                return d
            c = cs["ag_gate"][0][2]
            kw = dict(c.kw)
            d["one-site:on-the-working-network"] = len(c.args) == 1 and c.args[0] is work
            d["one-site:gate-array-passed-on"] = kw.pop("G", None) is a.G
            d["one-site:sites-in-the-given-order"] = where_ok(kw.pop("where", None))
            d["one-site:contracted-into-the-tensor"] = kw.pop("contract", None) is True
            d["one-site:dagger-passed-on"] = kw.pop("dagger", None) is a.dagger
            d["one-site:transpose-passed-on"] = kw.pop("transpose", None) is a.transpose
            d["one-site:in-place-on-the-working-network"] = kw.pop("inplace", None) is True
            d["one-site:no-other-option-invented"] = not kw
            d["one-site:gauges-untouched"] = same(list(a.gauges.items()), old_gauge)
            return d
        d["two-sites:connectivity-of-the-two-tensors-tested"] = len(cs["bonds"]) == 1 and \
            {cs["bonds"][0][2].recv.tid, cs["bonds"][0][2].args[0].tid} == set(work.tids) and cs["bonds"][0][2].recv.net is work
        if case.route == "2lr":
            d["long-range:exactly-one-long-range-gate-nothing-else"] = len(cs["long_range"]) == 1 and not cs["ag_gate"] and \
                not cs["gauge_temp"]
            if not d["long-range:exactly-one-long-range-gate-nothing-else"]:
                return d
            c = cs["long_range"][0][2]
            kw = dict(c.kw)
            d["long-range:on-the-working-network"] = len(c.args) == 1 and c.args[0] is work
            d["long-range:gate-array-passed-on"] = kw.pop("G", None) is a.G
            d["long-range:sites-in-the-given-order"] = where_ok(kw.pop("where", None))
            d["long-range:gauges-passed-on"] = kw.pop("gauges", None) is a.gauges
            for k in ("dagger", "transpose", "max_bond", "cutoff", "smudge", "power", "path"):
                d[f"long-range:{k}-passed-on"] = kw.pop(k, None) is a[k]
            d["long-range:renorm-passed-on"] = kw.pop("renorm", None) is case.renorm
            d["long-range:info-passed-on"] = kw.pop("info", "missing") is cx.old.info
            d["long-range:in-place-on-the-working-network"] = kw.pop("inplace", None) is True
            d["long-range:gate-options-passed-on"] = all(kw.pop(k, None) is v for k, v in cx.old.gate_opts.items())
            d["long-range:no-other-option-invented"] = not kw
            return d
        # two bonded tensors
        order = [e[1] for e in cx.events if e[0] == "call" and e[1] in ("select", "gauge_temp", "ag_gate", "long_range")]
        d["nn:select-then-gauge-then-gate"] = order == ["select", "gauge_temp", "ag_gate"]
        if not d["nn:select-then-gauge-then-gate"]:
            return d
        sel, gt, c = cs["select"][0][2], cs["gauge_temp"][0][2], cs["ag_gate"][0][2]
        d["nn:the-two-tensors-are-selected-from-the-working-network"] = sel.recv is work and len(sel.args) == 1 and sel.args[0] is work.tids
        d["nn:gauges-inserted-around-the-selection"] = gt.recv is sel.ret and len(gt.args) == 1 and gt.args[0] is a.gauges
        d["nn:smudge-passed-on"] = gt.kw.get("smudge") is a.smudge
        d["nn:power-passed-on"] = gt.kw.get("power") is a.power
        d["nn:inner-bond-gauge-kept-in-(tracked-through-the-split)"] = gt.kw.get("ungauge_inner") is False and \
            set(gt.kw) == {"smudge", "power", "ungauge_inner"}
        # lexical bracket: the gate call lies inside the with-block whose context expression is the gauge insertion
        fn = load_function(self.target)[0]
        withs = [w for w in ast.walk(fn) if isinstance(w, ast.With) and
                 w.items[0].context_expr.lineno <= gt.line <= w.items[0].context_expr.end_lineno]
        d["nn:gate-applied-inside-the-gauge-bracket"] = len(withs) == 1 and \
            withs[0].body[0].lineno <= c.line <= withs[0].end_lineno
        kw = dict(c.kw)
        d["nn:gate-on-the-gauged-selection"] = len(c.args) == 1 and c.args[0] is sel.ret
        d["nn:gate-array-passed-on"] = kw.pop("G", None) is a.G
        d["nn:sites-in-the-given-order"] = where_ok(kw.pop("where", None))
        d["nn:dagger-passed-on"] = kw.pop("dagger", None) is a.dagger
        d["nn:transpose-passed-on"] = kw.pop("transpose", None) is a.transpose
        d["nn:max_bond-passed-on"] = kw.pop("max_bond", None) is a.max_bond
        d["nn:cutoff-passed-on"] = kw.pop("cutoff", None) is a.cutoff
        d["nn:in-place-on-the-selection"] = kw.pop("inplace", None) is True
        info = kw.pop("info", None)
        d["nn:info-is-the-caller's-dict-else-a-new-one"] = isinstance(info, dict) and (case.info == "none" or info is cx.old.info)
        go = cx.old.gate_opts
        d["nn:absorb-None-unless-given"] = (kw.pop("absorb", "missing") is go["absorb"]) if case.opts == "given" else \
            (kw.pop("absorb", "missing") is None)
        d["nn:contract-reduce-split-unless-given"] = (kw.pop("contract", None) is go["contract"]) if case.opts == "given" else \
            same(kw.pop("contract", None), "reduce-split")
        d["nn:other-gate-options-passed-on"] = kw.pop("propagate_tags", None) is go["propagate_tags"]
        d["nn:no-other-option-invented"] = not kw
        rep = list((c.info_snapshot or {}).items())
        d["nn:split-reported-one-bond-gauge"] = len(rep) == 1
        if len(rep) == 1:
            (_, ix), s = rep[0]
            new = [(k, v) for k, v in a.gauges.items() if not (k == "old-bond" and v is a.self.old_gauge)]
            d["nn:only-the-gated-bond's-gauge-changes"] = all(a.gauges.get(k) is v for k, v in old_gauge) and \
                len(a.gauges) == len(old_gauge) + 1 and len(new) == 1 and new[0][0] is ix
            if len(new) == 1:
                g = new[0][1]
                d["nn:new-gauge-is-the-split's-singular-values-normalised-iff-renorm"] = \
                    (getattr(g, "num", None) is s and getattr(getattr(g, "den", None), "of", None) is s) if case.renorm else g is s
        return d
