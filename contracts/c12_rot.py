"""C12 -- the coordinate rotators of the boundary-contraction cores (tn2d/core.py::Rotator2D, tn3d/core.py::Rotator3D).

Every boundary core (2D: _contract_boundary_core, _contract_boundary_projector, ...; 3D likewise) is written once, for a
sweep along the rotated x axis, and sees the lattice only through a Rotator: ranges (imin..kmax), the row / column / site tag
functions, the periodicity predicates and the sweep.  The bond cap and the exactness of C12 therefore hold from EVERY side only
if the rotated view is one consistent relabelling of the lattice axes.  That is a statement about a function of finitely
many discrete arguments (from_which x ranges given | None x range orientation; everything else is passed through), so
it is decided by executing the REAL class body -- cut out of the checked tree's source on every run, compiled unchanged -- on
its complete discrete domain against a recording lattice whose axes are distinguishable (kind 'fdx').

Obligations per class and side (id: <file>::<Rotator>::<label>[<from_which>]):
  axes-bijection        the three (two) rotated ranges are the lattice's ranges of pairwise different axes, sorted, and the
                        swept axis (rotated x) is the axis named by from_which;  None ranges = the whole lattice
  tags-same-axes        x_tag / y_tag / z_tag are the lattice's tag functions of exactly those axes
  site-tag-same-axes    site_tag(a, b, c) is the lattice's site tag with a, b, c placed on exactly those axes
  cyclic-same-axes      cyclic_x / _y / _z ask the lattice's periodicity predicate of exactly those axes, at the middle of the
                        other two ranges (in the predicate's own argument order) and between the ends of the own range, and
                        return its answer
  next-wraps-iff-cyclic get_jnext / get_knext: + 1 inside the range, wrap to the start iff that rotated axis is periodic,
                        None otherwise
  sweep-from-the-side   'min': first .. last ascending, istep = +stepsize;  'max': last .. first descending, istep = -stepsize
Trusted: python's class / property semantics; functools.cached_property caches per instance (fresh instance per query);
check_opt raises unless the value is valid (an invalid side must raise: obligation rejects-unknown-side)."""
import ast
import functools
import itertools
import os
import time

from vf.framework import ObResult

T2 = "quimb/tensor/tn2d/core.py"
T3 = "quimb/tensor/tn3d/core.py"


def _root():
    return os.path.realpath(os.environ.get("VERIF_REPO", "/repo"))


def _load_class(root, rel, name):
    """the real class statement, compiled unchanged in a namespace holding only what its body refers to"""
    src = open(os.path.join(root, rel)).read()
    node = next(n for n in ast.parse(src).body if isinstance(n, ast.ClassDef) and n.name == name)
    mod = ast.Module(body=[node], type_ignores=[])

    def check_opt(name, value, valid):
        if value not in valid:
            raise ValueError(f"{name} = {value!r} not in {valid}")

    ns = dict(check_opt=check_opt, itertools=itertools, functools=functools)
    exec(compile(mod, os.path.join(root, rel), "exec"), ns)
    return ns[name]


class _Lattice:
    """recording lattice: axis a has length L[a]; tag functions and predicates are distinguishable per axis"""

    def __init__(self, dims, cyclic):
        self.dims, self.cyc, self.calls = dims, cyclic, []
        names = "xyz"[: len(dims)]
        for a, c in enumerate(names):
            setattr(self, "L" + c, dims[a])
            setattr(self, c + "_tag", functools.partial(self._tag, a))
            setattr(self, "is_cyclic_" + c, functools.partial(self._is_cyclic, a))

    def _tag(self, a, i):
        return ("tag", a, i)

    def site_tag(self, *coo):
        return ("site",) + tuple(coo)

    def _is_cyclic(self, a, *args):
        self.calls.append((a, args))
        return self.cyc[a]


def _obligations(root, rel, cname, nd):
    out = []
    fn = f"{rel}::{cname}"
    t0 = time.time()
    try:
        R = _load_class(root, rel, cname)
    except Exception as e:  # noqa
        return [ObResult(f"{fn}::loadable", "fdx", "unknown", "exhaustive", 0.0, function=fn, detail=f"{type(e).__name__}: {e}", engine="fdx")]
    dims = (11, 17, 29)[:nd]
    given = ((2, 7), (3, 12), (5, 20))[:nd]  # pairwise different ranges with pairwise different midpoints and ends
    sides = [c + m for c in "xyz"[:nd] for m in ("min", "max")]

    def ob(label, side, bad, n):
        out.append(ObResult(f"{fn}::{label}[{side}]", "fdx", "failed" if bad else "discharged", "exhaustive", 0.0, function=fn,
                            model=(dict(from_which=side, **bad) if bad else None), detail=f"{n} configurations", engine="fdx"))

    for side in sides:
        bads = {k: None for k in ("axes-bijection", "tags-same-axes", "site-tag-same-axes", "cyclic-same-axes",
                                  "next-wraps-iff-cyclic", "sweep-from-the-side")}
        n = 0
        steps = (1, 2) if nd == 2 else (None,)
        for use_given, flips, cyc, step in itertools.product((True, False), itertools.product((False, True), repeat=nd),
                                                             itertools.product((False, True), repeat=nd), steps):
            n += 1
            full = tuple((0, d - 1) for d in dims)
            rng = given if use_given else full
            args = [(r[::-1] if f else r) for r, f in zip(rng, flips)] if use_given else [None] * nd
            cfg = dict(ranges=args, cyclic=cyc, stepsize=step)

            def fresh():
                lat = _Lattice(dims, cyc)
                r = R(lat, *args, side) if step is None else R(lat, *args, side, stepsize=step)
                return lat, r
            try:
                lat, r = fresh()
                names = "ijk"[:nd]
                got = [(getattr(r, c + "min"), getattr(r, c + "max")) for c in names]
                # which lattice axis does each rotated axis show?  (ranges are pairwise different)
                sig = [rng.index(g) if g in rng else None for g in got]
                if None in sig or len(set(sig)) != nd or sig[0] != "xyz".index(side[0]) or r.plane != side[0]:
                    bads["axes-bijection"] = bads["axes-bijection"] or dict(cfg, rotated_ranges=got, lattice_ranges=rng)
                    continue
                tags = [getattr(r, c + "_tag") for c in "xyz"[:nd]]
                if any(tags[q](4) != ("tag", sig[q], 4) for q in range(nd)):
                    bads["tags-same-axes"] = bads["tags-same-axes"] or dict(cfg, axes=sig, got=[t(4) for t in tags])
                probe = (101, 102, 103)[:nd]
                want = [None] * nd
                for q in range(nd):
                    want[sig[q]] = probe[q]
                if r.site_tag(*probe) != ("site",) + tuple(want):
                    bads["site-tag-same-axes"] = bads["site-tag-same-axes"] or dict(cfg, axes=sig, got=r.site_tag(*probe), want=want)
                for q in range(nd):
                    lat, r = fresh()
                    ans = getattr(r, "cyclic_" + "xyz"[q])
                    a = sig[q]
                    others = [(a + s) % nd for s in range(1, nd)]  # the predicate's own argument order: next axes, cyclically
                    exp = (a, tuple((rng[o][0] + rng[o][1]) // 2 for o in others) + tuple(rng[a]))
                    if lat.calls != [exp] or ans is not cyc[a]:
                        bads["cyclic-same-axes"] = bads["cyclic-same-axes"] or dict(cfg, rotated_axis="xyz"[q], lattice_axis=a,
                                                                                  asked=lat.calls, expected=[exp])
                for q, getter in ((1, "get_jnext"), (2, "get_knext"))[: nd - 1]:
                    lat, r = fresh()
                    lo, hi = rng[sig[q]]
                    g = getattr(r, getter)
                    if g(lo) != lo + 1 or g(hi - 1) != hi or g(hi) != (lo if cyc[sig[q]] else None):
                        bads["next-wraps-iff-cyclic"] = bads["next-wraps-iff-cyclic"] or dict(cfg, getter=getter, at_end=g(hi), periodic=cyc[sig[q]])
                lo, hi = rng[sig[0]]
                st = step or 1
                exp_sweep = list(range(lo, hi + 1, st)) if side.endswith("min") else list(range(hi, lo - 1, -st))
                if list(r.sweep) != exp_sweep or r.istep != (st if side.endswith("min") else -st):
                    bads["sweep-from-the-side"] = bads["sweep-from-the-side"] or dict(cfg, sweep=list(r.sweep), istep=r.istep)
                if nd == 3:
                    so = list(r.sweep_other)
                    if so != list(itertools.product(range(rng[sig[1]][0], rng[sig[1]][1] + 1), range(rng[sig[2]][0], rng[sig[2]][1] + 1))):
                        bads["axes-bijection"] = bads["axes-bijection"] or dict(cfg, sweep_other=so[:4])
                else:
                    if list(r.sweep_other) != list(range(rng[sig[1]][0], rng[sig[1]][1] + 1)):
                        bads["axes-bijection"] = bads["axes-bijection"] or dict(cfg, sweep_other=list(r.sweep_other)[:4])
            except Exception as e:  # noqa: the real code raised on a valid request
                bads["axes-bijection"] = bads["axes-bijection"] or dict(cfg, raised=f"{type(e).__name__}: {e}")
        for k, b in bads.items():
            ob(k, side, b, n)
    # an unknown side must be rejected
    bad = None
    for side in ("x", "min", "wmin", None, "XMIN") + (("zmin",) if nd == 2 else ()):
        try:
            R(_Lattice(dims, (False,) * nd), *([None] * nd), side)
            bad = dict(from_which=side, accepted=True)
        except ValueError:
            pass
        except Exception as e:  # noqa
            bad = dict(from_which=side, raised=f"{type(e).__name__}: {e}")
    out.append(ObResult(f"{fn}::rejects-unknown-side", "fdx", "failed" if bad else "discharged", "exhaustive", 0.0, function=fn,
                        model=bad, engine="fdx"))
    dt = (time.time() - t0) / max(1, len(out))
    for o in out:
        o.solver_s = dt
    return out


def rotator_obligations(root=None):
    root = root or _root()
    return _obligations(root, T2, "Rotator2D", 2) + _obligations(root, T3, "Rotator3D", 3)


def provider_rotators(tier="quick"):
    return rotator_obligations()
