"""C04 extension: bookkeeping of the representation-changing rewrites, decided on the REAL source.

Technique (providers, no paraphrase of any body): the FunctionDef of the target is re-read from <root>/quimb/... on
every run (root = VERIF_REPO or /repo), compiled on its own and executed in the globals of the imported module

  * against RECORDING receivers (abstract network / tensors: every method call the body makes on them is logged; the
    body never sees tensor data, so what is decided holds for every network), over the complete finite domain of the
    discrete options (dispatch character, option kinds)                                    -> kind "fdx";
  * with a sympy symbol as the gauge weight (decided for every weight s > 0)               -> kind "e2";
  * or analysed on its ast for option threading (parameter reaches the leaf call unchanged) -> kind "frame".

Functions:  TensorNetwork.full_simplify, tensor_fuse_squeeze, TensorNetwork.squeeze (threading part),
            TensorNetwork.compress_all / compress_all_1d / compress_all_tree (threading)."""
import ast
import itertools
import os
import time

_TC = "quimb/tensor/tensor_core.py"


# ------------------------------------------------------------------------------------------------ loading the real ast
def _root(root=None):
    return root or os.environ.get("VERIF_REPO", "/repo")


_PARSE = {}


def _fndef(root, relpath, qual):
    path = os.path.join(_root(root), relpath)
    st = os.stat(path)
    key = (path, st.st_mtime_ns, st.st_size)
    if key not in _PARSE:
        _PARSE.clear()
        _PARSE[key] = ast.parse(open(path).read(), filename=path)
    tree = _PARSE[key]
    parts = qual.split(".")
    body = tree.body
    node = None
    for p in parts:
        node = next((n for n in body if isinstance(n, (ast.FunctionDef, ast.ClassDef)) and n.name == p), None)
        if node is None:
            raise LookupError(f"{relpath}::{qual} not found")
        body = node.body
    return node, path


def _real(root, relpath, qual, **overrides):
    """the real function object, compiled from the FunctionDef found in <root>/<relpath>, closed over the globals of
    the imported quimb module (+ explicit stubs for named callees = callee contracts)"""
    import importlib
    node, path = _fndef(root, relpath, qual)
    mod = importlib.import_module(relpath[:-3].replace("/", "."))
    g = dict(vars(mod))
    g.update(overrides)
    m = ast.Module(body=[node], type_ignores=[])
    exec(compile(m, path, "exec"), g)
    return g[node.name]


def _ob(fn, label, kind, bad, t0, backend):
    from vf.framework import ObResult
    return ObResult(id=f"{_TC}::{fn}::{label}", kind=kind, status="failed" if bad else "discharged", backend=backend,
                    solver_s=time.time() - t0, function=f"{_TC}::{fn}", model=(bad[0] if bad else None), engine=kind)


# ------------------------------------------------------------------------------------------------ full_simplify
class _RecTN:
    """recording network: logs every `name_(...)` call; num_tensors follows a prescribed sequence"""

    def __init__(self, name, counts, log):
        self.__dict__.update(_name=name, _counts=list(counts), _log=log, _k=0)

    def copy(self):
        c = _RecTN("copy", self._counts, self._log)
        self.__dict__["_child"] = c
        return c

    def outer_inds(self):
        return ("o1", "o2")

    @property
    def num_tensors(self):
        k = self.__dict__["_k"]
        self.__dict__["_k"] = k + 1
        cs = self._counts
        return cs[min(k, len(cs) - 1)]

    @property
    def num_indices(self):
        return 7

    def __getattr__(self, nm):
        if nm.startswith("__"):
            raise AttributeError(nm)

        def rec(*a, **k):
            self._log.append((self._name, nm, a, k))
        return rec


_METH = dict(D="diagonal_reduce_", R="rank_simplify_", A="antidiag_gauge_", C="column_reduce_", S="split_simplify_",
             L="loop_simplify_", P="pair_simplify_")
_ATOL_KW = dict(D="atol", A="atol", C="atol", S="atol", L="cutoff", P="cutoff")
_PROTECT = "DRACLP"        # passes that may remove / rename an index: must be told the outer labels
_NORMS = "RSLP"            # passes that strip scalars into the exponent


def _fs_domain():
    return itertools.product((False, True), (None, ("x", "y")), (False, True, 2.5), ("auto", True, False), (None, "set"))


def _run_fs(fs, seq, inplace, oinds, eq, cz, cache, counts=(5, 5), **kw):
    log = []
    me = _RecTN("self", counts, log)
    c = set() if cache == "set" else None
    res = fs(me, seq=seq, output_inds=oinds, atol=3e-7, equalize_norms=eq, check_zero=cz, cache=c, inplace=inplace,
             **kw)
    work = "self" if inplace else "copy"
    return me, res, log, work, c


def provider_full_simplify(tier="quick", root=None):
    """fdx over (pass character) x (inplace, output_inds kind, equalize_norms kind, check_zero kind, cache kind)"""
    out = []
    fn = "TensorNetwork.full_simplify"
    fs = _real(root, _TC, fn)
    for ch in "ADCRSLP":
        t0 = time.time()
        bad = {k: [] for k in ("dispatch", "outer-protected", "atol-threaded", "norms-threaded", "cache-shared",
                               "squeeze-keeps-outer", "final-equalize", "receiver-untouched")}
        for (inplace, oinds, eq, cz, cache) in _fs_domain():
            cfg = dict(seq=ch, inplace=inplace, output_inds=oinds, equalize_norms=eq, check_zero=cz, cache=cache)
            try:
                me, res, log, work, c = _run_fs(fs, ch, inplace, oinds, eq, cz, cache)
            except Exception as e:  # noqa
                bad["dispatch"].append(dict(cfg, raised=repr(e)))
                continue
            O = set(oinds) if oinds is not None else set(me.outer_inds())
            want_cz = bool(set(ch) - {"R"}) if cz == "auto" else cz
            passes = [x for x in log if x[1] in _METH.values()]
            # one round (counts stable from the start): exactly one call, of the documented pass, on the working network
            if not (len(passes) == 1 and passes[0][1] == _METH[ch] and passes[0][0] == work and passes[0][2] == ()
                    and res is (me if inplace else me.__dict__.get("_child"))):
                bad["dispatch"].append(dict(cfg, calls=[(x[0], x[1]) for x in log]))
                continue
            k = passes[0][3]
            if ch in _PROTECT and not ("output_inds" in k and set(k["output_inds"]) == O):
                bad["outer-protected"].append(dict(cfg, got=repr(k.get("output_inds"))))
            if ch in _ATOL_KW and k.get(_ATOL_KW[ch]) != 3e-7:
                bad["atol-threaded"].append(dict(cfg, got=repr({a: b for a, b in k.items() if a in ("atol", "cutoff")})))
            if ch in _NORMS and not (k.get("equalize_norms") is eq or k.get("equalize_norms") == eq) \
                    or ch in _NORMS and k.get("check_zero") is not want_cz:
                bad["norms-threaded"].append(dict(cfg, got=repr({a: b for a, b in k.items()
                                                                 if a in ("equalize_norms", "check_zero")})))
            if ch in "SLP" and k.get("method") != "svd":
                bad["norms-threaded"].append(dict(cfg, got="method=" + repr(k.get("method"))))
            if not (isinstance(k.get("cache"), set) and (c is None or k["cache"] is c)):
                bad["cache-shared"].append(dict(cfg, got=repr(k.get("cache"))))
            first = log[0]
            if not (first[1] == "squeeze_" and first[0] == work and set(first[3].get("exclude", ())) == O
                    and first[2] == () and set(first[3]) <= {"exclude"}):
                bad["squeeze-keeps-outer"].append(dict(cfg, got=repr(first)))
            fin = [x for x in log if x[1] == "equalize_norms_"]
            if eq is False:
                okf = not fin
            else:
                okf = (len(fin) == 1 and fin[0] is log[-1] and fin[0][0] == work and fin[0][2] == ()
                       and fin[0][3].get("value", "missing") == (None if eq is True else eq)
                       and fin[0][3].get("check_zero") is want_cz)
            if not okf:
                bad["final-equalize"].append(dict(cfg, got=repr(fin)))
            if not inplace and any(x[0] == "self" for x in log):
                bad["receiver-untouched"].append(dict(cfg, got=repr([x[:2] for x in log if x[0] == "self"])))
        for lab, b in bad.items():
            if lab == "outer-protected" and ch not in _PROTECT or lab == "atol-threaded" and ch not in _ATOL_KW \
                    or lab == "norms-threaded" and ch not in _NORMS:
                continue
            out.append(_ob(fn, f"{lab}[{ch}]", "fdx", b, t0, "exhaustive"))
            t0 = time.time()
    # sequences: order kept, one shared cache over all passes of all rounds, loop runs until the counts are stable
    t0 = time.time()
    bad = []
    for seq, counts in itertools.product(("ADCR", "RDCA", "ADCRSLP", "PLSRCDA", "RR", ""),
                                         ((5, 5), (5, 4, 4), (5, 4, 3, 3), (5, 4, 3, 2, 2))):
        me, res, log, work, c = _run_fs(fs, seq, True, None, False, "auto", None, counts=counts)
        passes = [x for x in log if x[1] in _METH.values()]
        rounds = len(counts) - 1
        want = [_METH[ch] for ch in seq] * rounds
        if [x[1] for x in passes] != want or len({id(x[3]["cache"]) for x in passes}) > 1:
            bad.append(dict(seq=seq, counts=counts, got=[x[1] for x in passes]))
    out.append(_ob(fn, "order-kept-until-stable", "fdx", bad, t0, "exhaustive"))
    # a character outside the table raises (no silent skip), custom methods get the outer labels / atol / cache
    t0 = time.time()
    bad = []
    for ch in "XZadcr_1":
        try:
            _run_fs(fs, ch, True, None, False, "auto", None)
            bad.append(dict(seq=ch, got="no exception"))
        except ValueError:
            pass
        except Exception as e:  # noqa
            bad.append(dict(seq=ch, got=repr(e)))
    out.append(_ob(fn, "unknown-pass-raises", "fdx", bad, t0, "exhaustive"))
    t0 = time.time()
    bad = []
    for inplace, oinds in itertools.product((False, True), (None, ("x", "y"))):
        got = []
        me, res, log, work, c = _run_fs(fs, "Q", inplace, oinds, False, "auto", "set",
                                        custom_methods={"Q": lambda tn, **k: got.append((tn, k))})
        O = set(oinds) if oinds is not None else set(me.outer_inds())
        if not (len(got) == 1 and got[0][0] is res and set(got[0][1].get("output_inds", ())) == O
                and got[0][1].get("atol") == 3e-7 and got[0][1].get("cache") is c):
            bad.append(dict(inplace=inplace, output_inds=oinds, got=repr(got)))
    out.append(_ob(fn, "custom-pass-gets-outer-atol-cache", "fdx", bad, t0, "exhaustive"))
    return out


# ------------------------------------------------------------------------------------------------ tensor_fuse_squeeze
class _RecT:
    def __init__(self, name, size, log):
        import sympy
        self.name, self.size, self.log, self.scale = name, size, log, sympy.Integer(1)

    def ind_size(self, ix):
        self.log.append((self.name, "ind_size", ix))
        return self.size

    def squeeze_(self, *a, **k):
        self.log.append((self.name, "squeeze_", a, k))

    def __imul__(self, x):
        self.scale = self.scale * x
        return self


class _G:
    def __init__(self, v):
        self.v = v

    def item(self):
        return self.v


def provider_fuse_squeeze(tier="quick", root=None):
    """tensor_fuse_squeeze on recording tensors, gauge weight a positive sympy symbol; callee contract (trusted leaf):
    tensor_make_single_bond(t1, t2, gauges=, bond_ind=) returns (_, b, _) with b the single remaining bond, whose
    (fused) gauge is gauges[b]"""
    import sympy
    fn = "tensor_fuse_squeeze"
    s, s2 = sympy.Symbol("s", positive=True), sympy.Symbol("s2", positive=True)
    calls = []

    def tmsb(t1, t2, *a, **k):
        calls.append((t1, t2, a, k))
        return None, "b", None

    f = _real(root, _TC, fn, tensor_make_single_bond=tmsb)
    bad = {k: [] for k in ("gauge-weight-absorbed", "squeezed-iff-size1", "other-gauges-untouched", "single-bond-call")}
    t0 = time.time()
    for squeeze, size, withg, bond_ind in itertools.product((True, False), (1, 2, 3), (False, True), (None, "b")):
        cfg = dict(squeeze=squeeze, size=size, gauges=withg, bond_ind=bond_ind)
        log = []
        del calls[:]
        t1, t2 = _RecT("t1", size, log), _RecT("t2", size, log)
        g = {"b": _G(s), "c": _G(s2)} if withg else None
        gc = g["c"] if withg else None
        gb = g["b"] if withg else None
        try:
            f(t1, t2, squeeze=squeeze, gauges=g, bond_ind=bond_ind)
        except Exception as e:  # noqa
            bad["squeezed-iff-size1"].append(dict(cfg, raised=repr(e)))
            continue
        sq = [x for x in log if x[1] == "squeeze_"]
        doit = squeeze and size == 1
        if doit:
            oksq = (sorted(x[0] for x in sq) == ["t1", "t2"]
                    and all(x[2] == () and tuple(x[3].get("include", ())) == ("b",) and set(x[3]) == {"include"}
                            for x in sq))
        else:
            oksq = not sq
        if not oksq:
            bad["squeezed-iff-size1"].append(dict(cfg, got=repr(sq)))
        # the product of what the two tensors were multiplied by == the weight that left the gauge dict
        removed = s if (withg and "b" not in g) else sympy.Integer(1)
        prod = sympy.simplify(sympy.nsimplify(t1.scale * t2.scale, rational=True) - removed)
        if prod != 0 or (withg and doit and "b" in g) or (withg and not doit and g.get("b") is not gb):
            bad["gauge-weight-absorbed"].append(dict(cfg, t1_scale=str(t1.scale), t2_scale=str(t2.scale),
                                                     removed=str(removed), b_in_gauges=bool(withg and "b" in g)))
        if withg and g.get("c") is not gc:
            bad["other-gauges-untouched"].append(dict(cfg, got=repr(sorted(g))))
        if not (len(calls) == 1 and calls[0][0] is t1 and calls[0][1] is t2 and calls[0][2] == ()
                and calls[0][3].get("gauges") is g and calls[0][3].get("bond_ind") == bond_ind
                and set(calls[0][3]) <= {"gauges", "bond_ind"}):
            bad["single-bond-call"].append(dict(cfg, got=repr([(c[2], c[3]) for c in calls])))
    out = []
    for lab, b in bad.items():
        out.append(_ob(fn, lab, "e2" if lab == "gauge-weight-absorbed" else "fdx", b, t0,
                       "sympy" if lab == "gauge-weight-absorbed" else "exhaustive"))
        t0 = time.time()
    return out


# ------------------------------------------------------------------------------------------------ TensorNetwork.squeeze
class _RecSq(_RecTN):
    def __init__(self, name, n, log):
        _RecTN.__init__(self, name, (n,), log)
        self.__dict__["_ts"] = [_RecT(f"{name}.t{i}", 1, log) for i in range(n)]
        self.__dict__["ind_map"] = {"a": 1, "b": 2, "k": 3}

    def copy(self):
        c = _RecSq("copy", len(self._ts), self._log)
        self.__dict__["_child"] = c
        return c

    def __iter__(self):
        return iter(self._ts)


def provider_tn_squeeze(tier="quick", root=None):
    """TensorNetwork.squeeze: include / exclude reach every tensor's squeeze_ and the fuse step unchanged (exclude is
    what protects the outer labels in full_simplify); `include` handed to the fuse step only names surviving labels"""
    fn = "TensorNetwork.squeeze"
    f = _real(root, _TC, fn)
    bad = {k: [] for k in ("exclude-threaded", "include-threaded", "fuse-iff-asked", "receiver-untouched")}
    t0 = time.time()
    for n, fuse, inc, exc, inplace in itertools.product((0, 1, 2, 3), (False, True), (None, ("a", "gone")),
                                                        (None, ("k",)), (False, True)):
        cfg = dict(n=n, fuse=fuse, include=inc, exclude=exc, inplace=inplace)
        log = []
        me = _RecSq("self", n, log)
        try:
            res = f(me, fuse=fuse, include=inc, exclude=exc, inplace=inplace)
        except Exception as e:  # noqa
            bad["fuse-iff-asked"].append(dict(cfg, raised=repr(e)))
            continue
        work = "self" if inplace else "copy"
        sq = [x for x in log if x[1] == "squeeze_"]
        fu = [x for x in log if x[1] == "fuse_multibonds_"]
        if not (len(sq) == n and {x[0] for x in sq} == {f"{work}.t{i}" for i in range(n)}
                and all(x[3].get("exclude") == exc and x[2] == () for x in sq)
                and all(x[3].get("exclude") == exc for x in fu)):
            bad["exclude-threaded"].append(dict(cfg, got=repr(sq + fu)))
        if not (all(x[3].get("include") == inc for x in sq)
                and all((x[3].get("include") is None) if inc is None else (list(x[3].get("include") or ()) == ["a"])
                        for x in fu)):
            bad["include-threaded"].append(dict(cfg, got=repr(sq + fu)))
        if not (len(fu) == (1 if fuse else 0) and all(x[0] == work and x is log[-1] for x in fu)
                and res is (me if inplace else me.__dict__.get("_child"))):
            bad["fuse-iff-asked"].append(dict(cfg, got=repr(fu)))
        if not inplace and any(x[0].startswith("self") for x in log):
            bad["receiver-untouched"].append(dict(cfg, got=repr([x[:2] for x in log if x[0].startswith("self")])))
    out = []
    for lab, b in bad.items():
        out.append(_ob(fn, lab, "fdx", b, t0, "exhaustive"))
        t0 = time.time()
    return out


# ------------------------------------------------------------------------------------------------ ast option threading
def _threading(root, qual, callee, kws, star=None, fixed=None, normaliser=None, normalised=()):
    """frame obligation on the real ast of `qual`: there is at least one call `<x>.<callee>(...)`; EVERY such call
    passes kw=<parameter of the same meaning> for each (kw, param) in kws as a bare Name, forwards **star, passes the
    constants in `fixed`; and none of those parameters is ever re-bound in the function (so the value that reaches the
    leaf is the caller's)."""
    node, _ = _fndef(root, _TC, qual)
    bad = []
    a = node.args
    params = {x.arg for x in a.args + a.kwonlyargs} | ({a.kwarg.arg} if a.kwarg else set())
    need = set(kws.values()) | ({star} if star else set())
    for p in sorted(need - params):
        bad.append(dict(problem=f"parameter {p} missing from the signature"))
    calls = [n for n in ast.walk(node) if isinstance(n, ast.Call) and isinstance(n.func, ast.Attribute)
             and n.func.attr == callee]
    if not calls:
        bad.append(dict(problem=f"no call of {callee}"))
    for c in calls:
        got = {k.arg: k.value for k in c.keywords}
        for kw, p in kws.items():
            v = got.get(kw)
            if not (isinstance(v, ast.Name) and v.id == p):
                bad.append(dict(line=c.lineno, problem=f"{kw}= is {ast.unparse(v) if v is not None else 'absent'}, "
                                                       f"expected the parameter {p}"))
        for kw, const in (fixed or {}).items():
            v = got.get(kw)
            if v is None or ast.unparse(v) != const:
                bad.append(dict(line=c.lineno, problem=f"{kw}= is {ast.unparse(v) if v is not None else 'absent'}, "
                                                       f"expected {const}"))
        if star and not any(k.arg is None and isinstance(k.value, ast.Name) and k.value.id == star
                            for k in c.keywords):
            bad.append(dict(line=c.lineno, problem=f"**{star} not forwarded"))
    allowed = set()
    for n in ast.walk(node):      # the one permitted re-binding: `<normalised...> = normaliser(...)` (own fdx obligation)
        if (normaliser and isinstance(n, ast.Assign) and isinstance(n.value, ast.Call)
                and isinstance(n.value.func, ast.Name) and n.value.func.id == normaliser and len(n.targets) == 1
                and isinstance(n.targets[0], ast.Tuple) and not allowed
                and [getattr(e, "id", None) for e in n.targets[0].elts] == list(normalised)
                and [ast.unparse(x) for x in n.value.args[2:]] == list(normalised) and not n.value.keywords):
            allowed = {id(e) for e in n.targets[0].elts}
    for n in ast.walk(node):
        tg = None
        if isinstance(n, ast.Name) and isinstance(n.ctx, (ast.Store, ast.Del)) and n.id in set(kws.values()) \
                and id(n) not in allowed:
            tg = n.id
        if isinstance(n, ast.arg) and n is not None and n.arg in set(kws.values()) and n not in a.args + a.kwonlyargs:
            tg = n.arg       # shadowed by a nested function / lambda parameter
        if tg:
            bad.append(dict(line=getattr(n, "lineno", None), problem=f"parameter {tg} is re-bound"))
    return bad


def provider_threading(tier="quick", root=None):
    out = []
    norm = ("choose_local_compress_gauge_settings", ("canonize_distance", "canonize_after_distance", "mode"))
    for qual, callee, kws, star, fixed in [
        ("TensorNetwork.compress_all", "_compress_between_tids",
         dict(max_bond="max_bond", cutoff="cutoff", mode="mode", canonize_distance="canonize_distance",
              canonize_after_distance="canonize_after_distance"), "compress_opts", None),
        ("TensorNetwork.compress_all_1d", "_compress_between_tids", dict(max_bond="max_bond", cutoff="cutoff"),
         "compress_opts", None),
        ("TensorNetwork.compress_all_tree", "_compress_between_tids", {}, "compress_opts",
         dict(absorb="'right'", canonize_distance="float('inf')")),
    ]:
        t0 = time.time()
        bad = _threading(root, qual, callee, kws, star, fixed, *(norm if qual.endswith("compress_all") else ()))
        out.append(_ob(qual, f"options-reach-{callee}", "frame", bad, t0, "ast"))
    # the normaliser: an explicit setting passes through unchanged, defaults resolve as documented
    t0 = time.time()
    fn = "choose_local_compress_gauge_settings"
    f = _real(root, _TC, fn)
    inf = float("inf")
    bad = {"explicit-passes-through": [], "defaults-resolved": []}
    for can, tgd, cd, cad, mode in itertools.product((True, False), (None, 0, 2), (None, 0, 1, inf), (None, 0, 1),
                                                     ("auto", "basic", "virtual-tree")):
        cfg = dict(canonize=can, tree_gauge_distance=tgd, canonize_distance=cd, canonize_after_distance=cad, mode=mode)
        try:
            rcd, rcad, rmode = f(can, tgd, cd, cad, mode)
        except Exception as e:  # noqa
            bad["explicit-passes-through"].append(dict(cfg, raised=repr(e)))
            continue
        if (cd is not None and rcd != cd) or (cad is not None and rcad != cad) or (mode != "auto" and rmode != mode):
            bad["explicit-passes-through"].append(dict(cfg, got=repr((rcd, rcad, rmode))))
        r = tgd if tgd is not None else (3 if can else 0)
        wmode = mode if mode != "auto" else ("basic" if r == 0 else "virtual-tree")
        wcd = cd if cd is not None else r
        wcad = cad if cad is not None else (0 if wmode == "virtual-tree" else r)
        if (rcd, rcad, rmode) != (wcd, wcad, wmode):
            bad["defaults-resolved"].append(dict(cfg, got=repr((rcd, rcad, rmode)), want=repr((wcd, wcad, wmode))))
    for lab, b in bad.items():
        out.append(_ob(fn, lab, "fdx", b, t0, "exhaustive"))
        t0 = time.time()
    return out


def provider(tier="quick", root=None):
    return (provider_full_simplify(tier, root) + provider_fuse_squeeze(tier, root) + provider_tn_squeeze(tier, root)
            + provider_threading(tier, root))


# ------------------------------------------------------------------------------------------------ tensor_multifuse
def _coded_tensor(qtn, inds, dims, np):
    shape = tuple(dims[ix] for ix in inds)
    n = int(np.prod(shape)) if shape else 1
    return qtn.Tensor(np.arange(n, dtype=np.int64).reshape(shape), inds=inds), shape


def _decode(t, bond, inds0, shape0, np):
    """position p on the fused leg `bond` of the REAL fused tensor -> {old index name: old position}: the data of the
    tensor are the ravelled codes of its original multi-index, so the real Tensor.fuse order is READ, not assumed"""
    ax = t.inds.index(bond)
    data = np.moveaxis(np.asarray(t.data), ax, 0)
    vec = data.reshape(data.shape[0], -1)[:, 0]
    out = []
    for code in vec:
        mi = np.unravel_index(int(code), shape0) if shape0 else ()
        out.append(dict(zip(inds0, (int(x) for x in mi))))
    return out


def _multifuse_domain():
    for nb in (2, 3):
        names = ("a", "b", "c")[:nb]
        for ds in itertools.product((1, 2, 3), repeat=nb):
            for present in itertools.product((True, False), repeat=nb):
                for order in (names, names[::-1]):
                    for bond_ind in (None, "new"):
                        yield names, dict(zip(names, ds)), dict(zip(names, present)), order, bond_ind


def provider_multifuse(tier="quick", root=None):
    """tensor_multifuse / tensor_make_single_bond on real tiny Tensors whose entries encode their own multi-index and
    gauge vectors of sympy symbols (object arrays): for every bond count 2..3, dims in {1,2,3}, subset of bonds carrying a
    gauge, order of `inds`, bond_ind None | new name.  Denotation: sum_p t1[.., p] g[p] t2[.., p] is the old gauged
    contraction iff g[p] == prod_k g_k[i_k(p)] where i_k(p) is what the REAL fuse put at position p of BOTH tensors."""
    import numpy as np
    import sympy
    import quimb.tensor as qtn
    fn = "tensor_multifuse"
    f = _real(root, _TC, fn)
    fmsb = _real(root, _TC, "tensor_make_single_bond", tensor_multifuse=f)
    bad = {k: [] for k in ("fused-gauge-aligned-with-fused-legs", "gauges-old-removed-new-added",
                           "gauges-others-untouched", "legs-fused-consistently")}
    bad2 = {k: [] for k in ("fused-gauge-aligned-with-fused-legs", "gauges-old-removed-new-added", "bond-choice")}
    t0 = time.time()
    for names, dims, present, order, bond_ind in _multifuse_domain():
        for via in ("multifuse", "single_bond"):
            B = bad if via == "multifuse" else bad2
            cfg = dict(dims=dims, gauged={k for k, v in present.items() if v}, inds=order, bond_ind=bond_ind, via=via)
            d = dict(dims, l=2, r=2)
            # the shared legs sit at different positions / in different orders on the two tensors
            i1 = ("l",) + tuple(names)
            i2 = tuple(names[::-1][:1]) + ("r",) + tuple(names[::-1][1:])
            t1, s1 = _coded_tensor(qtn, i1, d, np)
            t2, s2 = _coded_tensor(qtn, i2, d, np)
            gsym = {k: np.array([sympy.Symbol(f"g{k}{i}") for i in range(dims[k])], dtype=object)
                    for k in names if present[k]}
            other = np.array([sympy.Symbol("z0"), sympy.Symbol("z1")], dtype=object)
            gauges = dict(gsym, zz=other)
            try:
                if via == "multifuse":
                    f((t1, t2), order, gauges=gauges, bond_ind=bond_ind)
                    nb = bond_ind if bond_ind is not None else order[0]
                else:
                    if order != names:
                        continue
                    left, nb, right = fmsb(t1, t2, gauges=gauges, bond_ind=bond_ind)
                    shared = [ix for ix in i1 if ix in i2]
                    if not (nb == (bond_ind or shared[0]) and list(left) == ["l"] and list(right) == ["r"]):
                        B["bond-choice"].append(dict(cfg, got=repr((left, nb, right))))
                        continue
            except Exception as e:  # noqa
                B["gauges-old-removed-new-added"].append(dict(cfg, raised=repr(e)))
                continue
            anyg = any(present.values())
            want_keys = ({"zz"} | ({nb} if anyg else set()))
            if set(gauges) != want_keys:
                B["gauges-old-removed-new-added"].append(dict(cfg, keys=sorted(gauges), want=sorted(want_keys)))
                continue
            if via == "multifuse" and gauges["zz"] is not other:
                B["gauges-others-untouched"].append(dict(cfg))
            ok_legs = (nb in t1.inds and nb in t2.inds and not (set(names) - {nb}) & (set(t1.inds) | set(t2.inds)))
            if ok_legs:
                m1, m2 = _decode(t1, nb, i1, s1, np), _decode(t2, nb, i2, s2, np)
                ok_legs = ([{k: m[k] for k in names} for m in m1] == [{k: m[k] for k in names} for m in m2]
                           and len(m1) == int(np.prod([dims[k] for k in names])))
            if not ok_legs:
                (B.get("legs-fused-consistently") if via == "multifuse" else B["bond-choice"]).append(
                    dict(cfg, t1=t1.inds, t2=t2.inds))
                continue
            if anyg:
                g = np.asarray(gauges[nb], dtype=object).reshape(-1)
                if len(g) != len(m1):
                    B["fused-gauge-aligned-with-fused-legs"].append(dict(cfg, got_len=len(g), want_len=len(m1)))
                    continue
                for p, m in enumerate(m1):
                    want = sympy.Integer(1)
                    for k in names:
                        if present[k]:
                            want = want * gsym[k][m[k]]
                    if sympy.expand(sympy.sympify(g[p]) - want) != 0:
                        B["fused-gauge-aligned-with-fused-legs"].append(
                            dict(cfg, fused_position=p, holds_old_positions={k: m[k] for k in names},
                                 gauge_entry=str(g[p]), expected=str(want)))
                        break
    out = []
    for name, B in ((fn, bad), ("tensor_make_single_bond", bad2)):
        for lab, b in B.items():
            e2 = lab.startswith("fused-gauge")
            out.append(_ob(name, lab, "e2" if e2 else "fdx", b, t0, "sympy" if e2 else "exhaustive"))
            t0 = time.time()
    return out


_provider_base = provider


def provider(tier="quick", root=None):  # noqa: F811
    return _provider_base(tier, root) + provider_multifuse(tier, root)
