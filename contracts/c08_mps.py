"""C08 -- canonical-form record soundness of MatrixProductState (quimb/tensor/tn1d/core.py).

Ghost state per MPS object X (a heap object; copies are distinct objects):  isL_X, isR_X : site -> Bool
("site tensor is a left / right isometry").   Sound((a,b), X) := (forall k < a. isL_X[k]) /\\ (forall k > b. isR_X[k]).
Open boundary chains only (cyclic = False): on cyclic chains these routines make no isometry claim.

Leaf contract (assumed, checked at run time by the C08 drivers): tensor_canonize_bond(T1, T2) makes T1 an
isometry towards T2 and leaves every other tensor untouched; T2 (and T1's other-side isometry) are havoc'd.
"""

import z3

from vf.pyvc import (And, Contract, If, Implies, Loop, Max, Min, NS, Not, Or, PyRaise, Ref, Unsupported, is_int,
                     is_z3, register, REGISTRY)

F = "quimb/tensor/tn1d/core.py"
TN1DFLAT = f"{F}::TensorNetwork1DFlat"
MPS = f"{F}::MatrixProductState"  # (methods are looked up in any class of the file if not found here)

K = z3.Int("k!site")  # bound variable for site quantifiers


def forall_sites(body):
    return z3.ForAll([K], body)


def sel(arr, k):
    return z3.Select(arr, k)


def Sound(cx, rec, mps, pre=False):
    f = cx.pre(mps) if pre else cx.fields(mps)
    a, b = rec
    return And(forall_sites(Implies(And(0 <= K, K < a), sel(f["isL"], K))),
               forall_sites(Implies(And(b < K, K < f["L"]), sel(f["isR"], K))))


def unchanged_where(cx, mps, cond):
    """isL / isR of every site satisfying cond(k) are as in the pre-state"""
    f, p = cx.fields(mps), cx.pre(mps)
    return forall_sites(Implies(cond(K), And(sel(f["isL"], K) == sel(p["isL"], K), sel(f["isR"], K) == sel(p["isR"], K))))


def new_mps(cx, name="mps", L=None):
    L = L if L is not None else cx.Int("L")
    return cx.new_obj("MPS", L=L, cyclic=False, isL=cx.Array(f"isL_{name}", z3.IntSort(), z3.BoolSort()),
                      isR=cx.Array(f"isR_{name}", z3.IntSort(), z3.BoolSort()))


class Site:
    """handle for the tensor at a site of an MPS object"""

    def __init__(self, mps, i):
        self.mps, self.i = mps, i


class MPSContract(Contract):
    """shared modelling: MPS heap objects, method dispatch to callee contracts, kinds"""

    property_ids = ("C08",)
    ghost_fields = ("isL", "isR")
    drops = "decorators (@convert_cur_orthog is modelled by the proved contract of parse_cur_orthog), docstring"
    methods = {}  # method name -> contract target (filled below)

    def attr(self, cx, base, attr, node):
        if isinstance(base, Ref) and base.kind == "MPS":
            f = cx.fields(base)
            if attr in f:
                return f[attr]
            if attr == "nsites":
                return f["L"]
        return NotImplemented

    def call(self, cx, name, args, kwargs, node):
        if name == "__isinstance__":
            v, cname = args
            if cname in ("Integral", "int", "numbers.Integral"):
                return is_int(v)
            raise Unsupported(f"isinstance(..., {cname})")
        if name == "__getitem__" and isinstance(args[0], Ref) and args[0].kind == "MPS":
            mps, i = args
            L = cx.fields(mps)["L"]
            if isinstance(i, int) and i < 0:
                i = L + i
            if not is_int(i):
                raise Unsupported("non-integer site index")
            cx.oblige(f"site-exists@{node.lineno}", "safety", And(0 <= i, i < L), node.lineno)
            return Site(mps, i)
        if name == "tensor_canonize_bond":
            return self.leaf_canonize_bond(cx, args[0], args[1], node)
        if name == "conj":
            return cx.Opaque("conj")
        if name.startswith(".") and isinstance(args[0], Ref) and args[0].kind == "MPS":
            recv, rest = args[0], args[1:]
            m = name[1:]
            if m == "copy":
                f = cx.fields(recv)
                # a copy is a distinct object carrying the same isometry facts
                return cx.new_obj("MPS", L=f["L"], cyclic=f["cyclic"], isL=f["isL"], isR=f["isR"])
            inplace_alias = False
            if m in self.methods:
                tgt = self.methods[m]
            elif m.endswith("_") and m[:-1] in self.methods:
                tgt, inplace_alias = self.methods[m[:-1]], True
            elif m in ALIASES:
                tgt, inplace_alias = self.methods[ALIASES[m]], True
            else:
                return NotImplemented
            callee = REGISTRY[tgt]
            if inplace_alias:
                kwargs = dict(kwargs, inplace=True)
            return cx.call_contract(callee, rest, kwargs, node, recv=recv)
        return NotImplemented

    def leaf_canonize_bond(self, cx, t1, t2, node):
        """tensor_canonize_bond(T1, T2): T1 becomes an isometry towards T2 [assumed leaf]"""
        if not (isinstance(t1, Site) and isinstance(t2, Site) and t1.mps == t2.mps):
            raise Unsupported("tensor_canonize_bond on non-site tensors")
        mps = t1.mps
        f = cx.fields(mps)
        cx.oblige(f"call-pre@{node.lineno}:tensor_canonize_bond:adjacent", "call-pre",
                  Or(t2.i == t1.i + 1, t2.i == t1.i - 1), node.lineno)
        right = t2.i == t1.i + 1  # absorbing neighbour on the right => T1 left isometry
        h1L, h1R, h2L, h2R = cx.Bool("hv"), cx.Bool("hv"), cx.Bool("hv"), cx.Bool("hv")
        isL, isR = f["isL"], f["isR"]
        f["isL"] = z3.Store(z3.Store(isL, t1.i, If(right, True, h1L)), t2.i, h2L)
        f["isR"] = z3.Store(z3.Store(isR, t1.i, If(right, h1R, True)), t2.i, h2R)
        return None


ALIASES = {"canonize": "canonicalize", "left_canonize": "left_canonicalize", "right_canonize": "right_canonicalize"}


def bra_none(a):
    return a.get("bra") is None


# ------------------------------------------------------------------------------------------------


@register
class ParseCurOrthog(Contract):
    target = f"{F}::parse_cur_orthog"
    property_ids = ("C08",)
    floor = 4

    def cases(self):
        out = []
        for ik in ("none", "empty", "has"):
            for ck in ("calc", "int", "pair", "None"):
                out.append(NS(name=f"info={ik},cur={ck}", ik=ik, ck=ck))
        return out

    def mk(self, cx, case):
        cur = {"calc": "calc", "int": cx.Int("c"), "pair": (cx.Int("c0"), cx.Int("c1")), "None": None}[case.ck]
        info = {"none": None, "empty": {}, "has": {"cur_orthog": (cx.Int("r0"), cx.Int("r1"))}}[case.ik]
        return cur, info

    def inputs(self, cx, case):
        cur, info = self.mk(cx, case)
        cx.ghost["had"] = dict(info) if info is not None else None
        return dict(cur_orthog=cur, info=info)

    def call(self, cx, name, args, kwargs, node):
        if name == "__isinstance__" and args[1] in ("Integral", "int"):
            return is_int(args[0])
        return NotImplemented

    def apply(self, cx, a, node, case=None):
        """call-site use: the specification itself (proved against the body by this contract's own obligations)"""
        info = a.info if a.info is not None else {}
        if "cur_orthog" not in info:
            info["cur_orthog"] = (a.cur_orthog, a.cur_orthog) if is_int(a.cur_orthog) else a.cur_orthog
        return info

    def ensures(self, a, r, cx, case):
        d = {"is-dict": isinstance(r, dict) and "cur_orthog" in r}
        if not d["is-dict"]:
            return d
        had = cx.ghost["had"]
        if a.info is not None:
            d["same-object"] = r is a.info  # the caller's dict is the one that carries the record
        if had and "cur_orthog" in had:
            d["existing-record-kept"] = cx.eq_values(r["cur_orthog"], had["cur_orthog"])
        else:
            exp = (a.cur_orthog, a.cur_orthog) if is_int(a.cur_orthog) else a.cur_orthog
            d["record-from-argument"] = cx.eq_values(r["cur_orthog"], exp)
        return d


class SiteOp(MPSContract):
    floor = 3

    def inputs(self, cx, case):
        return dict(self=new_mps(cx), i=cx.Int("i"), bra=None, create_bond=False)

    def modifies(self, a, case):
        return [(a.self, ["isL", "isR"])]

    def fresh_result(self, cx, a, case):
        return None


@register
class LeftCanonizeSite(SiteOp):
    target = f"{TN1DFLAT}.left_canonize_site"

    def requires(self, a, case):
        return {"open-chain-range": And(0 <= a.i, a.i + 1 < a.self_L if hasattr(a, "self_L") else True)}

    def requires(self, a, case):  # noqa: F811
        return {"bra-none": bra_none(a)}

    def reqs(self, cx, a):
        L = cx.fields(a.self)["L"]
        return {"0<=i<L-1": And(0 <= a.i, a.i + 1 < L)}

    def apply(self, cx, a, node, case=None):
        for lab, c in self.reqs(cx, a).items():
            cx.oblige(f"call-pre@{node.lineno}:left_canonize_site:{lab}", "call-pre", c, node.lineno)
        return super().apply(cx, a, node, case)

    def ensures(self, a, r, cx, case):
        f = cx.fields(a.self)
        return {"isL[i]": sel(f["isL"], a.i),
                "frame": unchanged_where(cx, a.self, lambda k: And(k != a.i, k != a.i + 1))}


@register
class RightCanonizeSite(SiteOp):
    target = f"{TN1DFLAT}.right_canonize_site"

    def requires(self, a, case):
        return {"bra-none": bra_none(a)}

    def reqs(self, cx, a):
        L = cx.fields(a.self)["L"]
        return {"0<i<L": And(1 <= a.i, a.i < L)}

    def apply(self, cx, a, node, case=None):
        for lab, c in self.reqs(cx, a).items():
            cx.oblige(f"call-pre@{node.lineno}:right_canonize_site:{lab}", "call-pre", c, node.lineno)
        return super().apply(cx, a, node, case)

    def ensures(self, a, r, cx, case):
        f = cx.fields(a.self)
        return {"isR[i]": sel(f["isR"], a.i),
                "frame": unchanged_where(cx, a.self, lambda k: And(k != a.i, k != a.i - 1))}


def _site_requires(self, a, case):
    return {"bra-none": bra_none(a)}


# the body proofs of the two site operations need the range precondition as an assumption
def _mk_site_inputs(kind):
    def inputs(self, cx, case):
        d = dict(self=new_mps(cx), i=cx.Int("i"), bra=None, create_bond=False)
        L = cx.fields(d["self"])["L"]
        cx.assume(And(0 <= d["i"], d["i"] + 1 < L) if kind == "L" else And(1 <= d["i"], d["i"] < L))
        return d

    return inputs


LeftCanonizeSite.inputs = _mk_site_inputs("L")
RightCanonizeSite.inputs = _mk_site_inputs("R")


@register
class ShiftOrthogonalityCenter(MPSContract):
    """strongest frame form: moving right from `current` to `new` makes sites [current,new) left isometries and
    touches nothing outside [current,new]; symmetric when moving left"""

    target = f"{MPS}.shift_orthogonality_center"
    floor = 8

    def inputs(self, cx, case):
        d = dict(self=new_mps(cx), current=cx.Int("current"), new=cx.Int("new"), bra=None, create_bond=False)
        L = cx.fields(d["self"])["L"]
        cx.assume(And(0 <= d["current"], d["current"] < L, 0 <= d["new"], d["new"] < L))
        return d

    def requires(self, a, case):
        return {"bra-none": bra_none(a)}

    def apply(self, cx, a, node, case=None):
        L = cx.fields(a.self)["L"]
        cx.oblige(f"call-pre@{node.lineno}:shift_orthogonality_center:sites-in-range", "call-pre",
                  And(0 <= a.current, a.current < L, 0 <= a.new, a.new < L), node.lineno)
        return super().apply(cx, a, node, case)

    def modifies(self, a, case):
        return [(a.self, ["isL", "isR"])]

    def fresh_result(self, cx, a, case):
        return None

    def ensures(self, a, r, cx, case):
        f = cx.fields(a.self)
        cur, new = a.current, a.new
        return {
            "right-move": Implies(new > cur, And(
                forall_sites(Implies(And(cur <= K, K < new), sel(f["isL"], K))),
                unchanged_where(cx, a.self, lambda k: Or(k < cur, k > new)))),
            "left-move": Implies(new <= cur, And(
                forall_sites(Implies(And(new < K, K <= cur), sel(f["isR"], K))),
                unchanged_where(cx, a.self, lambda k: Or(k > cur, k < new)))),
        }

    def inv_right(self, v):
        cx = v.cx
        f = cx.fields(v.self)
        o = v.old
        return {"prefix-left-isometric": forall_sites(Implies(And(o.current <= K, K < v.i), sel(f["isL"], K))),
                "frame": unchanged_where(cx, v.self, lambda k: Or(k < o.current, k > v.i)),
                "i-range": And(o.current <= v.i, v.i <= o.new)}

    def inv_left(self, v):
        cx = v.cx
        f = cx.fields(v.self)
        o = v.old
        return {"suffix-right-isometric": forall_sites(Implies(And(v.i < K, K <= o.current), sel(f["isR"], K))),
                "frame": unchanged_where(cx, v.self, lambda k: Or(k > o.current, k < v.i)),
                "i-range": And(o.new <= v.i, v.i <= o.current)}

    @property
    def loops(self):
        return {0: Loop("for i in range(current, new)", self.inv_right),
                1: Loop("for i in range(current, new, -1)", self.inv_left)}


class Sweep(MPSContract):
    floor = 6

    def cases(self):
        return [NS(name=f"inplace={ip},start={sk},stop={ek}", inplace=ip, sk=sk, ek=ek)
                for ip in (True, False) for sk in ("None", "int") for ek in ("None", "int")]

    def inputs(self, cx, case):
        d = dict(self=new_mps(cx), stop=None if case.ek == "None" else cx.Int("stop"),
                 start=None if case.sk == "None" else cx.Int("start"), normalize=False, bra=None, create_bond=False,
                 inplace=case.inplace)
        return d

    def case_of_call(self, cx, a):
        return NS(name="call", inplace=a.inplace, sk="None" if a.start is None else "int",
                  ek="None" if a.stop is None else "int")

    def requires(self, a, case):
        return {"bra-none": bra_none(a), "normalize-off": a.normalize is False}

    def modifies(self, a, case):
        return [(a.self, ["isL", "isR"])] if a.inplace else []

    def fresh_result(self, cx, a, case):
        if a.inplace:
            return a.self
        f = cx.fields(a.self)
        return new_mps(cx, "res", L=f["L"])

    def target_obj_pre(self, cx, a, r):
        """pre-state arrays that the result evolves from (self's, also for a copy)"""
        return cx.pre(a.self)


@register
class LeftCanonicalize(Sweep):
    target = f"{TN1DFLAT}.left_canonicalize"

    def bounds(self, cx, a):
        L = cx.pre(a.self)["L"]
        s = 0 if a.start is None else a.start
        e = L - 1 if a.stop is None else a.stop
        return s, e, L

    def inputs(self, cx, case):
        d = super().inputs(cx, case)
        L = cx.fields(d["self"])["L"]
        s = 0 if d["start"] is None else d["start"]
        e = L - 1 if d["stop"] is None else d["stop"]
        cx.assume(And(L >= 1, 0 <= s, e <= L - 1))
        return d

    def apply(self, cx, a, node, case=None):
        L = cx.fields(a.self)["L"]
        s = 0 if a.start is None else a.start
        e = L - 1 if a.stop is None else a.stop
        cx.oblige(f"call-pre@{node.lineno}:left_canonicalize:range", "call-pre", And(0 <= s, e <= L - 1), node.lineno)
        return super().apply(cx, a, node, case)

    def ensures(self, a, r, cx, case):
        if not isinstance(r, Ref):
            return {"returns-mps": False}
        s, e, L = self.bounds(cx, a)
        f, p = cx.fields(r), cx.pre(a.self)
        d = {
            "returns-receiver-iff-inplace": (r == a.self) == bool(a.inplace),
            "swept-sites-left-isometric": forall_sites(Implies(And(s <= K, K < e), sel(f["isL"], K))),
            "frame": forall_sites(Implies(Or(K < s, K > Max(e, s)), And(sel(f["isL"], K) == sel(p["isL"], K),
                                                                         sel(f["isR"], K) == sel(p["isR"], K)))),
            "length": f["L"] == L,
        }
        if not a.inplace:
            d["receiver-untouched"] = unchanged_where(cx, a.self, lambda k: True)
        return d

    def inv(self, v):
        cx = v.cx
        o = v.old
        s, e, L = self.bounds(cx, o)
        f, p = cx.fields(v.mps), cx.pre(o.self)
        d = {"prefix": forall_sites(Implies(And(s <= K, K < v.i), sel(f["isL"], K))),
             "frame": forall_sites(Implies(Or(K < s, K > v.i), And(sel(f["isL"], K) == sel(p["isL"], K),
                                                                   sel(f["isR"], K) == sel(p["isR"], K)))),
             "i-range": And(s <= v.i, Or(v.i <= e, v.i == s)), "length": f["L"] == L}
        if not o.inplace:
            d["receiver-untouched"] = unchanged_where(cx, o.self, lambda k: True)
        return d

    @property
    def loops(self):
        return {0: Loop("for i in range(start, stop)", self.inv)}


@register
class RightCanonicalize(Sweep):
    target = f"{TN1DFLAT}.right_canonicalize"

    def bounds(self, cx, a):
        L = cx.pre(a.self)["L"]
        s = L - 1 if a.start is None else a.start
        e = 0 if a.stop is None else a.stop
        return s, e, L

    def inputs(self, cx, case):
        d = super().inputs(cx, case)
        L = cx.fields(d["self"])["L"]
        s = L - 1 if d["start"] is None else d["start"]
        e = 0 if d["stop"] is None else d["stop"]
        cx.assume(And(L >= 1, s <= L - 1, 0 <= e))
        return d

    def apply(self, cx, a, node, case=None):
        L = cx.fields(a.self)["L"]
        s = L - 1 if a.start is None else a.start
        e = 0 if a.stop is None else a.stop
        cx.oblige(f"call-pre@{node.lineno}:right_canonicalize:range", "call-pre", And(s <= L - 1, 0 <= e), node.lineno)
        return super().apply(cx, a, node, case)

    def ensures(self, a, r, cx, case):
        if not isinstance(r, Ref):
            return {"returns-mps": False}
        s, e, L = self.bounds(cx, a)
        f, p = cx.fields(r), cx.pre(a.self)
        d = {
            "returns-receiver-iff-inplace": (r == a.self) == bool(a.inplace),
            "swept-sites-right-isometric": forall_sites(Implies(And(e < K, K <= s), sel(f["isR"], K))),
            "frame": forall_sites(Implies(Or(K > s, K < Min(e, s)), And(sel(f["isL"], K) == sel(p["isL"], K),
                                                                         sel(f["isR"], K) == sel(p["isR"], K)))),
            "length": f["L"] == L,
        }
        if not a.inplace:
            d["receiver-untouched"] = unchanged_where(cx, a.self, lambda k: True)
        return d

    def inv(self, v):
        cx = v.cx
        o = v.old
        s, e, L = self.bounds(cx, o)
        f, p = cx.fields(v.mps), cx.pre(o.self)
        d = {"suffix": forall_sites(Implies(And(v.i < K, K <= s), sel(f["isR"], K))),
             "frame": forall_sites(Implies(Or(K > s, K < v.i), And(sel(f["isL"], K) == sel(p["isL"], K),
                                                                   sel(f["isR"], K) == sel(p["isR"], K)))),
             "i-range": And(v.i <= s, Or(v.i >= e, v.i == s)), "length": f["L"] == L}
        if not o.inplace:
            d["receiver-untouched"] = unchanged_where(cx, o.self, lambda k: True)
        return d

    @property
    def loops(self):
        return {0: Loop("for i in range(start, stop, -1)", self.inv)}


@register
class CalcCurrentOrthogCenter(MPSContract):
    """(lo, L - ro - 1) from count_canonized [assumed leaf: lo leading sites are left isometries, ro trailing sites
    right isometries, lo + ro <= L - 1]"""

    target = f"{TN1DFLAT}.calc_current_orthog_center"
    floor = 2

    def inputs(self, cx, case):
        d = dict(self=new_mps(cx))
        cx.assume(cx.fields(d["self"])["L"] >= 1)
        return d

    def call(self, cx, name, args, kwargs, node):
        if name == ".count_canonized" and isinstance(args[0], Ref):
            mps = args[0]
            f = cx.fields(mps)
            lo, ro = cx.Int("lo"), cx.Int("ro")
            cx.assume(And(0 <= lo, 0 <= ro, lo + ro <= f["L"] - 1,
                          forall_sites(Implies(And(0 <= K, K < lo), sel(f["isL"], K))),
                          forall_sites(Implies(And(f["L"] - ro <= K, K < f["L"]), sel(f["isR"], K)))))
            return (lo, ro)
        return super().call(cx, name, args, kwargs, node)

    def fresh_result(self, cx, a, case):
        return (cx.Int("cmin"), cx.Int("cmax"))

    def ensures(self, a, r, cx, case):
        f = cx.fields(a.self)
        return {"pair": isinstance(r, tuple) and len(r) == 2,
                "sound": Sound(cx, r, a.self) if isinstance(r, tuple) and len(r) == 2 else False,
                "ordered-in-range": And(0 <= r[0], r[0] <= r[1], r[1] <= f["L"] - 1) if isinstance(r, tuple) else False}


@register
class Canonicalize(MPSContract):
    target = f"{MPS}.canonicalize"
    floor = 20

    def cases(self):
        out = []
        for ip in (True, False):
            for wk in ("int", "pair"):
                for rk in ("info-pair", "info-int", "info-calc", "arg-int", "arg-pair", "arg-calc", "arg-None", "info-None"):
                    out.append(NS(name=f"inplace={ip},where={wk},record={rk}", inplace=ip, wk=wk, rk=rk))
        return out

    def case_of_call(self, cx, a):
        return NS(name="call", inplace=a.inplace, wk="int" if is_int(a.where) else "pair", rk="call")

    def record_of(self, a):
        """the record the caller supplies (info wins over cur_orthog, as parse_cur_orthog's contract says)"""
        if isinstance(a.info, dict) and "cur_orthog" in a.info:
            return a.info["cur_orthog"]
        return a.cur_orthog

    def inputs(self, cx, case):
        mps = new_mps(cx)
        L = cx.fields(mps)["L"]
        where = cx.Int("w") if case.wk == "int" else (cx.Int("w0"), cx.Int("w1"))
        rk = case.rk
        c0, c1 = cx.Int("c0"), cx.Int("c1")
        cur, info = "calc", None
        if rk == "info-pair":
            info = {"cur_orthog": (c0, c1)}
        elif rk == "info-int":
            info = {"cur_orthog": c0}
        elif rk == "info-calc":
            info = {"cur_orthog": "calc"}
        elif rk == "info-None":
            info = {"cur_orthog": None}
        elif rk == "arg-int":
            cur, info = c0, {}
        elif rk == "arg-pair":
            cur, info = (c0, c1), {}
        elif rk == "arg-calc":
            cur, info = "calc", {}
        elif rk == "arg-None":
            cur, info = None, {}
        d = dict(self=mps, where=where, cur_orthog=cur, info=info, bra=None, create_bond=False, inplace=case.inplace)
        a = NS(d)
        cx.ghost["rec0"] = self.norm_record(self.record_of(a))
        for c in self.reqs(cx, a).values():
            cx.assume(c)
        return d

    @staticmethod
    def norm_record(rec):
        if rec is None or isinstance(rec, str):
            return rec
        if is_int(rec):
            return (rec, rec)
        return (Min(rec[0], rec[1]), Max(rec[0], rec[1]))

    def where_range(self, a):
        if is_int(a.where):
            return a.where, a.where
        lo = hi = a.where[0]
        for w in a.where[1:]:
            lo, hi = Min(lo, w), Max(hi, w)
        return lo, hi

    def reqs(self, cx, a):
        L = cx.fields(a.self)["L"]
        lo, hi = self.where_range(a)
        d = {"where-in-range": And(0 <= lo, hi < L)}
        rec = self.norm_record(self.record_of(a))
        if isinstance(rec, tuple):
            d["record-in-range"] = And(0 <= rec[0], rec[1] < L)
            d["record-sound"] = Sound(cx, rec, a.self)
        return d

    def requires(self, a, case):
        return {"bra-none": bra_none(a)}

    def apply(self, cx, a, node, case=None):
        for lab, c in self.reqs(cx, a).items():
            cx.oblige(f"call-pre@{node.lineno}:canonicalize:{lab}", "call-pre", c, node.lineno)
        cx.ghost["rec0"] = self.norm_record(self.record_of(a))
        res = super().apply(cx, a, node, case)
        return res

    def modifies(self, a, case):
        return [(a.self, ["isL", "isR"])] if a.inplace else []

    def fresh_result(self, cx, a, case):
        # the record is written into the caller's dict (if any)
        if isinstance(a.info, dict):
            a.info["cur_orthog"] = (cx.Int("rec_a"), cx.Int("rec_b"))
        if a.inplace:
            return a.self
        return new_mps(cx, "res", L=cx.fields(a.self)["L"])

    def ensures(self, a, r, cx, case):
        if not isinstance(r, Ref):
            return {"returns-mps": False}
        d = {"returns-receiver-iff-inplace": (r == a.self) == bool(a.inplace),
             "length": cx.fields(r)["L"] == cx.pre(a.self)["L"]}
        if not a.inplace:
            d["receiver-untouched"] = unchanged_where(cx, a.self, lambda k: True)
        if isinstance(a.info, dict):
            rec = a.info.get("cur_orthog")
            ok = isinstance(rec, tuple) and len(rec) == 2 and all(is_int(x) for x in rec)
            d["record-is-pair"] = ok
            if ok:
                lo, hi = self.where_range(a)
                # the record describes the object the caller goes on using
                d["record-sound-for-result"] = Sound(cx, rec, r)
                d["record-inside-where"] = And(lo <= rec[0], rec[0] <= rec[1], rec[1] <= hi)
                # everything outside the (old record U where) span is untouched
                rec0 = cx.ghost.get("rec0")
                p = cx.pre(a.self)
                f = cx.fields(r)
                if isinstance(rec0, tuple):
                    d["frame-outside-span"] = forall_sites(Implies(
                        Or(K < Min(lo, rec0[0]), K > Max(hi, rec0[1])),
                        And(sel(f["isL"], K) == sel(p["isL"], K), sel(f["isR"], K) == sel(p["isR"], K))))
        return d


MPSContract.methods = {
    "left_canonize_site": f"{TN1DFLAT}.left_canonize_site",
    "right_canonize_site": f"{TN1DFLAT}.right_canonize_site",
    "left_canonicalize": f"{TN1DFLAT}.left_canonicalize",
    "right_canonicalize": f"{TN1DFLAT}.right_canonicalize",
    "shift_orthogonality_center": f"{MPS}.shift_orthogonality_center",
    "calc_current_orthog_center": f"{TN1DFLAT}.calc_current_orthog_center",
    "canonicalize": f"{MPS}.canonicalize",
}


# ------------------------------------------------------------------------------------------------
# swaps, compress_site and the canonical-form consumers
# ------------------------------------------------------------------------------------------------


class Pair:
    """Ti @ Tj of two adjacent site tensors"""

    def __init__(self, mps, i, j):
        self.mps, self.i, self.j = mps, i, j


class Factor:
    """a factor returned by splitting a two-site tensor: side 'L' | 'R', `iso` whether it is the isometric one"""

    def __init__(self, side, iso):
        self.side, self.iso = side, iso


class OpaqueList:
    truth = True


ABSORB_ISO = {  # which factor tensor_split leaves isometric for the absorb codes the MPS routines use [leaf, C05]
    "left": ("R",), "right": ("L",), "both": (), None: (),
}


def info_kinds():
    return ("pair", "calc", "None")


def mk_info(cx, kind):
    if kind == "pair":
        return {"cur_orthog": (cx.Int("c0"), cx.Int("c1"))}
    if kind == "calc":
        return {"cur_orthog": "calc"}
    return {"cur_orthog": None}


def record_reqs(cx, mps, info):
    """a supplied pair record is in range and sound for the receiver"""
    rec = info.get("cur_orthog") if isinstance(info, dict) else None
    d = {}
    if isinstance(rec, tuple):
        L = cx.fields(mps)["L"]
        lo, hi = Min(rec[0], rec[1]), Max(rec[0], rec[1])
        d["record-in-range"] = And(0 <= lo, hi < L)
        d["record-sound"] = Sound(cx, (lo, hi), mps)
    return d


def decorate_info(a):
    """call-site model of @convert_cur_orthog (= the proved contract of parse_cur_orthog): the callee always sees a
    dict; a caller that passes no `info` gets a private one, so its own record is NOT updated"""
    opts = a.get("compress_opts") if isinstance(a.get("compress_opts"), dict) else {}
    cur = opts.pop("cur_orthog", None) if isinstance(opts, dict) else None
    info = a.info if isinstance(a.info, dict) else {}
    if "cur_orthog" not in info:
        info["cur_orthog"] = (cur, cur) if is_int(cur) else cur
    a.info = info
    return a


class RecordOp(MPSContract):
    """operations decorated with @convert_cur_orthog: `info` is always a dict holding the record"""

    def record_post(self, cx, a, obj):
        rec = a.info.get("cur_orthog") if isinstance(a.info, dict) else None
        ok = isinstance(rec, tuple) and len(rec) == 2 and all(is_int(x) for x in rec)
        d = {"record-is-pair": ok}
        if ok:
            L = cx.fields(obj)["L"]
            lo, hi = Min(rec[0], rec[1]), Max(rec[0], rec[1])  # the library reads records through min / max
            d["record-sound-for-the-object-the-caller-keeps"] = Sound(cx, (lo, hi), obj)
            d["record-in-range"] = And(0 <= lo, hi < L)
        return d

    def call(self, cx, name, args, kwargs, node):
        if name in ("._site_phys_inds", ".site_ind", ".filter_bonds", ".bonds") :
            if name == ".filter_bonds":
                return (cx.Opaque("shared"), cx.Opaque("unshared"))
            return cx.Opaque(name[1:])
        if name == "__genexp__":
            return OpaqueList()
        if name == ".extend" and isinstance(args[0], OpaqueList):
            return None
        if name in ("dict", "zip"):
            return cx.Opaque(name)
        if name == "set_default_compress_mode":
            args[0].setdefault("cutoff_mode", "rel" if args[1] is True else "rsum2")
            return None
        if name == "__binop__" and args[0] == "MatMult" and isinstance(args[1], Site) and isinstance(args[2], Site):
            t1, t2 = args[1], args[2]
            cx.oblige(f"call-pre@{node.lineno}:adjacent-sites", "call-pre", And(t2.i == t1.i + 1), node.lineno)
            return Pair(t1.mps, t1.i, t2.i)
        if name == ".split" and isinstance(args[0], Pair):
            absorb = kwargs.get("absorb", None)
            if absorb not in ABSORB_ISO:
                raise Unsupported(f"split with absorb={absorb!r}")
            iso = ABSORB_ISO[absorb]
            return (Factor("L", "L" in iso), Factor("R", "R" in iso))
        if name in (".reindex_", ".transpose_like_") and isinstance(args[0], Factor):
            return args[0]
        if name == ".modify" and isinstance(args[0], Site) and isinstance(kwargs.get("data"), Factor):
            site, fac = args[0], kwargs["data"]
            f = cx.fields(site.mps)
            hv = cx.Bool("hv")
            if fac.side == "L":
                f["isL"] = z3.Store(f["isL"], site.i, z3.BoolVal(bool(fac.iso)))
                f["isR"] = z3.Store(f["isR"], site.i, hv)
            else:
                f["isR"] = z3.Store(f["isR"], site.i, z3.BoolVal(bool(fac.iso)))
                f["isL"] = z3.Store(f["isL"], site.i, hv)
            return None
        return super().call(cx, name, args, kwargs, node)

    def attr(self, cx, base, attr, node):
        if isinstance(base, Factor) and attr == "data":
            return base
        return super().attr(cx, base, attr, node)


@register
class SwapSitesWithCompress(RecordOp):
    target = f"{MPS}.swap_sites_with_compress"
    floor = 12

    def cases(self):
        return [NS(name=f"inplace={ip},info={ik},absorb={ab},adjacent={adj}", inplace=ip, ik=ik, absorb=ab, adj=adj)
                for ip in (True, False) for ik in info_kinds() for ab in ("absent", "left", "right", "both")
                for adj in (True, False)]

    def case_of_call(self, cx, a):
        return NS(name="call", inplace=a.inplace, ik="call", absorb=a.compress_opts.get("absorb", "absent"), adj=None)

    def inputs(self, cx, case):
        mps = new_mps(cx)
        L = cx.fields(mps)["L"]
        i, j = cx.Int("i"), cx.Int("j")
        info = mk_info(cx, case.ik)
        opts = {} if case.absorb == "absent" else {"absorb": case.absorb}
        cx.assume(And(0 <= i, i < L, 0 <= j, j < L, i != j))
        lo, hi = Min(i, j), Max(i, j)
        cx.assume(hi == lo + 1 if case.adj else hi > lo + 1)
        for c in record_reqs(cx, mps, info).values():
            cx.assume(c)
        return dict(self=mps, i=i, j=j, info=info, inplace=case.inplace, compress_opts=opts)

    def apply(self, cx, a, node, case=None):
        a = decorate_info(a)
        L = cx.fields(a.self)["L"]
        cx.oblige(f"call-pre@{node.lineno}:swap_sites_with_compress:sites", "call-pre",
                  And(0 <= a.i, a.i < L, 0 <= a.j, a.j < L, a.i != a.j), node.lineno)
        for lab, c in record_reqs(cx, a.self, a.info).items():
            cx.oblige(f"call-pre@{node.lineno}:swap_sites_with_compress:{lab}", "call-pre", c, node.lineno)
        return super().apply(cx, a, node, case)

    def modifies(self, a, case):
        return [(a.self, ["isL", "isR"])] if a.inplace else []

    def fresh_result(self, cx, a, case):
        a.info["cur_orthog"] = (cx.Int("rec_a"), cx.Int("rec_b"))
        if a.inplace:
            return a.self
        return new_mps(cx, "res", L=cx.fields(a.self)["L"])

    def ensures(self, a, r, cx, case):
        if not isinstance(r, Ref):
            return {"returns-mps": False}
        d = {"returns-receiver-iff-inplace": (r == a.self) == bool(a.inplace),
             "length": cx.fields(r)["L"] == cx.pre(a.self)["L"]}
        if not a.inplace:
            d["receiver-untouched"] = unchanged_where(cx, a.self, lambda k: True)
        d.update(self.record_post(cx, a, r))
        return d


@register
class SwapSiteTo(RecordOp):
    target = f"{MPS}.swap_site_to"
    floor = 12

    def cases(self):
        return [NS(name=f"inplace={ip},info={ik},absorb={ab}", inplace=ip, ik=ik, absorb=ab)
                for ip in (True, False) for ik in info_kinds() for ab in ("absent", "left", "right", "both")]

    def case_of_call(self, cx, a):
        return NS(name="call", inplace=a.inplace, ik="call", absorb=a.compress_opts.get("absorb", "absent"))

    def inputs(self, cx, case):
        mps = new_mps(cx)
        L = cx.fields(mps)["L"]
        i, f = cx.Int("i"), cx.Int("f")
        info = mk_info(cx, case.ik)
        opts = {} if case.absorb == "absent" else {"absorb": case.absorb}
        cx.assume(And(0 <= i, i < L, 0 <= f, f < L))
        for c in record_reqs(cx, mps, info).values():
            cx.assume(c)
        return dict(self=mps, i=i, f=f, info=info, inplace=case.inplace, compress_opts=opts)

    def apply(self, cx, a, node, case=None):
        a = decorate_info(a)
        L = cx.fields(a.self)["L"]
        cx.oblige(f"call-pre@{node.lineno}:swap_site_to:sites", "call-pre",
                  And(0 <= a.i, a.i < L, 0 <= a.f, a.f < L), node.lineno)
        for lab, c in record_reqs(cx, a.self, a.info).items():
            cx.oblige(f"call-pre@{node.lineno}:swap_site_to:{lab}", "call-pre", c, node.lineno)
        return super().apply(cx, a, node, case)

    def modifies(self, a, case):
        return [(a.self, ["isL", "isR"])] if a.inplace else []

    def fresh_result(self, cx, a, case):
        if isinstance(a.info.get("cur_orthog"), tuple):
            pass
        a.info["cur_orthog"] = (cx.Int("rec_a"), cx.Int("rec_b"))
        if a.inplace:
            return a.self
        return new_mps(cx, "res", L=cx.fields(a.self)["L"])

    def inv(self, v):
        cx = v.cx
        o = v.old
        L = cx.fields(v.tn)["L"]
        rec = v.info.get("cur_orthog")
        d = {"same-object": (v.tn == o.self) == bool(o.inplace), "length": L == cx.pre(o.self)["L"],
             "j-range": And(0 <= v.j, v.j < L) if False else True}
        first = v._it0
        # before the first adjacent swap the record is the caller's (any kind); afterwards it is a sound pair
        if isinstance(rec, tuple) and len(rec) == 2 and all(is_int(x) for x in rec):
            lo, hi = Min(rec[0], rec[1]), Max(rec[0], rec[1])
            d["record-sound"] = And(Sound(cx, (lo, hi), v.tn), 0 <= lo, hi < L)
        else:
            d["record-kind"] = first == 0
        if not o.inplace:
            d["receiver-untouched"] = unchanged_where(cx, o.self, lambda k: True)
        return d

    @property
    def loops(self):
        return {0: Loop("for j in js", self.inv)}

    def ensures(self, a, r, cx, case):
        if not isinstance(r, Ref):
            return {"returns-mps": False}
        d = {"returns-receiver-iff-inplace": (r == a.self) == bool(a.inplace),
             "length": cx.fields(r)["L"] == cx.pre(a.self)["L"]}
        if not a.inplace:
            d["receiver-untouched"] = unchanged_where(cx, a.self, lambda k: True)
        rec = a.info.get("cur_orthog")
        if isinstance(rec, tuple):
            # (when no swap was needed the caller's record is returned as it came: sound by precondition)
            lo, hi = Min(rec[0], rec[1]), Max(rec[0], rec[1])
            d["record-sound-for-the-object-the-caller-keeps"] = Sound(cx, (lo, hi), r)
            d["record-in-range"] = And(0 <= lo, hi < cx.fields(r)["L"])
        return d


MPSContract.methods.update({
    "swap_sites_with_compress": f"{MPS}.swap_sites_with_compress",
    "swap_site_to": f"{MPS}.swap_site_to",
})


class Consumer(RecordOp):
    """canonical-form consumers: move the centre with canonicalize_, then contract only the local tensors.
    Obligation `local-region-holds-the-centre`: when the local tensors [lo,hi] are read, every site left of lo is a
    left isometry and every site right of hi a right isometry (so the rest of the chain contracts to the identity)."""

    floor = 5

    def local_region(self, cx, mps, lo, hi, node):
        f = cx.fields(mps)
        cx.oblige(f"local-region-holds-the-centre@{node.lineno}", "post",
                  And(forall_sites(Implies(And(0 <= K, K < lo), sel(f["isL"], K))),
                      forall_sites(Implies(And(hi < K, K < f["L"]), sel(f["isR"], K))),
                      0 <= lo, hi < f["L"]), node.lineno)

    def call(self, cx, name, args, kwargs, node):
        if name == "__getslice__" and isinstance(args[0], Ref) and args[0].kind == "MPS":
            mps, lo, hi, st = args
            self.local_region(cx, mps, lo, hi - 1, node)
            return cx.Opaque("local_tn")
        if name in ("Tensor", "do", ".reindex", ".conj_", ".to_dense", ".contract", ".H", "qu.spin_operator",
                    ".phys_dim", ".singular_values"):
            return cx.Opaque(name.strip("."))
        if name == "__binop__":
            return cx.Opaque("binop")
        return super().call(cx, name, args, kwargs, node)

    def attr(self, cx, base, attr, node):
        if isinstance(base, Site) and attr == "H":
            return cx.Opaque("TkH")
        if isinstance(base, (Opaque,)):
            return cx.Opaque(attr)
        return super().attr(cx, base, attr, node)

    def modifies(self, a, case):
        return [(a.self, ["isL", "isR"])]

    def common_inputs(self, cx, case):
        mps = new_mps(cx)
        info = mk_info(cx, case.ik)
        for c in record_reqs(cx, mps, info).values():
            cx.assume(c)
        return mps, info

    def ensures(self, a, r, cx, case):
        d = self.record_post(cx, a, a.self)
        d["length"] = cx.fields(a.self)["L"] == cx.pre(a.self)["L"]
        return d


@register
class SingularValues(Consumer):
    target = f"{MPS}.singular_values"
    raises = {"ValueError": True}

    def cases(self):
        return [NS(name=f"info={ik}", ik=ik) for ik in info_kinds()]

    def inputs(self, cx, case):
        mps, info = self.common_inputs(cx, case)
        return dict(self=mps, i=cx.Int("i"), info=info, method="svd")

    def call(self, cx, name, args, kwargs, node):
        if name == ".bonds" and isinstance(args[0], Site) and isinstance(args[1], Site):
            # Schmidt values across the bond (i-1, i): read from site i alone => centre must be exactly site i
            t, tm1 = args[0], args[1]
            cx.oblige(f"call-pre@{node.lineno}:left-neighbour", "call-pre", tm1.i == t.i - 1, node.lineno)
            self.local_region(cx, t.mps, t.i, t.i, node)
            return cx.Opaque("left_inds")
        if name == ".singular_values" and isinstance(args[0], Site):
            return cx.Opaque("svals")
        return super().call(cx, name, args, kwargs, node)


@register
class Magnetization(Consumer):
    target = f"{MPS}.magnetization"
    raises = {"NotImplementedError": lambda a: False}

    def cases(self):
        return [NS(name=f"info={ik}", ik=ik) for ik in info_kinds()]

    def inputs(self, cx, case):
        mps, info = self.common_inputs(cx, case)
        i = cx.Int("i")
        cx.assume(And(0 <= i, i < cx.fields(mps)["L"]))
        return dict(self=mps, i=i, direction="Z", info=info)

    def call(self, cx, name, args, kwargs, node):
        if name == "__getitem__" and isinstance(args[0], Ref) and args[0].kind == "MPS":
            r = super().call(cx, name, args, kwargs, node)
            # the expectation is taken with the single tensor at site i
            self.local_region(cx, args[0], r.i, r.i, node)
            return r
        if name == ".contract" and isinstance(args[0], Site):
            return cx.Opaque("value")
        if name == ".reindex":
            return cx.Opaque("Tb")
        return super().call(cx, name, args, kwargs, node)


@register
class PartialTraceToDenseCanonical(Consumer):
    target = f"{MPS}.partial_trace_to_dense_canonical"
    raises = {"NotImplementedError": lambda a: False}

    def cases(self):
        return [NS(name=f"info={ik},where={wk},normalized={nz}", ik=ik, wk=wk, nz=nz) for ik in info_kinds()
                for wk in ("int", "pair") for nz in (True, False)]

    def inputs(self, cx, case):
        mps, info = self.common_inputs(cx, case)
        L = cx.fields(mps)["L"]
        if case.wk == "int":
            where = cx.Int("w")
            cx.assume(And(0 <= where, where < L))
        else:
            where = (cx.Int("w0"), cx.Int("w1"))
            cx.assume(And(0 <= where[0], where[0] < L, 0 <= where[1], where[1] < L))
        return dict(self=mps, where=where, normalized=case.nz, info=info, contract_opts={})

    def call(self, cx, name, args, kwargs, node):
        if name == "__binop__" and args[0] == "BitOr":
            return cx.Opaque("rho_tn")
        return super().call(cx, name, args, kwargs, node)


@register
class CompressSite(Consumer):
    """compress_site(i): canonicalize around i, then left/right compress the neighbouring bonds towards i
    [leaf: tensor_compress_bond(tl, tr, absorb) leaves the non-absorbing tensor isometric towards the other]"""

    target = f"{MPS}.compress_site"

    def cases(self):
        return [NS(name=f"info={ik},canonize={c}", ik=ik, canonize=c) for ik in info_kinds() for c in (True,)]

    def inputs(self, cx, case):
        mps, info = self.common_inputs(cx, case)
        i = cx.Int("i")
        cx.assume(And(0 <= i, i < cx.fields(mps)["L"]))
        return dict(self=mps, i=i, canonize=case.canonize, info=info, bra=None, compress_opts={})

    def call(self, cx, name, args, kwargs, node):
        if name in (".left_compress_site", ".right_compress_site") and isinstance(args[0], Ref):
            mps, k = args[0], args[1]
            f = cx.fields(mps)
            L = f["L"]
            if name == ".left_compress_site":
                # sites k, k+1: k becomes left isometric, k+1 absorbs
                cx.oblige(f"call-pre@{node.lineno}:left_compress_site:range", "call-pre", And(0 <= k, k + 1 < L), node.lineno)
                f["isL"] = z3.Store(z3.Store(f["isL"], k, True), k + 1, cx.Bool("hv"))
                f["isR"] = z3.Store(z3.Store(f["isR"], k, cx.Bool("hv")), k + 1, cx.Bool("hv"))
            else:
                cx.oblige(f"call-pre@{node.lineno}:right_compress_site:range", "call-pre", And(1 <= k, k < L), node.lineno)
                f["isR"] = z3.Store(z3.Store(f["isR"], k, True), k - 1, cx.Bool("hv"))
                f["isL"] = z3.Store(z3.Store(f["isL"], k, cx.Bool("hv")), k - 1, cx.Bool("hv"))
            return None
        return super().call(cx, name, args, kwargs, node)


MPSContract.methods.update({
    "singular_values": f"{MPS}.singular_values", "compress_site": f"{MPS}.compress_site",
    "partial_trace_to_dense_canonical": f"{MPS}.partial_trace_to_dense_canonical",
})
