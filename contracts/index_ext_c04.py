from contracts.index import entry_extend

_TC = "quimb/tensor/tensor_core.py"
entry_extend("C04", modules=["contracts.c04_ext"],
             E1=[],
             LEMMAS=False,
             PROVIDERS=["contracts.c04_ext.provider"],
             TRUSTED=["leaf (callee contract of tensor_fuse_squeeze): tensor_make_single_bond(t1, t2, gauges=, bond_ind=) "
                      "returns (_, b, _) with b the single remaining bond whose fused gauge is gauges[b]",
                      "leaf: the individual passes (diagonal_reduce_, rank_simplify_, antidiag_gauge_, column_reduce_, "
                      "split_simplify_, loop_simplify_, pair_simplify_, squeeze_, equalize_norms_, fuse_multibonds_, "
                      "_compress_between_tids) honour the options they are handed (output_inds / exclude protect the outer "
                      "labels, atol / cutoff, cache, equalize_norms, check_zero, max_bond): only the threading is decided here",
                      "recording receivers: the bodies under contract touch the network only through method calls and "
                      "num_tensors / num_indices / ind_map / iteration, which the recorder logs"],
             ASSUMPTIONS=["tensor_multifuse / tensor_make_single_bond: bond counts 2..3 and dims in {1,2,3} (kron / fuse are "
                          "uniform in the dimension; gauge entries symbolic), dense arrays (the block-sparse branch is not run)",
                          "full_simplify round structure (order-kept-until-stable) and TensorNetwork.squeeze are run for "
                          "count sequences / tensor counts up to 4: the per-pass dispatch and option obligations do not "
                          "depend on them",
                          "option kinds: inplace bool; output_inds None | sequence; equalize_norms False | True | number; "
                          "check_zero 'auto' | bool; cache None | set"],
             BOUNDED_FOR={},
             EXPLANATION="Providers on the real ast (re-read every run, compiled alone, run on recording receivers / a sympy "
                         "gauge weight / analysed for threading): full_simplify dispatches every documented pass character "
                         "to its pass on the working copy with the outer labels, atol, one shared cache, equalize_norms and "
                         "the resolved check_zero, squeezes with exclude=outer first, equalizes last with the documented "
                         "value, rejects unknown characters; tensor_fuse_squeeze absorbs the weight of a squeezed size-1 "
                         "bond (t1 scale * t2 scale == weight removed from the gauge dict, for every weight > 0); "
                         "TensorNetwork.squeeze threads include / exclude; compress_all / _1d / _tree hand max_bond, cutoff "
                         "and the (normalised) gauge settings to _compress_between_tids un-rebound; the normaliser "
                         "choose_local_compress_gauge_settings passes explicit settings through; tensor_multifuse / "
                         "tensor_make_single_bond on real tiny tensors whose entries encode their own multi-index and sympy "
                         "gauge entries (bond counts 2..3, dims in {1,2,3}, every subset of gauged bonds, both orders of inds): "
                         "the fused gauge entry at fused position p is the product of the old gauge entries at the old "
                         "positions the REAL Tensor.fuse put at p on both tensors; old gauge entries removed, new one added, "
                         "others untouched.")
