"""C14 -- the one discrete helper every belief-propagation flavour uses to assemble its estimate:
bp_common.combine_local_contractions(values, ...):  result == (mantissa0 * 10^exponent0 * prod_i x_i^p_i)^power,
returned either as one number or as a (mantissa, exponent) pair denoting the same number.

Polar domain: a non-zero complex scalar is (phase, lg) = phase * 10^lg with phase in an uninterpreted abelian group
(pmul, ppow) and lg real.  x^p := (ppow(phase,p), p*lg), products add logs.  Spec functions PH(i), LG(i) are the
running product over the first i values (definitional recurrence)."""

import z3

from vf.pyvc import (And, Contract, If, Implies, Loop, NS, Not, Or, Opaque, Unsupported, R, Z, is_num, is_z3, register,
                     SymIter)

F = "quimb/tensor/belief_propagation/bp_common.py"
Ph = z3.DeclareSort("Phase")
pmul = z3.Function("pmul", Ph, Ph, Ph)
ppow = z3.Function("ppow", Ph, z3.RealSort(), Ph)
PONE = z3.Const("PONE", Ph)

xph = z3.Function("x_phase", z3.IntSort(), Ph)       # phase of the i-th value
xlg = z3.Function("x_lg", z3.IntSort(), z3.RealSort())  # log10 |x_i|
xp = z3.Function("x_p", z3.IntSort(), z3.RealSort())    # its power / counting number
xzero = z3.Function("x_zero", z3.IntSort(), z3.BoolSort())
PH = z3.Function("PH", z3.IntSort(), Ph)
LG = z3.Function("LG", z3.IntSort(), z3.RealSort())


class Polar:
    """phase * 10^lg"""

    def __init__(self, ph, lg):
        self.ph, self.lg = ph, lg


class Mag:
    """a non-negative real magnitude 10^lg, or zero"""

    def __init__(self, lg, zero):
        self.lg, self.zero = lg, zero


class XVal:
    def __init__(self, i):
        self.i = i


@register
class CombineLocalContractions(Contract):
    target = f"{F}::combine_local_contractions"
    property_ids = ("C14",)
    floor = 8
    safety = False

    def cases(self):
        return [NS(name=f"strip={s},check_zero={c},m0={m},e0={e},power={p}", strip=s, cz=c, m0=m, e0=e, pw=p)
                for s in (True, False) for c in (True, False) for m in ("None", "given") for e in ("None", "given")
                for p in ("one", "real")]

    def inputs(self, cx, case):
        n = cx.Int("n")
        cx.assume(n >= 0)
        m0 = None if case.m0 == "None" else Polar(z3.Const("m0_phase", Ph), cx.Real("m0_lg"))
        e0 = None if case.e0 == "None" else cx.Real("e0")
        power = 1.0 if case.pw == "one" else cx.Real("power")
        if case.pw == "real":
            cx.assume(power != 1)
        cx.ghost.update(n=n, m0=m0, e0=e0)
        # definition of the running product (base case)
        ph0 = PONE if m0 is None else m0.ph
        lg0 = (0 if m0 is None else m0.lg) + (0 if e0 is None else e0)
        cx.assume(And(PH(0) == ph0, LG(0) == lg0))
        # group laws needed: unit
        q = z3.Const("q!ph", Ph)
        cx.assume(z3.ForAll([q], And(pmul(PONE, q) == q, pmul(q, PONE) == q)))
        if not case.cz:
            i = z3.Int("i!z")
            cx.assume(z3.ForAll([i], Not(xzero(i))))  # domain: without check_zero every value is non-zero (log10 defined)
        return dict(values=SymIter(n, lambda t: (XVal(t), xp(t))), backend="numpy", strip_exponent=case.strip,
                    check_zero=case.cz, mantissa=m0, exponent=e0, power=power)

    def facts(self, v):
        i = v._it0
        # definitional recurrence of the running product at the current index
        return [PH(i + 1) == pmul(PH(i), ppow(xph(i), xp(i))), LG(i + 1) == LG(i) + xp(i) * xlg(i)]

    def inv(self, v):
        i = v._it0
        m = v.mantissa
        mph = PONE if not isinstance(m, Polar) else m.ph
        mlg = 0 if not isinstance(m, Polar) else m.lg
        j = z3.Int("j!nz")
        return {"running-product": And(mph == PH(i), mlg + R(v.exponent) == LG(i)),
                "no-zero-so-far": z3.ForAll([j], Implies(And(0 <= j, j < i), Not(xzero(j))))}

    @property
    def loops(self):
        return {0: Loop("for x, p in values", self.inv, facts=self.facts,
                        retype={"mantissa": lambda cx: Polar(z3.Const(cx._name("m_ph"), Ph), cx.Real("m_lg")),
                                "exponent": lambda cx: cx.Real("exponent")})}

    def call(self, cx, name, args, kwargs, node):
        if name in ("ar.infer_backend",):
            return "numpy"
        if name == "ar.get_lib_fn":
            return ("libfn", args[1])
        if name in ("_abs", "_log10"):
            fn = cx.env[name]
            if fn == ("libfn", "abs") and isinstance(args[0], XVal):
                return Mag(xlg(args[0].i), xzero(args[0].i))
            if fn == ("libfn", "log10") and isinstance(args[0], Mag):
                return args[0].lg
            raise Unsupported(f"{name} on {args[0]!r}")
        if name == "__binop__":
            op, a, b = args
            if op == "Div" and isinstance(a, XVal) and isinstance(b, Mag):
                return Polar(xph(a.i), z3.RealVal(0))
            if op == "Pow" and isinstance(a, Polar) and (is_num(b)):
                return Polar(ppow(a.ph, R(b)), a.lg * R(b))
            if op == "Mult" and isinstance(a, Polar) and isinstance(b, Polar):
                return Polar(pmul(a.ph, b.ph), a.lg + b.lg)
            if op == "Mult" and is_num(a) and not is_z3(a) and float(a) == 1.0 and isinstance(b, Polar):
                return Polar(pmul(PONE, b.ph), b.lg)
            if op == "Mult" and isinstance(a, Polar) and isinstance(b, NS) and "_pow10" in b:
                return Polar(a.ph, a.lg + b._pow10)
            if op == "Mult" and is_num(a) and not is_z3(a) and float(a) == 1.0 and isinstance(b, NS) and "_pow10" in b:
                return Polar(PONE, b._pow10)
            if op in ("Eq", "NotEq"):
                return NotImplemented
            return NotImplemented
        if name == "__eq__":
            a, b = args
            if isinstance(a, Mag) and is_num(b) and not is_z3(b) and float(b) == 0.0:
                return a.zero
            return NotImplemented
        if name == "__pow__":
            a, b = args
            if a == 10:
                return NS(_pow10=R(b))
            if is_num(a) and not is_z3(a) and float(a) == 1.0:
                return 1.0
        return NotImplemented

    def ensures(self, a, r, cx, case):
        g = NS(cx.ghost)
        n = g.n
        j = z3.Int("j!any")
        some_zero = z3.Exists([j], And(0 <= j, j < n, xzero(j)))
        pw = R(a.power)
        exp_ph = PH(n) if case.pw == "one" else ppow(PH(n), pw)
        exp_lg = LG(n) if case.pw == "one" else LG(n) * pw
        d = {}
        if isinstance(r, tuple):
            m, e = r
            d["pair-iff-strip"] = bool(case.strip)
        else:
            m, e = r, 0
            d["pair-iff-strip"] = not case.strip
        if isinstance(m, Polar):
            d["value"] = And(m.ph == exp_ph, m.lg + R(e) == exp_lg)
            d["nonzero-result-only-if-no-zero-factor"] = Not(some_zero)
        elif is_num(m) and not is_z3(m) and float(m) == 0.0:
            d["zero-result-only-if-some-factor-zero"] = And(some_zero, bool(case.cz))
        elif is_num(m) and not is_z3(m) and float(m) == 1.0 and case.m0 == "None":
            # mantissa still the literal 1.0 (no values): phase ONE, log 0
            d["value"] = And(PONE == exp_ph, R(e) == exp_lg) if case.pw == "one" else And(
                ppow(PONE, pw) == exp_ph, R(e) == exp_lg)
        else:
            d["result-kind"] = False
        return d
