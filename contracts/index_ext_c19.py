from contracts.index import entry_extend

entry_extend(
    "C19", modules=["contracts.c19_ext"],
    E1=["quimb/operator/hilbertspace.py::parse_u1u1_sector", "quimb/operator/hilbertspace.py::valid_u1_sector"],
    TRUSTED=["python semantics encoded by the engine for this function: dict.keys() views compare like sets and iterate in "
             "insertion order; unpacking None / an int raises TypeError, unpacking a sequence of the wrong length raises "
             "ValueError, a str unpacks into its characters; isinstance(x, int) is true exactly for the symbolic integers"],
    ASSUMPTIONS=["parse_u1u1_sector: two species with concrete labels 'a' < 'b' (any two sortable labels behave alike: only "
                 "key equality and the order of species_regs are read), registers of symbolic lengths na, nb >= 0; sector "
                 "spelled in 13 ways x species_regs given | None; fillings, sizes and nsites arbitrary integers",
                 "that species_regs is in sorted label order is parse_species' post-condition (checked by the C19 drivers)"],
    BOUNDED_FOR={"parse_u1u1_sector": ["sector", "u1u1"], "valid_u1_sector": ["sector", "u1"]},
    EXPLANATION="E1 (sector parsing, contracts/c19_ext.py): parse_u1u1_sector returns ((na, ka), (nb, kb)) with each "
                "filling attached to ITS species whatever the key order of a dict sector, None exactly when the request is "
                "not a valid U1U1 sector (sizes not summing to nsites, filling out of range, wrong keys, wrong arity, no "
                "registers for a spelling that names no sizes); valid_u1_sector accepts exactly the integers 0..nsites.")
