"""level texts of the properties extended in the third session (DESIGN.md 8.11): appended to the texts of contracts/index.py"""
import contracts.index as _ix

_FDX = "; finite-domain exhaustive (fdx: the real function body executed on recording stand-ins over its complete discrete option domain), sympy (e2) and ast frame obligations on the real source"
_ADD = {
    "C04": "Decided in addition (fdx / e2 / frame, no numerics): full_simplify hands every pass of seq the outer labels, atol, "
           "equalize_norms and one shared cache; tensor_fuse_squeeze absorbs the gauge weight of a squeezed size-1 bond exactly "
           "once; squeeze / compress_all* thread exclude / include / max_bond / cutoff to their leaves.",
    "C06": "Proved in addition (E1, symbolic site positions): the 1D dispatcher gate_TN_1D, the lazy-split wiring, "
           "gate_inds_with_tn, MatrixProductState.gate_split / gate_with_auto_swap / gate_nonlocal / gate_with_submpo, "
           "tensor_network_ag_gate for every `which`, maybe_factor_gate, the 2D / 3D wrappers and Tensor.gate place the gate's ROW "
           "/ COLUMN axes (exchanged iff transposed, conjugated iff dagger) on the sites in the order given.",
    "C09": "Decided in addition: the method table of tensor_network_1d_compress (fdx), max_bond / cutoff / cutoff_mode reaching "
           "every split leaf of the 23 functions of tn1d/compress.py (ast frame), and periodic left_compress / right_compress / "
           "compress handing every bond of the ring, the closing one included, to exactly one compression (E1).",
    "C12": "Decided in addition (third session, still bookkeeping): cap / cutoff threading and the per-bond skip guard of 36 "
           "functions of tn2d, tn3d, tensor_core and tnag/compress (ast frame), the arbitrary-geometry and 3D mode dispatch (fdx), "
           "and the coordinate rotators Rotator2D / Rotator3D over their complete discrete domain (fdx: one consistent axis "
           "relabelling from every side).",
    "C13": "Decided in addition (fdx / e2 on opaque tokens and sympy values): the normalisation table of the expansion routes, "
           "one evaluation per term with its own operator and sites in the given order through every compute_local_expectation_* "
           "wrapper, the 1D canonical and environment routes (the record describes the object it is used with), the 2D / 3D "
           "dispatchers (numerator and denominator from the same environment).",
    "C15": "Proved in addition (E1): pkron = embed then permute with the inverse permutation, permute / kronpow / partial_trace "
           "routing, ind_complement, block geometry of _trace_lose / _trace_keep; a grid-exhaustive fdx provider (K <= 3, dims <= "
           "3) ties permute / pkron / partial_trace / itrace to numpy.",
}
_REPLACE = {
    "C14": "Proof core: the mantissa/exponent combiner (polar domain), the iteration / convergence bookkeeping of "
           "BeliefPropagationCommon.run (E1), the counting argument of tree exactness in every `contract` method (each region "
           "once with +1, isolated sites included, each bond once with -1, stored exponent threaded; ast path analysis), the "
           "message read for each leg of the marginals and the message-pair normalisation (sympy / recording tokens); "
           "convergence to the fixed point and its exactness on trees cannot be expressed by a contract within reach and are "
           "decided by run-time contracts on bounded trees only.",
    "C17": "Proof core: the 11 selection keys are strictly monotone in the documented order and eigs_numpy returns the k best "
           "pairs with values and vectors re-indexed together; backend auto-selection for symbolic n, k, nnz, block extraction / "
           "scatter of the autoblock kernels, the relative-window arithmetic (E1); dispatch, alias and shift-invert tables and "
           "the P^H A P projection of the partial solvers (fdx on recording / free *-algebra tokens); residuals, orthonormality "
           "and every backend's numerics are run-time contracts on matrices with a prescribed spectrum.",
}
for _p, _t in _ADD.items():
    _c, _old, _tech = _ix.LEVELS[_p]
    _ix.LEVELS[_p] = (_c, _old + " " + _t, _tech + _FDX)
for _p, _t in _REPLACE.items():
    _c, _old, _tech = _ix.LEVELS[_p]
    _ix.LEVELS[_p] = (_c, _t, _tech + _FDX)
_c, _old, _tech = _ix.LEVELS["C19"]
_ix.LEVELS["C19"] = (_c, _old + " Proved in addition (E1): the U1U1 / U1 sector parsers of hilbertspace.py attach each filling to its own "
                     "species whatever the key order of a dict sector and reject exactly the invalid requests.", _tech)
