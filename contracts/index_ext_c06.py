from contracts.index import entry_extend

entry_extend(
    "C06", modules=["contracts.c06_ext"],
    E1=["quimb/tensor/tn1d/core.py::gate_TN_1D",
        "quimb/tensor/gating.py::_tensor_network_gate_inds_lazy_split",
        "quimb/tensor/tensor_core.py::TensorNetwork.gate_inds_with_tn",
        "quimb/tensor/tn1d/core.py::MatrixProductState.gate_split",
        "quimb/tensor/tn1d/core.py::MatrixProductState.gate_with_auto_swap",
        "quimb/tensor/tn1d/core.py::MatrixProductState.gate_nonlocal",
        "quimb/tensor/tnag/core.py::tensor_network_ag_gate",
        "quimb/tensor/gating.py::maybe_factor_gate",
        "quimb/tensor/tn2d/core.py::TensorNetwork2DVector.gate",
        "quimb/tensor/tn3d/core.py::TensorNetwork3DVector.gate",
        "quimb/tensor/tensor_core.py::Tensor.gate",
        "quimb/tensor/tnag/core.py::TensorNetworkGenVector.gate_with_op_lazy",
        "quimb/tensor/tn1d/core.py::MatrixProductState.gate_with_submpo",
        "quimb/tensor/tnag/core.py::tensor_network_ag_gate_simple"],
    LEMMAS=False,
    PROVIDERS=[],
    TRUSTED=[
        "c06_ext leaves (recorded, not entered): TensorNetworkGenVector.gate, MatrixProductState.gate_with_auto_swap / "
        "gate_nonlocal / gate_with_submpo_ / gate_split_ / swap_site_to / canonicalize_ / phys_dim, "
        "MatrixProductOperator.from_dense (dense operator -> MPO on `sites` with `dims`, numerics incl. dtype), "
        "TensorNetwork.gate_inds_ / gate_sandwich_inds_ / reindex_ / reindex / copy / |=, Tensor(...) / Tensor.split / "
        "ind_size, prod, do('conj'), xp.ndim / size / reshape, isblocksparse, oset.union, filter_valid_site_tags, site_tag, "
        "add_tag [their dense behaviour: run-time contracts of drivers/c06.py]",
        "c06_ext: map(f, seq) applies f elementwise in order; tn.site_ind / upper_ind / lower_ind(site) is THE site / upper / "
        "lower label of the site; tn._inds_get(*labels) returns, in order, the tensors holding the labels at the time of the "
        "call; tn.has_site(x) is true for a single site and false for a tuple of sites",
        "c06_ext: set_default_compress_mode(opts, cyclic) is opts.setdefault('cutoff_mode', 'rel' if cyclic else 'rsum2') "
        "(3-line helper of tn1d/core.py, modelled)",
        "c06_ext Tensor.gate leaves: do('tensordot', A, B, ((i,), (j,))) sums axis i of A with axis j of B and returns the free "
        "axes of A followed by the free axes of B, each in order; do('transpose', A, perm) puts axis perm[k] of A on axis k "
        "(numpy semantics); Tensor.modify(data=, inds=) stores them; super().gate / super().gate_inds of the 2D / 3D vector "
        "classes are the arbitrary-geometry gate / TensorNetwork.gate_inds (recorded leaves)",
        "c06_ext sub-operator route leaves: tensor_network_apply_op_vec (which_A names the side of A joined to x: C09 contract "
        "ApplyOpVec), psi.partition(tags, which='any', inplace=True) -> (rest, region), tensor_network_1d_compress, "
        "canonicalize_, submpo.gen_sites_present(); [psi.site_tag(s) for s in range(a, b)] is read as the site tags a..b-1",
        "c06_ext gate_simple leaves: tensor_network_ag_gate (own contract AGGate; here recorded) reports the new singular "
        "values of a two-site split as the single entry {(kind, bond label): s} of the info dict it is handed; "
        "tensor_network_ag_gate_simple_long_range (recorded, not entered); tn._get_tids_from_tags(tags, 'any'), "
        "tn._select_tids(tids) (a view of the two tensors), ta.bonds(tb), tn_where.gauge_simple_temp(...) is a context "
        "manager that inserts the gauges on entry and removes them on exit of the with-block (python `with` semantics; the "
        "bracket is checked lexically on the real ast: the gate call lies inside that block); s / do('linalg.norm', s)",
        "c06_ext FRESHNESS: every rand_uuid() is a new label (distinct object) different from every existing label",
        "c06_ext: the decorator convert_cur_orthog of gate_with_auto_swap (cur_orthog= keyword -> info dict) is not entered; "
        "the body is verified with info a dict",
        "c06_ext: module constants _VALID_GATE_PROPAGATE / _LAZY_GATE_CONTRACT of tnag/core.py are re-read from the source"],
    ASSUMPTIONS=[
        "c06_ext structure bounds: gate_TN_1D number of sites in {int site, 1, 2, symbolic >= 3}; lazy_split ng == 2 (the only "
        "value its single caller passes: GateInds mode table) with symbolic ranks; gate_inds_with_tn 1..3 targets (each "
        "present or absent, symbolic) + single-string spelling + unequal lengths; gate_with_auto_swap symbolic sites i != j "
        ">= 0 in any order; gate_nonlocal 2 or 3 sites; tensor_network_ag_gate_simple: single site / 1-tuple / 2-tuple / 2-list x {one tensor, two bonded, two disconnected, symbolic >= 3 tensors}, info None or an empty dict (a non-empty info dict makes the single-entry unpacking of the real code raise: outside the pre-condition); gate_with_submpo 2 or 3 symbolic sites in any order, where given or taken from the operator; tensor_network_ag_gate single site / 2 / 3 sites; maybe_factor_gate "
        "ng in 1..3 and, on the dimension-guessing route only, d in 2..5 (float root evaluated natively); Tensor.gate ndim 1..4 "
        "x every axis; 2D / 3D wrappers: single coordinate, 2 (tuple or list) or 3 coordinates",
        "c06_ext: option VALUES (G, tags, info, max_bond, cutoff, method, dagger / transpose in the ag wrapper) are opaque "
        "tokens: what is proved is which value reaches which callee parameter, not what the callee does with it",
        "c06_ext NOT covered: dtype promotion (complex operator on a real state) happens inside MatrixProductOperator.from_dense "
        "/ apply_op_vec / the contraction leaves -- numerics, bounded drivers only; swap_site_to, gate_with_mpo, "
        "the eager-split implementation, sandwich label wiring below gate_sandwich_inds_, gate_simple / long-range"],
    BOUNDED_FOR={
        "gate_TN_1D": ["gate / gate_inds on a state-like", "MatrixProductState."],
        "_tensor_network_gate_inds_lazy_split": ["TensorNetwork.gate_inds: dense(after)", "gate / gate_inds on a state-like"],
        "TensorNetwork.gate_inds_with_tn": ["TensorNetwork.gate_inds_with_tn"],
        "MatrixProductState.gate_split": ["MatrixProductState."],
        "MatrixProductState.gate_with_auto_swap": ["MatrixProductState."],
        "MatrixProductState.gate_nonlocal": ["MatrixProductState."],
        "tensor_network_ag_gate": ["gate / gate_inds on a state-like", "gate on an operator-like network"],
        "maybe_factor_gate": ["TensorNetwork.gate_inds: dense(after)", "gate / gate_inds on a state-like"],
        "TensorNetwork2DVector.gate": ["gate / gate_inds on a state-like"],
        "TensorNetwork3DVector.gate": ["gate / gate_inds on a state-like"],
        "Tensor.gate": ["Tensor.gate: x <- G x"],
        "tensor_network_ag_gate_simple": ["gate_simple", "gauged dense(after)"],
        "TensorNetworkGenVector.gate_with_op_lazy": ["with_op_lazy", "MatrixProductState."],
        "MatrixProductState.gate_with_submpo": ["MatrixProductState."]},
    EXPLANATION="E1 extension (recording calculus over the real ast; callees are recorded leaves): gate_TN_1D reaches exactly "
                "one implementation per (mode, #sites) as its mode table says ('auto-mps', 'swap+split', 'nonlocal' collapse to "
                "contract=True on one site) with every option threaded unchanged; _tensor_network_gate_inds_lazy_split labels "
                "the gate tensor ROW axes = new outer labels, COLUMN axes = labels joined to the network (exchanged when "
                "transposed), rewires the targets in order exactly once, and picks the spatial / swapped / no factorisation as "
                "documented (auto: strict rank comparisons, symbolic ranks); gate_inds_with_tn moves each present target leg to "
                "a fresh label shared with the gate's inner label and gives the gate's outer label the original name; "
                "MatrixProductState.gate_split / gate_with_auto_swap / gate_nonlocal keep the caller's site order (where[0] > "
                "where[1] included: gate axis 0 lands on the tensor that came from where[0], for symbolic sites), swap ranges, "
                "canonical centre, cur_orthog, dagger => conj + transpose; tensor_network_ag_gate maps sites to site / upper / "
                "lower labels in the given order for every `which`, threads contract / dagger / transpose / info / options, and "
                "propagates tags exactly in the lazy modes; maybe_factor_gate leaves tensor-form gates untouched and reshapes "
                "matrices to the target dimensions in target order, rows then columns; the 2D / 3D coordinate wrappers hand the "
                "coordinates (their site labels) on in the given order with every option; Tensor.gate sums the COLUMN axis of G "
                "(ROW axis when transposed) with the axis of the label and puts G's free axis back at that position (axis "
                "provenance through tensordot / transpose, every ndim <= 4 and axis); the sub-operator route (gate_with_op_lazy, "
                "gate_with_submpo): lower side of the operator meets the state (upper when transposed), canonical region "
                "[min, max] of the sites in any order, exactly that region compressed with the caller's method / options, "
                "cur_orthog where the sweep ends; tensor_network_ag_gate_simple: on the one-tensor, bonded two-tensor (gauged) and "
                "long-range routes the caller's G, sites in order, dagger AND transpose, max_bond / cutoff / gate options reach "
                "the gate leaf, smudge / power the gauge insertion that brackets it, the reported bond gauge is stored "
                "(normalised iff renorm) and nothing else in gauges changes; > 2 tensors raise before anything is applied.")
