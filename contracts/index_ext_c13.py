from contracts.index import entry_extend

_AG = "quimb/tensor/tnag/core.py"
_T1 = "quimb/tensor/tn1d/core.py"
entry_extend(
    "C13", modules=["contracts.c13_ext"], E1=[], LEMMAS=False,
    PROVIDERS=["contracts.c13_ext.provider", "contracts.c13_ext.provider_2d", "contracts.c13_ext.provider_3d",
               "contracts.c13_ext.provider_1d_envs", "contracts.c13_ext.provider_pt"],
    TRUSTED=[
        "c13_ext harness: the ast node of each target function is cut out of the file re-read from the checkout on every "
        "run and compiled UNCHANGED (none of the targets is decorated; the harness refuses a decorated target); free names "
        "of the module are bound to: functools / operator / itertools / numbers.Integral (the real ones), "
        "utils.progbar -> identity iterator wrapper, autoray.do -> recording stub (tnag.local_expectation) or sympy trace "
        "(1D routes); `self`, clusters and copies are recording stand-ins whose methods log (receiver, name, args, kwargs)",
        "leaf: belief_propagation.combine_local_contractions([(v_i, p_i)]) = prod_i v_i ** p_i (its mantissa / exponent "
        "arithmetic is C14's subject, not re-proved here)",
        "leaf: the per-term routes reached by the wrappers (local_expectation_exact: label calculus in c09_labels; "
        "partial_trace, get_cluster, canonicalize_, to_dense, select / slicing: numerics, run-time contracts of "
        "drivers/c13.py); canonicalize_(where, info=info) is the only writer of info['cur_orthog'] on the canonical route",
        "parametricity: operators G, sites, option values are opaque tokens without methods (an inspection by the code "
        "would raise and fail the obligation), per-term values are sympy symbols: an obligation decided on tokens holds "
        "for every value",
    ],
    ASSUMPTIONS=[
        "c13_ext partial_trace: the dense matrix handed back by to_dense(rows, cols) is an atom of the FREE *-algebra named "
        "by its row / column labels; rho, rho^T, conj(rho), rho^H = conj(rho^T) are four different words, coefficients are "
        "exact rationals, a division by trace(X) is recorded as a denominator X (leaf: autoray dag(x) = x^H, do('trace' / "
        "'transpose' / 'conj')); domain: keep = every ordered tuple of 1..2 of the sites 0..2 of a 4-site network (site 3 has "
        "no tag: the 'site exists still' guard), symmetrized in {'auto', True, False}, flatten in {True, False, 'all'}, "
        "normalized, reduce, method in {contract_compressed, contract_around, other}, rehearse in {False, True, 'tn', 'tree'}",
        "c13_ext domains (exhaustive over): number of terms 1..3 (dict or mapping-like), number of clusters 1..3 with "
        "symbolic values / norms (positive) / integer counts, combine in {prod, sum, other}, normalized in {True, False, "
        "'local', 'separate', 'prod', other}, return_all, rehearse in {absent, False, True, 'tn', 'tree'}, executor in "
        "{None, plain, scattering}, progbar, max_bond in {None, given}, 1D where: an int or every ordered tuple of 1..3 "
        "distinct sites of 0..4, info in {None, {}, 'calc', (2,2), (0,3), None-valued}, inplace, method in {canonical, "
        "envs, other}; 2 x 2 symbolic non-symmetric rho and G for the trace pairing",
        "c13_ext 2D domain: a 3 x 3 lattice; terms = every single site, every ORDERED pair of distinct sites (72, both "
        "orders), three mixed dictionaries of 3-4 terms (sites and pairs only: the plaquette map of quimb knows nothing "
        "else); normalized, return_all, autogroup in {False, True}; environments computed by the function or supplied by "
        "the caller (all 2x2 and 3x3 plaquettes); calc_plaquette_sizes / calc_plaquette_map / plaquette_to_sites / "
        "is_lone_coo are the real source; networks are structural stand-ins (select_any, |, gate, contract record how "
        "the contracted network was built; each contract() returns a fresh sympy symbol)",
    ],
    BOUNDED_FOR={
        "_combine_expansion_expectations": ["gloop_expand", "sloop_expand"],
        "_compute_expecs_maybe_in_parallel": ["compute_local_expectation"],
        "TensorNetworkGenVector.compute_local_expectation_exact": ["compute_local_expectation_exact"],
        "TensorNetworkGenVector.compute_local_expectation_cluster": ["compute_local_expectation_cluster"],
        "TensorNetworkGenVector.local_expectation_cluster": ["local_expectation_cluster"],
        "TensorNetworkGenVector.local_expectation": ["local_expectation("],
        "MatrixProductState.partial_trace_to_dense_canonical": ["partial_trace_to_dense_canonical"],
        "MatrixProductState.local_expectation_canonical": ["local_expectation_canonical"],
        "MatrixProductState.compute_local_expectation_canonical": ["compute_local_expectation_canonical"],
        "MatrixProductState.compute_local_expectation": ["compute_local_expectation(method"],
        "TensorNetwork2DVector.compute_local_expectation": ["PEPS.compute_local_expectation", "plaquette"],
        "TensorNetworkGenVector.partial_trace": ["TensorNetworkGenVector.partial_trace"],
        "PEPS3D.compute_local_expectation": ["PEPS3D.partial_trace / partial_trace_cluster / compute_local_expectation"],
        "MatrixProductState.compute_local_expectation_via_envs": ["via_envs", "envs"],
    },
    EXPLANATION="Extension (provider obligations fdx / e2 on the real source of 22 functions, executed natively with "
                "recording stand-ins): the combination table of the cluster / loop expansions for every (combine, "
                "normalized) pair as exact rational functions (prod: prod e^C * prod n^-C for ANY truthy normalized, sum: "
                "local / separate / none; a cluster spanning the network gives <G>/<1>); the many-terms helper and its five "
                "trampolines (each term exactly once with its own operator and sites, on the scattered network when there is "
                "one, dict or sum); the five compute_* wrappers of arbitrary geometry (every option of the wrapper reaches "
                "the per-term route under its own name on the REAL per-term signature; normalized='global' divides by one "
                "global norm once and switches the local normalisation off; loops generated once); local_expectation_cluster "
                "(cluster selection options, exact vs compressed route, normalized / rehearse threaded); local_expectation "
                "(options reach partial_trace; Tr(rho G) pairing with rho rows = ket); the 1D canonical route "
                "(centre moved onto the sites with the caller's record, slice min..max, rows = ket labels / columns = bra "
                "labels in the requested order, bra = conjugated relabelled copy, exponent carried, normalised exactly once; "
                "Tr(G rho); the orthogonality record describes the object it is used with -- self and the caller's record "
                "when inplace, a copy and a copy of the record otherwise, one record threaded through all terms); the 1D "
                "method table.  2D plaquette route (TensorNetwork2DVector.compute_local_expectation): every term is gated onto "
                "the ket restricted to a plaquette that contains all its sites, with the sites in the order GIVEN (also when "
                "the plaquette is looked up by the sorted pair), against bra | environment of that same plaquette; the "
                "denominator of a term is ket | bra | environment of the SAME plaquette objects; summed forms divide each "
                "term by its own norm; the five boundary options and extra options reach every environment computation, "
                "supplied environments are used as they are.  3D (PEPS3D.compute_local_expectation): every option reaches "
                "partial_trace for every term, ONE store of environments (the caller's, the factory's or a fresh one) is shared "
                "by all terms, value = Tr(G rho) with rho as returned (2 x 2 symbolic, non-symmetric), dict or sum.  1D "
                "environment route (compute_local_expectation_via_envs, chain of 4 sites, a site or every ordered tuple of 1..3 "
                "sites): the operator is gated onto a COPY of the ket section min..max with the sites in the order given, the "
                "bra section is ungated, the network is completed by exactly the left environment of min and the right "
                "environment of max when they exist, the single denominator is the whole norm network, each value is divided "
                "by it exactly once iff normalized; dict or sum.  TensorNetworkGenVector.partial_trace (compressed route, free "
                "*-algebra tokens): result = rho, or (rho + rho^H)/2 exactly iff the resolved symmetrized flag ('auto' -> not "
                "flatten), divided by its own trace exactly once iff normalized; rows = ket labels, columns = bra labels in the "
                "order of keep, bra_ind_id consistent with make_reduced_density_matrix on the copy; flatten contracts the traced "
                "(or all) existing sites; method table (contract_compressed / contract_around / ValueError) with max_bond, "
                "optimize, output_inds and every extra option threaded; reduce on the copy only; rehearse returns early.")
