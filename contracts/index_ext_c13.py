from contracts.index import entry_extend

_AG = "quimb/tensor/tnag/core.py"
_T1 = "quimb/tensor/tn1d/core.py"
entry_extend(
    "C13", modules=["contracts.c13_ext"], E1=[], LEMMAS=False,
    PROVIDERS=["contracts.c13_ext.provider"],
    TRUSTED=[
        "c13_ext harness: the ast node of each target function is cut out of the file re-read from the checkout on every "
        "run and compiled UNCHANGED (none of the targets is decorated; the harness refuses a decorated target); free names "
        "of the module are bound to: functools / operator / itertools / numbers.Integral (the real ones), "
        "utils.progbar -> identity iterator wrapper, autoray.do -> recording stub (tnag.local_expectation) or sympy trace "
        "(1D routes); `self`, clusters and copies are recording stand-ins whose methods log (receiver, name, args, kwargs)",
        "leaf: belief_propagation.combine_local_contractions([(v_i, p_i)]) = prod_i v_i ** p_i (its mantissa / exponent "
        "arithmetic is C14's subject, not re-proved here)",
        "leaf: the per-term routes reached by the wrappers (local_expectation_exact: label calculus in c09_labels; "
        "partial_trace, get_cluster, canonicalize_, to_dense, select / slicing: numerics, run-time contracts of "
        "drivers/c13.py); canonicalize_(where, info=info) is the only writer of info['cur_orthog'] on the canonical route",
        "parametricity: operators G, sites, option values are opaque tokens without methods (an inspection by the code "
        "would raise and fail the obligation), per-term values are sympy symbols: an obligation decided on tokens holds "
        "for every value",
    ],
    ASSUMPTIONS=[
        "c13_ext domains (exhaustive over): number of terms 1..3 (dict or mapping-like), number of clusters 1..3 with "
        "symbolic values / norms (positive) / integer counts, combine in {prod, sum, other}, normalized in {True, False, "
        "'local', 'separate', 'prod', other}, return_all, rehearse in {absent, False, True, 'tn', 'tree'}, executor in "
        "{None, plain, scattering}, progbar, max_bond in {None, given}, 1D where: an int or every ordered tuple of 1..3 "
        "distinct sites of 0..4, info in {None, {}, 'calc', (2,2), (0,3), None-valued}, inplace, method in {canonical, "
        "envs, other}; 2 x 2 symbolic non-symmetric rho and G for the trace pairing",
    ],
    BOUNDED_FOR={
        "_combine_expansion_expectations": ["loop_expansion", "sloop", "gloop"],
        "_compute_expecs_maybe_in_parallel": ["compute_local_expectation"],
        "TensorNetworkGenVector.compute_local_expectation_exact": ["compute_local_expectation_exact"],
        "TensorNetworkGenVector.compute_local_expectation_cluster": ["compute_local_expectation_cluster"],
        "TensorNetworkGenVector.local_expectation_cluster": ["local_expectation_cluster"],
        "TensorNetworkGenVector.local_expectation": ["local_expectation("],
        "MatrixProductState.partial_trace_to_dense_canonical": ["partial_trace_to_dense_canonical"],
        "MatrixProductState.local_expectation_canonical": ["local_expectation_canonical"],
        "MatrixProductState.compute_local_expectation_canonical": ["compute_local_expectation_canonical"],
        "MatrixProductState.compute_local_expectation": ["compute_local_expectation(method"],
    },
    EXPLANATION="Extension (provider obligations fdx / e2 on the real source of 18 functions, executed natively with "
                "recording stand-ins): the combination table of the cluster / loop expansions for every (combine, "
                "normalized) pair as exact rational functions (prod: prod e^C * prod n^-C for ANY truthy normalized, sum: "
                "local / separate / none; a cluster spanning the network gives <G>/<1>); the many-terms helper and its five "
                "trampolines (each term exactly once with its own operator and sites, on the scattered network when there is "
                "one, dict or sum); the five compute_* wrappers of arbitrary geometry (every option of the wrapper reaches "
                "the per-term route under its own name on the REAL per-term signature; normalized='global' divides by one "
                "global norm once and switches the local normalisation off; loops generated once); local_expectation_cluster "
                "(cluster selection options, exact vs compressed route, normalized / rehearse threaded); local_expectation "
                "(options reach partial_trace; Tr(rho G) pairing with rho rows = ket); the 1D canonical route "
                "(centre moved onto the sites with the caller's record, slice min..max, rows = ket labels / columns = bra "
                "labels in the requested order, bra = conjugated relabelled copy, exponent carried, normalised exactly once; "
                "Tr(G rho); the orthogonality record describes the object it is used with -- self and the caller's record "
                "when inplace, a copy and a copy of the record otherwise, one record threaded through all terms); the 1D "
                "method table.")
