from contracts.index import entry_extend

entry_extend(
    "C17", modules=["contracts.c17_ext"],
    E1=["quimb/linalg/autoblock.py::subselect", "quimb/linalg/autoblock.py::subselect_set",
        "quimb/linalg/base_linalg.py::_rel_window_to_abs_window", "quimb/linalg/base_linalg.py::choose_backend"],
    LEMMAS=False,
    PROVIDERS=["contracts.c17_ext.provider"],
    TRUSTED=[
        "subselect: np.empty(shape, dtype=t) returns an array of that shape and dtype; `A.dtype` names the dtype of A "
        "(numba compiles the same loop nest)",
        "choose_backend: isinstance(x, spla.LinearOperator) / issparse(x) decide the representation kind; A is square "
        "(A.shape[0] == n); python true division of positive ints is exact real division (float rounding of d**2/k at "
        "the threshold is not modelled)",
        "fdx eigs_scipy / eig_numpy / eigensystem_autoblocked: scipy eigsh / eigs, the four numpy.linalg routines and the "
        "two numba kernels are recording stand-ins returning a fixed unsorted spectrum with marked vector columns; the "
        "wrappers do not branch on the numerical values (sorting is delegated to np.argsort / np.sort / ndarray.sort)",
        "fdx projection: token matrices implement @, .T, .conj(), .H by the laws (XY)^T = Y^T X^T, conj(XY) = conj X conj Y, "
        "X^H = conj(X)^T; two words are equal iff the identity holds for all complex matrices (free *-algebra); qu.dag is the "
        "REAL quimb.core.dag; the solver leaf is a recording stand-in; slepc backends not covered (slepc4py absent)",
        "fdx providers: the numerical leaves (the six eigs_* / five svds_* backends, eig_numpy, eigensystem_partial below "
        "the aliases, scipy expm / sqrtm, eigh inside expm / sqrtm) are replaced by recording stand-ins while the REAL "
        "dispatcher runs; the dispatchers treat the operator, k, ncv, tol, v0 and extra options as opaque pass-through "
        "values (parametricity: one sentinel per slot stands for all values); choose_backend is the real one (E1 contract "
        "above) on a small dense, a large dense and a LinearOperator representative",
        "frame (ast): np.sqrt of a complex array is the principal complex root; np.zeros_like(A) has the dtype of A; "
        "np.argsort / fancy indexing el[so], ev[:, so] apply one permutation; subselect / subselect_set as proved above",
    ],
    ASSUMPTIONS=[
        "subselect / subselect_set: every entry of p is a valid basis index; subselect_set: p lists each index once "
        "(compute_blocks returns sorted sets) -- both discharged only for callers by reading _eigh_autoblocked",
        "_rel_window_to_abs_window: exact real arithmetic (no float rounding), el_min <= el_max",
        "compute_blocks (connected components over python sets), eigh_window's boolean mask and the per-backend `which` "
        "translation of scipy_linalg are NOT under contract here: bounded drivers only",
    ],
    BOUNDED_FOR={},
    EXPLANATION="Extension: E1 proofs that autoblock.subselect cuts out exactly A[p[i],p[j]] (dtype of A kept) and "
                "subselect_set scatters a block back to exactly rows x columns p and nothing else; the relative-window "
                "arithmetic; choose_backend never picks the dense solver for action-only operators nor slepc without "
                "slepc / with a LinearOperator metric (36 kinds x all n, k, nnz). Finite-domain exhaustive: "
                "eigensystem_partial's which default (SA / TR with sigma), settings threading, backend dispatch incl. "
                "lower-case names and AUTO, scipy fallback; the alias table (eig, eigh, eigvals, eigvalsh, eigvecs, "
                "eigvecsh, groundstate, groundenergy, bound_spectrum); norm type table, norm_2, svds dispatch, expm / "
                "sqrtm routes. AST frame: sqrtm(herm=True) takes the root of COMPLEX eigenvalues; _eigh_autoblocked "
                "allocates eigenvectors with A's dtype, scatters values and vectors of a block with the block's own "
                "index list and sorts both with one permutation; _eigvalsh_autoblocked likewise for values. Further fdx: "
                "eigs_scipy's which/sigma translation for shift-invert mode (nearest-target rules and the sigma default "
                "become 'LM' with sigma forwarded, every other rule unchanged), eigsh/eigs by the hermitian flag, values "
                "and vectors sorted by one permutation; eig_numpy's (return_vecs, isherm) -> numpy routine table, "
                "routing, paired sorting and autoblock flag threading; eigensystem_autoblocked's flag dispatch. Subspace "
                "projection P= of eigs_scipy / eigs_lobpcg / eigs_numpy: the real functions run on matrices known only as "
                "words of the free *-algebra (P^H, P^T, conj P, P are four different words): the solver receives exactly "
                "P^H A P, vectors come back as P @ v paired with their values, lobpcg's initial block is P^H v0 "
                "(obligation `fdx-projection-compresses-as-Pdag.A.P-and-maps-vectors-back-by-P`).")
