"""C08 (second part) -- the remaining record-threading carriers of quimb/tensor/tn1d/core.py and the canonical-form
record kept by the MPS circuit simulators (quimb/tensor/circuit/mps.py, CircuitBase._apply_gate in circuit/core.py).

Everything is built on contracts.c08_mps (ghost arrays isL / isR per MPS heap object, Sound(record, X), RecordOp /
Consumer, decorate_info, record_reqs, the MPSContract.methods dispatch table).  Post-condition style as there:
`Sound(info', X)` where X is the object the caller goes on using (the receiver for in-place spellings and for spellings
that return no state, the result otherwise), record inside the chain, receiver untouched when not in place; consumers
carry the obligation `local-region-holds-the-centre` wherever local tensors are read.

Three contracts of c08_mps are RE-REGISTERED here by subclasses that only ADD to them (more kinds, extra clauses, use as a
callee): canonicalize (info=None kinds: the record then lives in a private dict, the post-condition speaks about that
witness), singular_values (record = (i, i), exact raise condition, callee use), partial_trace_to_dense_canonical (info
absent / empty kinds, where of 3 sites, record inside where, frame, callee use).
"""

import ast

import z3

from vf.pyvc import (And, Contract, If, Implies, Loop, Max, Min, NS, Not, Opaque, Or, PathEnd, PyRaise, Ref, SymIter,
                     Unsupported, is_int, is_z3, register, REGISTRY)
from contracts.c08_mps import (F, MPS, TN1DFLAT, K, ALIASES, Canonicalize, Consumer, MPSContract, PartialTraceToDenseCanonical,
                               RecordOp, SingularValues, Site, Sound, decorate_info, forall_sites, info_kinds, mk_info,
                               new_mps, record_reqs, sel, unchanged_where)

FC = "quimb/tensor/circuit/mps.py"
FCORE = "quimb/tensor/circuit/core.py"
TN1DVEC = f"{F}::TensorNetwork1DVector"

ABSENT = "<absent>"


# ------------------------------------------------------------------------------------------------
# helpers
# ------------------------------------------------------------------------------------------------


def is_pair(rec):
    return isinstance(rec, tuple) and len(rec) == 2 and all(is_int(x) for x in rec)


def rec_of(info):
    """the record held by an info value: a pair, 'calc', None, or ABSENT (no dict / no key)"""
    if not isinstance(info, dict) or "cur_orthog" not in info:
        return ABSENT
    return info["cur_orthog"]


def same_record(cx, r0, r1):
    """two record values are the same value (kind and content)"""
    if r0 is ABSENT or r1 is ABSENT:
        # no dict / no key / key holding None all mean "no record" (@convert_cur_orthog turns {} into
        # {"cur_orthog": None} on the way in)
        return (r0 is ABSENT or r0 is None) and (r1 is ABSENT or r1 is None)
    if isinstance(r0, str) or isinstance(r1, str) or r0 is None or r1 is None:
        return (r0 is None and r1 is None) or (isinstance(r0, str) and isinstance(r1, str) and r0 == r1)
    if isinstance(r0, tuple) != isinstance(r1, tuple):
        return False
    return cx.eq_values(r0, r1)


def info_kinds2():
    """kinds of the `info` argument of the carriers that are NOT wrapped by @convert_cur_orthog"""
    return ("absent", "empty", "pair", "calc", "None")


def mk_info2(cx, kind):
    if kind == "absent":
        return None
    if kind == "empty":
        return {}
    return mk_info(cx, kind)


def where_kinds():
    return ("int", "pair", "triple")


def mk_where(cx, kind, L, base="w"):
    if kind == "int":
        w = cx.Int(base)
        cx.assume(And(0 <= w, w < L))
        return w
    n = {"single": 1, "pair": 2, "triple": 3}[kind]
    ws = tuple(cx.Int(f"{base}{k}") for k in range(n))
    for w in ws:
        cx.assume(And(0 <= w, w < L))
    return ws


def where_range(where):
    if is_int(where):
        return where, where
    lo = hi = where[0]
    for w in where[1:]:
        lo, hi = Min(lo, w), Max(hi, w)
    return lo, hi


def untouched(cx, mps):
    """the MPS object is exactly as in the pre-state (all isometry flags, length)"""
    return And(unchanged_where(cx, mps, lambda k: True), cx.fields(mps)["L"] == cx.pre(mps)["L"])


def havoc_site(cx, mps, i):
    f = cx.fields(mps)
    f["isL"] = z3.Store(f["isL"], i, cx.Bool("hv"))
    f["isR"] = z3.Store(f["isR"], i, cx.Bool("hv"))


class SiteInd:
    """the physical index label of site i of an MPS object"""

    def __init__(self, mps, i):
        self.mps, self.i = mps, i


class SiteTag:
    """the site tag of site i of an MPS object"""

    def __init__(self, mps, i):
        self.mps, self.i = mps, i


class BoundMethod:
    def __init__(self, recv, name):
        self.recv, self.name = recv, name


class SliceVal:
    def __init__(self, lo, hi):
        self.lo, self.hi = lo, hi


class LocalPair:
    """ki & ki.H : the local norm network of one site tensor"""

    def __init__(self, site):
        self.site = site


OPAQUE_FUNCS = ("do", "Tensor", "get_namespace", "functools.reduce", "qu.qarray", "qu.spin_operator", "str",
                "parse_to_gate", "tags_to_oset")
NOOP_FUNCS = ("warnings.warn",)
# methods of values that are not part of the abstract state (arrays, array / random namespaces, generators, scalars):
# they return such values again and touch no MPS
PURE_OPAQUE_METHODS = ("sum", "real", "to_numpy", "size", "choice", "default_rng", "zeros_like", "stack", "reshape",
                       "reindex", "contract", "to_dense", "conj_", "conj", "norm", "items", "values", "join", "add")


class More(Consumer):
    """shared modelling for the carriers of this module"""

    floor = 5

    def attr(self, cx, base, attr, node):
        if base is None:
            if attr in ("all", "operator", "functools", "qu", "warnings", "numbers", "MatrixProductOperator", "ops",
                        "SPECIAL_GATES", "TensorNetworkGenVector"):
                return cx.Opaque(attr)
            return NotImplemented
        if isinstance(base, Site):
            if attr in ("H", "data", "inds"):
                return cx.Opaque(attr)
            return NotImplemented
        if isinstance(base, Opaque):
            return cx.Opaque(attr)
        if isinstance(base, Ref) and base.kind == "MPS" and attr in ("site_ind", "site_tag"):
            return BoundMethod(base, attr)
        return MPSContract.attr(self, cx, base, attr, node)

    # -- ghost effects on single sites ---------------------------------------------------------
    def site_of_index(self, cx, key, node):
        if isinstance(key, SiteInd):
            return key
        raise Unsupported(f"index label {key!r} is not a site index (line {node.lineno})")

    def call(self, cx, name, args, kwargs, node):
        if name in OPAQUE_FUNCS:
            return cx.Opaque(name.split(".")[-1])
        if name in NOOP_FUNCS:
            return None
        if name == "int" and len(args) == 1 and isinstance(args[0], Opaque):
            return args[0]
        if name == "abs" and len(args) == 1 and isinstance(args[0], Opaque):
            return cx.Opaque("abs")
        if name == "slice" and len(args) == 2:
            return SliceVal(args[0], args[1])
        if name == "map" and len(args) == 2:
            fn, seq = args
            if isinstance(fn, BoundMethod) and isinstance(seq, (tuple, list)):
                return tuple(self.call(cx, "." + fn.name, [fn.recv, x], {}, node) for x in seq)
            return cx.Opaque("map")
        if name == "__getitem__" and isinstance(args[0], Opaque):
            return cx.Opaque("item")
        if name == "__setitem__" and isinstance(args[0], Opaque):
            return None
        if name == "__cmp__":
            return cx.Opaque("mask")
        if name == "__tuple__":
            return cx.Opaque("tuple")
        if name == "__len__" and isinstance(args[0], Opaque):
            n = cx.Int("len")
            cx.assume(n >= 1)  # (only used on arrays of singular values: at least one)
            return n
        if name.startswith("."):
            m, recv = name[1:], args[0]
            if isinstance(recv, Opaque):
                if m in PURE_OPAQUE_METHODS:
                    return cx.Opaque(m)
                raise Unsupported(f"method .{m} of an opaque value (line {node.lineno})")
            if isinstance(recv, str) and m == "join":
                return cx.Opaque("str")
            if isinstance(recv, Site):
                if m in ("get_namespace", "reindex", "contract"):
                    return cx.Opaque(m)
                if m in ("reindex_",):
                    return recv
                if m == "isel_" or (m == "modify" and not hasattr(kwargs.get("data"), "side")):
                    # projecting / rescaling / re-expanding the tensor of one site: its isometry flags are lost,
                    # nothing else is touched
                    havoc_site(cx, recv.mps, recv.i)
                    return None
            if isinstance(recv, Ref) and recv.kind == "MPS":
                if m == "site_ind":
                    return SiteInd(recv, args[1]) if is_int(args[1]) else cx.Opaque("site_ind")
                if m == "site_tag":
                    return SiteTag(recv, args[1])
                if m in ("phys_dim", "get_namespace", "norm"):
                    return cx.Opaque(m)
                if m.endswith("_") and "inplace" in kwargs and m[:-1] in self.methods:
                    # functools.partialmethod(f, inplace=True) called WITH an explicit inplace=: the call-time
                    # keyword wins (python semantics); c08_mps' dispatcher would force inplace=True
                    return cx.call_contract(REGISTRY[self.methods[m[:-1]]], args[1:], kwargs, node, recv=recv)
                if m in self.methods or (m.endswith("_") and m[:-1] in self.methods) or m in ALIASES:
                    # a method under contract: dispatch to it (before the opaque-value rules of Consumer.call)
                    return MPSContract.call(self, cx, name, args, kwargs, node)
        return super().call(cx, name, args, kwargs, node)

    def case_of_call(self, cx, a):
        return NS(name="call")


def oblige_all(cx, node, fname, reqs):
    for lab, c in reqs.items():
        cx.oblige(f"call-pre@{node.lineno}:{fname}:{lab}", "call-pre", c, node.lineno)


# ------------------------------------------------------------------------------------------------
# re-registered (extended) contracts of c08_mps
# ------------------------------------------------------------------------------------------------


@register
class Canonicalize2(Canonicalize):
    """canonicalize with the additional kinds info=None (record given through cur_orthog= or computed): the record is
    then written to a PRIVATE dict (parse_cur_orthog's contract); the post-condition speaks about that witness record,
    so that callers know the result is canonical around `where` even when they keep no record"""

    def cases(self):
        out = super().cases()
        for ip in (True, False):
            for wk in ("int", "pair"):
                for rk in ("noinfo-calc", "noinfo-pair", "noinfo-int", "noinfo-None"):
                    out.append(NS(name=f"inplace={ip},where={wk},record={rk}", inplace=ip, wk=wk, rk=rk))
        return out

    def inputs(self, cx, case):
        if not case.rk.startswith("noinfo-"):
            return super().inputs(cx, case)
        mps = new_mps(cx)
        where = cx.Int("w") if case.wk == "int" else (cx.Int("w0"), cx.Int("w1"))
        c0, c1 = cx.Int("c0"), cx.Int("c1")
        cur = {"noinfo-calc": "calc", "noinfo-pair": (c0, c1), "noinfo-int": c0, "noinfo-None": None}[case.rk]
        d = dict(self=mps, where=where, cur_orthog=cur, info=None, bra=None, create_bond=False, inplace=case.inplace)
        a = NS(d)
        cx.ghost["rec0"] = self.norm_record(self.record_of(a))
        for c in self.reqs(cx, a).values():
            cx.assume(c)
        return d

    def apply(self, cx, a, node, case=None):
        if a.info is None:
            # the private dict parse_cur_orthog makes (proved: kinds noinfo-*); the caller never sees it
            a.info = {"cur_orthog": (a.cur_orthog, a.cur_orthog) if is_int(a.cur_orthog) else a.cur_orthog}
        return super().apply(cx, a, node, case)

    def ensures(self, a, r, cx, case):
        if a.info is None:
            # body proof of the info=None kinds: the witness is the local dict at the return
            loc = cx.env.get("info")
            b = NS(dict(a.__dict__))
            b.info = loc if isinstance(loc, dict) else {}
            d = super().ensures(b, r, cx, case)
            return {("witness-" + k if k.startswith("record") else k): v for k, v in d.items()}
        return super().ensures(a, r, cx, case)


class CalleeMixin:
    """use of a record-threading contract as a callee: @convert_cur_orthog modelled by decorate_info when `decorated`;
    the call-site obligations of `call_reqs`; then havoc + assume ensures (Contract.apply)"""

    decorated = True

    def call_reqs(self, cx, a):
        return record_reqs(cx, a.self, a.info)

    def pre_call(self, cx, a, node):
        pass

    def apply(self, cx, a, node, case=None):
        if self.decorated:
            a = decorate_info(a)
        self.pre_call(cx, a, node)
        oblige_all(cx, node, self.target.split(".")[-1], self.call_reqs(cx, a))
        self.snapshot(cx, a)
        cx.ghost[("applying", self.target)] = True
        try:
            return Contract.apply(self, cx, a, node, case)
        finally:
            cx.ghost[("applying", self.target)] = False

    def snapshot(self, cx, a):
        """remember the caller's record at entry (for `unchanged` clauses)"""
        cx.ghost[("rec_in", self.target)] = rec_of(a.get("info"))

    def rec_in(self, cx):
        return cx.ghost.get(("rec_in", self.target), ABSENT)

    def fresh_record(self, cx, a):
        if isinstance(a.info, dict):
            a.info["cur_orthog"] = (cx.Int("rec_a"), cx.Int("rec_b"))


@register
class SingularValues2(CalleeMixin, SingularValues):
    """adds: the record afterwards is exactly (i, i); ValueError exactly when not 0 < i < L; use as a callee"""

    def ensures(self, a, r, cx, case):
        d = super().ensures(a, r, cx, case)
        rec = rec_of(a.info)
        if is_pair(rec):
            d["record-is-(i,i)"] = And(rec[0] == a.i, rec[1] == a.i)
        rec0 = self.rec_in(cx)
        if is_pair(rec0):
            f, p = cx.fields(a.self), cx.pre(a.self)
            slo, shi = Min(a.i, Min(rec0[0], rec0[1])), Max(a.i, Max(rec0[0], rec0[1]))
            d["frame-outside-span"] = forall_sites(Implies(Or(K < slo, K > shi), And(
                sel(f["isL"], K) == sel(p["isL"], K), sel(f["isR"], K) == sel(p["isR"], K))))
        return d

    def ensures_raise(self, a, exc, cx, case):
        if exc == "ValueError":
            L = cx.fields(a.self)["L"]
            return {"raise-ValueError-only-if-bond-out-of-range": Not(And(0 < a.i, a.i < L)),
                    "receiver-untouched": untouched(cx, a.self),
                    "record-untouched": same_record(cx, rec_of(a.info), self.rec_in(cx))}
        return {f"no-raise-{exc}": False}

    def inputs(self, cx, case):
        d = super().inputs(cx, case)
        cx.ghost[("rec_in", self.target)] = rec_of(d["info"])
        return d

    def pre_call(self, cx, a, node):
        L = cx.fields(a.self)["L"]
        if cx.decide(Not(And(0 < a.i, a.i < L)), node.lineno):
            raise PyRaise("ValueError", node.lineno)

    def fresh_result(self, cx, a, case):
        self.fresh_record(cx, a)
        return cx.Opaque("svals")


@register
class PartialTraceToDenseCanonical2(CalleeMixin, PartialTraceToDenseCanonical):
    """adds: info absent (None) / empty dict kinds, `where` of three sites, the record lies inside [min(where),
    max(where)], nothing outside the span of (old record, where) is touched; use as a callee (not decorated: a caller
    that passes no info keeps no record)"""

    decorated = False

    def cases(self):
        return [NS(name=f"info={ik},where={wk},normalized={nz}", ik=ik, wk=wk, nz=nz) for ik in info_kinds2()
                for wk in where_kinds() for nz in (True, False)]

    def inputs(self, cx, case):
        mps = new_mps(cx)
        L = cx.fields(mps)["L"]
        info = mk_info2(cx, case.ik)
        for c in record_reqs(cx, mps, info).values():
            cx.assume(c)
        where = mk_where(cx, case.wk, L)
        cx.ghost[("rec_in", self.target)] = rec_of(info)
        return dict(self=mps, where=where, normalized=case.nz, info=info, contract_opts={})

    def call_reqs(self, cx, a):
        L = cx.fields(a.self)["L"]
        lo, hi = where_range(a.where)
        d = {"where-in-range": And(0 <= lo, hi < L)}
        d.update(record_reqs(cx, a.self, a.info))
        return d

    def fresh_result(self, cx, a, case):
        self.fresh_record(cx, a)
        return cx.Opaque("rho")

    def ensures(self, a, r, cx, case):
        d = {"length": cx.fields(a.self)["L"] == cx.pre(a.self)["L"]}
        lo, hi = where_range(a.where)
        f, p = cx.fields(a.self), cx.pre(a.self)
        if isinstance(a.info, dict):
            d.update(self.record_post(cx, a, a.self))
            rec = rec_of(a.info)
            if is_pair(rec):
                d["record-inside-where"] = And(lo <= rec[0], rec[0] <= rec[1], rec[1] <= hi)
        rec0 = self.rec_in(cx)
        if is_pair(rec0):
            slo, shi = Min(lo, Min(rec0[0], rec0[1])), Max(hi, Max(rec0[0], rec0[1]))
            d["frame-outside-span"] = forall_sites(Implies(Or(K < slo, K > shi), And(
                sel(f["isL"], K) == sel(p["isL"], K), sel(f["isR"], K) == sel(p["isR"], K))))
        return d


MPSContract.methods.update({
    "canonicalize": f"{MPS}.canonicalize",
    "singular_values": f"{MPS}.singular_values",
    "partial_trace_to_dense_canonical": f"{MPS}.partial_trace_to_dense_canonical",
})


# ------------------------------------------------------------------------------------------------
# thin wrappers over singular_values: schmidt_values, entropy, schmidt_gap, bipartite_schmidt_state
# ------------------------------------------------------------------------------------------------


class SvalsWrapper(CalleeMixin, More):
    """reject cyclic chains, pass `info` on to singular_values: afterwards the caller's record is (i, i) and sound for the
    receiver; ValueError exactly when the bond i is not an inner bond (then nothing was touched)"""

    floor = 8
    bond = "i"

    def cases(self):
        return [NS(name=f"info={ik}", ik=ik) for ik in (info_kinds() if self.decorated else info_kinds2())]

    def inputs(self, cx, case):
        mps = new_mps(cx)
        info = mk_info(cx, case.ik) if self.decorated else mk_info2(cx, case.ik)
        for c in record_reqs(cx, mps, info).values():
            cx.assume(c)
        cx.ghost[("rec_in", self.target)] = rec_of(info)
        d = dict(self=mps, info=info)
        d[self.bond] = cx.Int("i")
        d.update(self.extra_inputs(cx, case))
        return d

    def extra_inputs(self, cx, case):
        return dict(method="svd")

    def pre_call(self, cx, a, node):
        L = cx.fields(a.self)["L"]
        i = a[self.bond]
        if cx.decide(Not(And(0 < i, i < L)), node.lineno):
            raise PyRaise("ValueError", node.lineno)

    def fresh_result(self, cx, a, case):
        self.fresh_record(cx, a)
        return cx.Opaque("value")

    def ensures(self, a, r, cx, case):
        d = {"length": cx.fields(a.self)["L"] == cx.pre(a.self)["L"]}
        i = a[self.bond]
        if isinstance(a.info, dict):
            d.update(self.record_post(cx, a, a.self))
            rec = rec_of(a.info)
            if is_pair(rec):
                d["record-is-(i,i)"] = And(rec[0] == i, rec[1] == i)
        # only what canonicalize_(i) may touch is touched
        rec0 = self.rec_in(cx)
        if is_pair(rec0):
            f, p = cx.fields(a.self), cx.pre(a.self)
            slo, shi = Min(i, Min(rec0[0], rec0[1])), Max(i, Max(rec0[0], rec0[1]))
            d["frame-outside-span"] = forall_sites(Implies(Or(K < slo, K > shi), And(
                sel(f["isL"], K) == sel(p["isL"], K), sel(f["isR"], K) == sel(p["isR"], K))))
        return d

    def ensures_raise(self, a, exc, cx, case):
        if exc == "ValueError":
            L = cx.fields(a.self)["L"]
            return {"raise-ValueError-only-if-bond-out-of-range": Not(And(0 < a[self.bond], a[self.bond] < L)),
                    "receiver-untouched": untouched(cx, a.self),
                    "record-untouched": same_record(cx, rec_of(a.info), self.rec_in(cx))}
        return {f"no-raise-{exc}": False}  # (NotImplementedError: cyclic chains only -- outside the domain)


@register
class SchmidtValues(SvalsWrapper):
    target = f"{MPS}.schmidt_values"


@register
class Entropy(SvalsWrapper):
    target = f"{MPS}.entropy"


@register
class SchmidtGap(SvalsWrapper):
    target = f"{MPS}.schmidt_gap"


@register
class BipartiteSchmidtState(SvalsWrapper):
    """not decorated: `info` may be absent; get in {ket, rho, ket-dense, rho-dense}"""

    target = f"{MPS}.bipartite_schmidt_state"
    decorated = False
    bond = "sz_a"

    def cases(self):
        return [NS(name=f"info={ik},get={g}", ik=ik, get=g) for ik in info_kinds2()
                for g in ("ket", "rho", "ket-dense", "rho-dense")]

    def extra_inputs(self, cx, case):
        return dict(get=case.get)

    def call(self, cx, name, args, kwargs, node):
        if name == ".site_ind" and isinstance(args[1], str):
            return cx.Opaque("site_ind")
        return super().call(cx, name, args, kwargs, node)


MPSContract.methods.update({
    "schmidt_values": f"{MPS}.schmidt_values", "entropy": f"{MPS}.entropy", "schmidt_gap": f"{MPS}.schmidt_gap",
    "bipartite_schmidt_state": f"{MPS}.bipartite_schmidt_state",
})


# ------------------------------------------------------------------------------------------------
# local_expectation_canonical, compute_local_expectation_canonical
# ------------------------------------------------------------------------------------------------


@register
class LocalExpectationCanonical(CalleeMixin, More):
    """moves the centre of the RECEIVER into `where` (in place) and records it in the caller's dict: Sound(info', self),
    record inside [min(where), max(where)], nothing outside span(old record, where) touched"""

    target = f"{MPS}.local_expectation_canonical"
    decorated = False
    floor = 8

    def cases(self):
        return [NS(name=f"info={ik},where={wk}", ik=ik, wk=wk) for ik in info_kinds2() for wk in where_kinds()]

    def inputs(self, cx, case):
        mps = new_mps(cx)
        L = cx.fields(mps)["L"]
        info = mk_info2(cx, case.ik)
        for c in record_reqs(cx, mps, info).values():
            cx.assume(c)
        cx.ghost[("rec_in", self.target)] = rec_of(info)
        return dict(self=mps, G=cx.Opaque("G"), where=mk_where(cx, case.wk, L), normalized=True, info=info,
                    contract_opts={})

    def call_reqs(self, cx, a):
        L = cx.fields(a.self)["L"]
        lo, hi = where_range(a.where)
        d = {"where-in-range": And(0 <= lo, hi < L)}
        d.update(record_reqs(cx, a.self, a.info))
        return d

    def fresh_result(self, cx, a, case):
        self.fresh_record(cx, a)
        return cx.Opaque("expec")

    def ensures(self, a, r, cx, case):
        d = {"length": cx.fields(a.self)["L"] == cx.pre(a.self)["L"]}
        lo, hi = where_range(a.where)
        f, p = cx.fields(a.self), cx.pre(a.self)
        if isinstance(a.info, dict):
            d.update(self.record_post(cx, a, a.self))
            rec = rec_of(a.info)
            if is_pair(rec):
                d["record-inside-where"] = And(lo <= rec[0], rec[0] <= rec[1], rec[1] <= hi)
        rec0 = self.rec_in(cx)
        if is_pair(rec0):
            slo, shi = Min(lo, Min(rec0[0], rec0[1])), Max(hi, Max(rec0[0], rec0[1]))
            d["frame-outside-span"] = forall_sites(Implies(Or(K < slo, K > shi), And(
                sel(f["isL"], K) == sel(p["isL"], K), sel(f["isR"], K) == sel(p["isR"], K))))
        return d


MPSContract.methods.update({"local_expectation_canonical": f"{MPS}.local_expectation_canonical"})


class Terms:
    """the `terms` argument {where: G} (and its .items() / sorted item list): a collection of symbolic size n whose keys
    are all of one kind (int | pair | triple of sites, by case) and lie on the chain"""

    def __init__(self, n, wk, L):
        self.n, self.wk, self.L = n, wk, L

    def item(self, cx):
        """an arbitrary item (where, G)"""
        return (mk_where(cx, self.wk, self.L, base="tw"), cx.Opaque("G"))


class OpaqueMap:
    pass


@register
class ComputeLocalExpectationCanonical(CalleeMixin, More):
    """many local expectations through one threaded record.  inplace=False: the canonicalisations happen on a copy and on
    a COPY of `info` -- the caller's record and the receiver are unchanged.  inplace=True: the caller's record ends as a
    sound pair for the receiver (if there was at least one term).  The dict comprehension over the (sorted) terms is cut
    with an invariant exactly like a loop (rule implemented in on_dictcomp below; the body is the real expression)."""

    target = f"{MPS}.compute_local_expectation_canonical"
    decorated = False
    floor = 12

    def cases(self):
        return [NS(name=f"inplace={ip},info={ik},where={wk}", inplace=ip, ik=ik, wk=wk) for ip in (True, False)
                for ik in info_kinds2() for wk in where_kinds()]

    def inputs(self, cx, case):
        mps = new_mps(cx)
        L = cx.fields(mps)["L"]
        info = mk_info2(cx, case.ik)
        for c in record_reqs(cx, mps, info).values():
            cx.assume(c)
        cx.ghost[("rec_in", self.target)] = rec_of(info)
        n = cx.Int("nterms")
        cx.assume(n >= 0)
        cx.ghost["terms_n"] = n
        return dict(self=mps, terms=Terms(n, case.wk, L), normalized=True, return_all=cx.Bool("return_all"), info=info,
                    inplace=case.inplace, contract_opts={})

    def call(self, cx, name, args, kwargs, node):
        if name == "__isinstance__" and args[1] == "tuple":
            return isinstance(args[0], tuple)
        if name == "min" and len(args) == 1 and is_int(args[0]):
            raise PyRaise("TypeError", node.lineno)  # min(<int>): 'int' object is not iterable
        if name == ".items" and isinstance(args[0], Terms):
            return args[0]
        if name == "sorted" and isinstance(args[0], Terms):
            ts = args[0]
            key = kwargs.get("key")
            if key is not None and cx.decide(ts.n > 0, node.lineno):
                cx.apply_lambda(key, [ts.item(cx)])  # the key function is evaluated on every item: must be defined
            return Terms(ts.n, ts.wk, ts.L)
        if name == ".values" and isinstance(args[0], OpaqueMap):
            return cx.Opaque("values")
        return super().call(cx, name, args, kwargs, node)

    # ---- the comprehension `{where: mps.local_expectation_canonical(G, where, info=info, ...) for where, G in terms}`
    def comp_inv(self, cx, it):
        o = cx.old
        v = cx.env
        mps, info = v["mps"], v["info"]
        L = cx.fields(mps)["L"]
        d = {"same-object": (mps == o.self) == bool(o.inplace), "length": L == cx.pre(o.self)["L"]}
        rec = rec_of(info)
        if is_pair(rec):
            lo, hi = Min(rec[0], rec[1]), Max(rec[0], rec[1])
            d["record-sound-for-the-object-being-moved"] = And(Sound(cx, (lo, hi), mps), 0 <= lo, hi < L)
        else:
            d["record-kind-changes-with-the-first-term"] = it == 0
        if not o.inplace:
            d["receiver-untouched"] = untouched(cx, o.self)
            d["caller-record-unchanged"] = same_record(cx, rec_of(o.info), self.rec_in(cx))
        return d

    def on_dictcomp(self, cx, n):
        if len(n.generators) != 1 or n.generators[0].ifs:
            return NotImplemented
        g = n.generators[0]
        terms = cx.ev(g.iter)
        if not isinstance(terms, Terms):
            return NotImplemented
        line = n.lineno
        saved = dict(cx.env)
        for lab, c in self.comp_inv(cx, 0).items():
            cx.oblige(f"inv-init@comp:{lab}", "inv-init", c, line)
        # arbitrary iteration t.  The record changes KIND with the first term (calc / None / absent -> pair): the
        # state before iteration t is the initial one if t = 0, else arbitrary with a pair record (complete split)
        t = cx.Int("_itc")
        cx.assume(And(t >= 0, t <= terms.n))
        info = cx.env["info"]
        if is_pair(rec_of(info)) or not cx.decide(t == 0, line):
            cx.havoc_heap()
            info["cur_orthog"] = (cx.Int("rec_a"), cx.Int("rec_b"))
        for c in self.comp_inv(cx, t).values():
            cx.assume(c)
        if cx.decide(t < terms.n, line):
            cx.assign(g.target, terms.item(cx))
            cx.ev(n.key)
            cx.ev(n.value)
            for lab, c in self.comp_inv(cx, t + 1).items():
                cx.oblige(f"inv-step@comp:{lab}", "inv-step", c, line)
            raise PathEnd("comprehension body end")
        cx.env = saved
        return OpaqueMap()

    def call_reqs(self, cx, a):
        return record_reqs(cx, a.self, a.info)

    def modifies(self, a, case):
        return [(a.self, ["isL", "isR"])] if a.inplace else []

    def fresh_result(self, cx, a, case):
        raise Unsupported("compute_local_expectation_canonical as a callee")

    def ensures_raise(self, a, exc, cx, case):
        if exc == "TypeError":
            # the docstring documents dict[int or tuple[int], array]: an int key must not raise (known finding C08-f)
            return {"documented-int-site-key-is-accepted": False}
        return {f"no-raise-{exc}": False}

    def ensures(self, a, r, cx, case):
        d = {"length": cx.fields(a.self)["L"] == cx.pre(a.self)["L"]}
        rec = rec_of(a.info)
        if not a.inplace:
            d["receiver-untouched"] = untouched(cx, a.self)
            d["caller-record-unchanged"] = same_record(cx, rec, self.rec_in(cx))
            if is_pair(rec):
                d.update(self.record_post(cx, a, a.self))
        elif isinstance(a.info, dict):
            if is_pair(rec):
                d.update(self.record_post(cx, a, a.self))
            else:
                d["record-is-pair-unless-there-were-no-terms"] = cx.ghost["terms_n"] == 0
        return d


MPSContract.methods.update({"compute_local_expectation_canonical": f"{MPS}.compute_local_expectation_canonical"})


# ------------------------------------------------------------------------------------------------
# measure
# ------------------------------------------------------------------------------------------------


def merge_sites(cx, mps, lo, node):
    """contract the tensors of sites lo, lo+1 into one tensor that carries BOTH site tags: generally not an isometry in
    either direction; both tags now name the same tensor (ghost `gap` = lo, `gap_shared`: tag lo may be given up /
    overwritten by moving tag lo+1 down without losing a tensor)"""
    f = cx.fields(mps)
    cx.oblige(f"call-pre@{node.lineno}:contract-adjacent-sites-on-the-chain", "call-pre", And(0 <= lo, lo + 1 < f["L"]),
              node.lineno)
    hl, hr = cx.Bool("hv"), cx.Bool("hv")
    f["isL"] = z3.Store(z3.Store(f["isL"], lo, hl), lo + 1, hl)
    f["isR"] = z3.Store(z3.Store(f["isR"], lo, hr), lo + 1, hr)
    f["gap"], f["gap_shared"] = lo + 0 * f["L"], z3.BoolVal(True)
    cx.ghost["merge"] = dict(at=lo, isL=f["isL"], isR=f["isR"], mps=mps)


@register
class Measure(CalleeMixin, More):
    """measure(site, remove, outcome, renorm, info, get, seed, backend_random, inplace)   [@convert_cur_orthog]

    get == "outcome": only the outcome is returned -> X = self.  inplace=False: the canonicalisation happens on a copy and
    on a COPY of the record: caller's record and receiver unchanged.  inplace=True: record (site, site), sound for self.
    otherwise (outcome, tn) is returned -> X = tn: record = (min(site, L'-1),)*2 as the docstring promises, inside the new
    chain, Sound(record, tn); remove=True: L' = L - 1, the site tensor is contracted into a neighbour and the higher
    sites are renumbered one down (ghost arrays shift).  The local tensor is read (outcome probabilities) with the
    centre at `site`: obligation local-region-holds-the-centre.
    Domain: 0 <= site < L; remove=True needs L >= 2; open chain."""

    target = f"{MPS}.measure"
    floor = 30
    ghost_fields = ("isL", "isR", "gap", "gap_shared")

    def cases(self):
        out = []
        for ip in (True, False):
            for rm in (True, False):
                for get in (None, "outcome"):
                    for ik in info_kinds():
                        # (outcome kind, random backend) do not interact with the record: all three spellings for
                        # the pair record, the default spelling for the other record kinds
                        for ok, br in ((("None", "numpy"), ("int", None), ("int", "other")) if ik == "pair"
                                       else (("None", "numpy"),)):
                            out.append(NS(name=f"inplace={ip},remove={rm},get={get},info={ik},outcome={ok},backend_random={br}",
                                          inplace=ip, remove=rm, get=get, ik=ik, ok=ok, br=br))
        return out

    def inputs(self, cx, case):
        mps = new_mps(cx)
        L = cx.fields(mps)["L"]
        info = mk_info(cx, case.ik)
        for c in record_reqs(cx, mps, info).values():
            cx.assume(c)
        site = cx.Int("site")
        cx.assume(And(0 <= site, site < L))
        if case.remove:
            cx.assume(L >= 2)
        cx.ghost[("rec_in", self.target)] = rec_of(info)
        cx.ghost["k0"] = cx.Int("k0")  # the arbitrary site of the skolem-row argument (never constrained)
        return dict(self=mps, site=site, remove=case.remove, outcome=None if case.ok == "None" else cx.Int("outcome"),
                    renorm=cx.Bool("renorm"), info=info, get=case.get, seed=None, backend_random=case.br,
                    inplace=case.inplace)

    def call(self, cx, name, args, kwargs, node):
        if name == ".contract" and isinstance(args[0], Site):
            # diagonal of the local reduced density matrix from the site tensor alone
            self.local_region(cx, args[0].mps, args[0].i, args[0].i, node)
            return cx.Opaque("tii")
        if name == "__binop__" and args[0] == "BitXor" and isinstance(args[1], Ref) and isinstance(args[2], SliceVal):
            mps, sl = args[1], args[2]
            cx.oblige(f"call-pre@{node.lineno}:contracts-exactly-two-sites", "call-pre", sl.hi == sl.lo + 2, node.lineno)
            merge_sites(cx, mps, sl.lo, node)
            return mps
        if name == ".retag_" and isinstance(args[0], Site) and isinstance(args[1], dict) and len(args[1]) == 1:
            ((src, dst),) = args[1].items()
            site = args[0]
            if not (isinstance(src, SiteTag) and isinstance(dst, SiteTag) and src.mps == site.mps and dst.mps == site.mps):
                raise Unsupported("retag_ with tags that are not site tags of the same chain")
            f = cx.fields(site.mps)
            ok = And(src.i == site.i, dst.i == src.i - 1, f["gap"] == dst.i) if "gap" in f else False
            cx.oblige(f"call-pre@{node.lineno}:retag-moves-a-site-one-down-into-the-vacated-tag", "call-pre", ok, node.lineno)
            f["isL"] = z3.Store(f["isL"], dst.i, sel(f["isL"], src.i))
            f["isR"] = z3.Store(f["isR"], dst.i, sel(f["isR"], src.i))
            f["gap"], f["gap_shared"] = src.i, z3.BoolVal(False)
            return None
        if name == "__setattr__" and isinstance(args[0], Ref) and args[0].kind == "MPS":
            mps, attr, val = args
            if attr != "_L":
                raise Unsupported(f"store to attribute {attr} of an MPS")
            f = cx.fields(mps)
            L = f["L"]
            ok = And(val == L - 1, Or(And(f["gap_shared"], f["gap"] == L - 2), And(Not(f["gap_shared"]), f["gap"] == L - 1))) \
                if "gap" in f else False
            cx.oblige(f"call-pre@{node.lineno}:length-reduced-only-after-the-sites-were-renumbered", "call-pre", ok, node.lineno)
            f["L"] = val
            return None
        return super().call(cx, name, args, kwargs, node)

    def inv(self, v):
        cx, o = v.cx, v.old
        m = cx.ghost.get("merge")
        if m is None or m["mps"] != v.tn:
            return {"sites-contracted-before-renumbering": False}
        f = cx.fields(v.tn)
        L0 = cx.pre(o.self)["L"]
        at, i, k = m["at"], v.i, cx.ghost["k0"]
        d = {"same-object": (v.tn == o.self) == bool(o.inplace), "length-not-yet-changed": f["L"] == L0,
             "i-range": And(o.site + 1 <= i, Or(i <= L0, i == o.site + 1)),
             "gap": If(i == o.site + 1, And(f["gap_shared"], f["gap"] == at), And(Not(f["gap_shared"]), f["gap"] == i - 1)),
             # skolem row: the flags of ONE arbitrary site k (fixed before the call, unconstrained) are tracked; what is
             # proved for it holds for every site.  (Quantified forms with the shifted index k + 1 leave the array
             # property fragment: the solver then no longer answers `sat` on the obligations that really fail.)
             "below-untouched": Implies(k < o.site, And(sel(f["isL"], k) == sel(m["isL"], k),
                                                        sel(f["isR"], k) == sel(m["isR"], k))),
             "moved-down": Implies(And(o.site <= k, k < i - 1), And(sel(f["isL"], k) == sel(m["isL"], k + 1),
                                                                   sel(f["isR"], k) == sel(m["isR"], k + 1))),
             "above-not-yet-moved": And(*[Implies(q >= i, And(sel(f["isL"], q) == sel(m["isL"], q),
                                                              sel(f["isR"], q) == sel(m["isR"], q)))
                                          for q in (k, k + 1)])}  # (row k + 1 is the one that moves into row k)
        rec = rec_of(v.info)
        d["record"] = And(rec[0] == o.site, rec[1] == o.site) if is_pair(rec) else False
        if not o.inplace:
            d["receiver-untouched"] = untouched(cx, o.self)
        return d

    @property
    def loops(self):
        return {0: Loop("for i in range(site + 1, L)", self.inv)}

    def record_post_row(self, cx, a, obj):
        """record_post with Sound stated for the arbitrary site k0 (body proof); quantified when used as a callee"""
        k = cx.ghost.get("k0")
        if cx.ghost.get(("applying", self.target)) or k is None:
            return self.record_post(cx, a, obj)
        rec = rec_of(a.info)
        d = {"record-is-pair": is_pair(rec)}
        if is_pair(rec):
            f = cx.fields(obj)
            lo, hi = Min(rec[0], rec[1]), Max(rec[0], rec[1])
            d["record-sound-for-the-object-the-caller-keeps"] = And(
                Implies(And(0 <= k, k < lo), sel(f["isL"], k)), Implies(And(hi < k, k < f["L"]), sel(f["isR"], k)))
            d["record-in-range"] = And(0 <= lo, hi < f["L"])
        return d

    # ---- callee use
    def call_reqs(self, cx, a):
        L = cx.fields(a.self)["L"]
        d = {"site-in-range": And(0 <= a.site, a.site < L)}
        if a.remove:
            d["two-sites-at-least"] = L >= 2
        d.update(record_reqs(cx, a.self, a.info))
        return d

    def modifies(self, a, case):
        return [(a.self, ["isL", "isR"])] if a.inplace else []

    def fresh_result(self, cx, a, case):
        out = cx.Opaque("outcome") if a.outcome is None else a.outcome
        if a.get == "outcome":
            if a.inplace:
                self.fresh_record(cx, a)
            return out
        self.fresh_record(cx, a)
        L = cx.fields(a.self)["L"]
        if a.inplace:
            if a.remove:
                cx.fields(a.self)["L"] = L - 1
            return (out, a.self)
        return (out, new_mps(cx, "res", L=L - 1 if a.remove else L))

    def ensures(self, a, r, cx, case):
        L0 = cx.pre(a.self)["L"]
        rec = rec_of(a.info)
        d = {}
        if not a.inplace:
            d["receiver-untouched"] = untouched(cx, a.self)
        if a.get == "outcome":
            d["returns-the-outcome-only"] = not isinstance(r, tuple)
            if a.inplace:
                d["length"] = cx.fields(a.self)["L"] == L0
                d.update(self.record_post(cx, a, a.self))
                if is_pair(rec):
                    d["record-is-(site,site)"] = And(rec[0] == a.site, rec[1] == a.site)
            else:
                # nothing the caller keeps was moved: its record must be the one it handed in
                d["caller-record-unchanged"] = same_record(cx, rec, self.rec_in(cx))
                if is_pair(rec):
                    d.update(self.record_post(cx, a, a.self))
            return d
        ok = isinstance(r, tuple) and len(r) == 2 and isinstance(r[1], Ref)
        d["returns-(outcome,state)"] = ok
        if not ok:
            return d
        tn = r[1]
        Ln = cx.fields(tn)["L"]
        d["returns-receiver-iff-inplace"] = (tn == a.self) == bool(a.inplace)
        d["length"] = Ln == (L0 - 1 if a.remove else L0)
        d.update(self.record_post_row(cx, a, tn))
        if is_pair(rec):
            c = Min(a.site, Ln - 1)
            d["record-is-min(site,new_L-1)-as-documented"] = And(rec[0] == c, rec[1] == c)
        return d


MPSContract.methods.update({"measure": f"{MPS}.measure"})


# ------------------------------------------------------------------------------------------------
# sample_configuration, sample: the record of `self` is only READ
# ------------------------------------------------------------------------------------------------


class Sampler(CalleeMixin, More):
    """no state is returned: X = self.  The configuration is drawn from a right-canonical COPY (canonicalize(0), not in
    place) and a COPY of the record is moved: the caller's record and the receiver are exactly as before."""

    decorated = False
    ghost_fields = ("isL", "isR", "absorbed")

    def common_inputs(self, cx, case):
        mps = new_mps(cx)
        L = cx.fields(mps)["L"]
        cx.assume(L >= 1)
        info = mk_info2(cx, case.ik)
        for c in record_reqs(cx, mps, info).values():
            cx.assume(c)
        cx.ghost[("rec_in", self.target)] = rec_of(info)
        return mps, info

    def call_reqs(self, cx, a):
        d = {"chain-not-empty": cx.fields(a.self)["L"] >= 1}
        d.update(record_reqs(cx, a.self, a.info))
        return d

    def modifies(self, a, case):
        return []

    def ensures(self, a, r, cx, case):
        rec = rec_of(a.info)
        d = {"receiver-untouched": untouched(cx, a.self),
             "caller-record-unchanged": same_record(cx, rec, self.rec_in(cx))}
        if is_pair(rec):
            d.update(self.record_post(cx, a, a.self))
        return d


@register
class SampleConfiguration(Sampler):
    """loop over the sites of the copy: site i is read (local probabilities) when everything to its left has been
    projected and absorbed into it (ghost `absorbed` = i) and everything to its right is a right isometry"""

    target = f"{MPS}.sample_configuration"
    floor = 20

    def cases(self):
        return [NS(name=f"info={ik},backend_random={br}", ik=ik, br=br) for ik in info_kinds2()
                for br in ("numpy", None, "other")]

    def inputs(self, cx, case):
        mps, info = self.common_inputs(cx, case)
        return dict(self=mps, seed=None, backend_random=case.br, info=info)

    def absorbed(self, cx, mps):
        return cx.fields(mps).setdefault("absorbed", z3.IntVal(0))

    def call(self, cx, name, args, kwargs, node):
        if name == "__binop__" and args[0] == "BitAnd" and isinstance(args[1], Site):
            # ki & ki.H : the local norm network of site i is formed -- the local tensors are read here
            s = args[1]
            f = cx.fields(s.mps)
            cx.oblige(f"local-region-holds-the-centre@{node.lineno}", "post",
                      And(self.absorbed(cx, s.mps) == s.i, 0 <= s.i, s.i < f["L"],
                          forall_sites(Implies(And(s.i < K, K < f["L"]), sel(f["isR"], K)))), node.lineno)
            return cx.Opaque("local_norm_tn")
        if name == ".isel_" and isinstance(args[0], Ref) and args[0].kind == "MPS" and isinstance(args[1], dict) \
                and len(args[1]) == 1:
            (ix,) = args[1].keys()
            ix = self.site_of_index(cx, ix, node)
            if ix.mps != args[0]:
                raise Unsupported("isel_ with the index of another network")
            havoc_site(cx, ix.mps, ix.i)  # projecting the physical index: only this site's tensor changes
            return None
        if name == ".contract_tags_" and isinstance(args[0], Ref) and args[0].kind == "MPS":
            mps, tags = args[0], args[1]
            if not (isinstance(tags, (list, tuple)) and len(tags) == 2 and all(isinstance(t, SiteTag) and t.mps == mps for t in tags)):
                raise Unsupported("contract_tags_ on something else than two site tags")
            i, j = tags[0].i, tags[1].i
            f = cx.fields(mps)
            cx.oblige(f"call-pre@{node.lineno}:absorbs-the-projected-block-into-the-next-site", "call-pre",
                      And(j == i + 1, 0 <= i, j < f["L"], self.absorbed(cx, mps) == i), node.lineno)
            havoc_site(cx, mps, i)
            havoc_site(cx, mps, j)
            f["absorbed"] = j
            return None
        return super().call(cx, name, args, kwargs, node)

    def inv(self, v):
        cx, o = v.cx, v.old
        f = cx.fields(v.psi)
        L = f["L"]
        i = v.i
        return {"works-on-a-copy": v.psi != o.self, "length": L == cx.pre(o.self)["L"],
                "i-range": And(0 <= i, i <= L),
                "left-block-absorbed": self.absorbed(cx, v.psi) == If(i < L, i, L - 1),
                "right-part-right-isometric": forall_sites(Implies(And(i < K, K < L), sel(f["isR"], K))),
                "receiver-untouched": untouched(cx, o.self),
                "caller-record-unchanged": same_record(cx, rec_of(o.info), self.rec_in(cx))}

    @property
    def loops(self):
        return {0: Loop("for i in range(psi.L)", self.inv)}

    def fresh_result(self, cx, a, case):
        return (cx.Opaque("config"), cx.Opaque("omega"))

    def ensures(self, a, r, cx, case):
        d = super().ensures(a, r, cx, case)
        d["returns-(config,omega)"] = isinstance(r, tuple) and len(r) == 2
        return d


@register
class Sample(Sampler):
    """generator: canonicalize(0) once on a copy with a COPY of the record, then C calls of sample_configuration on that
    copy threading the copied record"""

    target = f"{MPS}.sample"
    floor = 15

    def cases(self):
        return [NS(name=f"info={ik},backend_random={br}", ik=ik, br=br) for ik in info_kinds2()
                for br in ("numpy", None, "other")]

    def inputs(self, cx, case):
        mps, info = self.common_inputs(cx, case)
        C = cx.Int("C")
        return dict(self=mps, C=C, seed=None, backend_random=case.br, info=info)

    def inv(self, v):
        cx, o = v.cx, v.old
        f = cx.fields(v.psi0)
        rec = rec_of(v.info)
        d = {"works-on-a-copy": v.psi0 != o.self, "length": f["L"] == cx.pre(o.self)["L"],
             "receiver-untouched": untouched(cx, o.self),
             "caller-record-unchanged": same_record(cx, rec_of(o.info), self.rec_in(cx)),
             "threaded-record-is-a-private-copy": v.info is not o.info}
        if is_pair(rec):
            lo, hi = Min(rec[0], rec[1]), Max(rec[0], rec[1])
            d["threaded-record-sound-for-the-copy"] = And(Sound(cx, (lo, hi), v.psi0), 0 <= lo, hi < f["L"])
        else:
            d["threaded-record-is-a-pair"] = False
        return d

    @property
    def loops(self):
        return {0: Loop("for _ in range(C)", self.inv)}

    def fresh_result(self, cx, a, case):
        n = If(a.C >= 0, a.C, 0)
        return SymIter(n, lambda t: (cx.Opaque("config"), cx.Opaque("omega")))


MPSContract.methods.update({"sample_configuration": f"{MPS}.sample_configuration", "sample": f"{MPS}.sample"})


# ------------------------------------------------------------------------------------------------
# gate_split (record NOT interpreted), gate_with_auto_swap
# ------------------------------------------------------------------------------------------------

ABSORB_KINDS = ("absent", "left", "right", "both", None)


def absorb_of(opts):
    """the absorb option the split sees (tensor_split's default is 'both')"""
    return opts.get("absorb", "both") if isinstance(opts, dict) else "both"


def leaf_gate_split(cx, mps, s0, s1, absorb, node):
    """[assumed leaf, DESIGN 1.5 / C05]  gate_inds(G, (ind of s0, ind of s1), contract='split', absorb=...) on adjacent
    sites: the two site tensors are contracted with the gate and split again, the factor holding the indices of s0 going
    to s0.  absorb='right': the factor at s0 is an isometry towards s1; absorb='left': the factor at s1 is an isometry
    towards s0; 'both' / None: neither.  No other tensor is touched."""
    f = cx.fields(mps)
    cx.oblige(f"call-pre@{node.lineno}:gate-split-on-adjacent-sites-of-the-chain", "call-pre",
              And(Or(s1 == s0 + 1, s1 == s0 - 1), 0 <= s0, s0 < f["L"], 0 <= s1, s1 < f["L"]), node.lineno)
    if absorb not in ("left", "right", "both", None):
        raise Unsupported(f"split with absorb={absorb!r}")
    hv = [cx.Bool("hv") for _ in range(4)]
    l0, r0, l1, r1 = hv
    if absorb == "right":
        l0, r0 = If(s1 == s0 + 1, True, hv[0]), If(s1 == s0 + 1, hv[1], True)
    elif absorb == "left":
        l1, r1 = If(s0 == s1 + 1, True, hv[2]), If(s0 == s1 + 1, hv[3], True)
    f["isL"] = z3.Store(z3.Store(f["isL"], s0, l0), s1, l1)
    f["isR"] = z3.Store(z3.Store(f["isR"], s0, r0), s1, r1)


@register
class GateSplit(CalleeMixin, More):
    """gate_split(G, where=(a, b), inplace, **compress_opts): NO record parameter -- the canonical-form record is not
    interpreted here; the caller has to update its own record.
    Promised: the receiver is returned iff inplace, else a copy and the receiver is untouched; only the tensors of a and
    b change; by `absorb` (forwarded to the split): 'right' -> the tensor of a is an isometry towards b, 'left' -> the
    tensor of b is an isometry towards a, 'both'/None/absent -> no isometry claim;  derived record rule: IF the centre was
    inside {a, b} before (Sound((min,max), self)) THEN Sound((b,b)) ['right'] / Sound((a,a)) ['left'] / Sound((min,max))
    [otherwise] holds for the result.
    Not promised: anything about a record the caller keeps when the centre was elsewhere (stated domain: adjacent sites)."""

    target = f"{MPS}.gate_split"
    decorated = False
    floor = 8

    def cases(self):
        return [NS(name=f"inplace={ip},absorb={ab}", inplace=ip, ab=ab) for ip in (True, False) for ab in ABSORB_KINDS]

    def inputs(self, cx, case):
        mps = new_mps(cx)
        L = cx.fields(mps)["L"]
        a, b = cx.Int("a"), cx.Int("b")
        cx.assume(And(0 <= a, a < L, 0 <= b, b < L, Or(b == a + 1, b == a - 1)))
        opts = {} if case.ab == "absent" else {"absorb": case.ab}
        return dict(self=mps, G=cx.Opaque("G"), where=(a, b), inplace=case.inplace, compress_opts=opts)

    def call(self, cx, name, args, kwargs, node):
        if name == ".gate_inds" and isinstance(args[0], Ref) and args[0].kind == "MPS":
            mps, inds = args[0], args[2]
            if kwargs.get("contract") != "split" or not (isinstance(inds, tuple) and len(inds) == 2
                                                          and all(isinstance(x, SiteInd) and x.mps == mps for x in inds)):
                raise Unsupported("gate_inds: not the two-site split form")
            tgt = mps
            if not kwargs.get("inplace", False):
                f = cx.fields(mps)
                tgt = cx.new_obj("MPS", L=f["L"], cyclic=f["cyclic"], isL=f["isL"], isR=f["isR"])
            leaf_gate_split(cx, tgt, inds[0].i, inds[1].i, kwargs.get("absorb", "both"), node)
            return tgt
        return super().call(cx, name, args, kwargs, node)

    def call_reqs(self, cx, a):
        L = cx.fields(a.self)["L"]
        w = a.where
        if not (isinstance(w, tuple) and len(w) == 2):
            raise Unsupported("gate_split: where is not a pair of sites")
        return {"adjacent-sites-of-the-chain": And(0 <= w[0], w[0] < L, 0 <= w[1], w[1] < L,
                                                   Or(w[1] == w[0] + 1, w[1] == w[0] - 1))}

    def modifies(self, a, case):
        return [(a.self, ["isL", "isR"])] if a.inplace else []

    def fresh_result(self, cx, a, case):
        return a.self if a.inplace else new_mps(cx, "res", L=cx.fields(a.self)["L"])

    def ensures(self, a, r, cx, case):
        if not isinstance(r, Ref):
            return {"returns-mps": False}
        f, p = cx.fields(r), cx.pre(a.self)
        s0, s1 = a.where
        absorb = absorb_of(a.compress_opts)
        d = {"returns-receiver-iff-inplace": (r == a.self) == bool(a.inplace), "length": f["L"] == p["L"],
             "only-the-two-sites-change": forall_sites(Implies(And(K != s0, K != s1), And(
                 sel(f["isL"], K) == sel(p["isL"], K), sel(f["isR"], K) == sel(p["isR"], K))))}
        if not a.inplace:
            d["receiver-untouched"] = untouched(cx, a.self)
        lo, hi = Min(s0, s1), Max(s0, s1)
        if absorb == "right":
            d["first-site-isometric-towards-second"] = If(s1 == s0 + 1, sel(f["isL"], s0), sel(f["isR"], s0))
            new = (s1, s1)
        elif absorb == "left":
            d["second-site-isometric-towards-first"] = If(s0 == s1 + 1, sel(f["isL"], s1), sel(f["isR"], s1))
            new = (s0, s0)
        else:
            new = (lo, hi)
        pre_sound = And(forall_sites(Implies(And(0 <= K, K < lo), sel(p["isL"], K))),
                        forall_sites(Implies(And(hi < K, K < p["L"]), sel(p["isR"], K))))
        d["derived-record-rule"] = Implies(pre_sound, Sound(cx, new, r))
        return d


MPSContract.methods.update({"gate_split": f"{MPS}.gate_split"})


@register
class GateWithAutoSwap(CalleeMixin, More):
    """gate_with_auto_swap(G, (i, j), info, swap_back, inplace)   [@convert_cur_orthog]
    swap j next to i (swap_site_to), canonicalize_ around the pair, gate_split_ with the absorb that leaves the centre at
    lo + 1 (lo = min(i, j)), write the record (lo+1, lo+1), optionally swap back threading the same record.
    Post: Sound(info', X), record inside the chain, X = receiver iff inplace, receiver untouched otherwise; when no
    swap-back happens the record is exactly (lo+1, lo+1).   (The permutation of the physical sites is C06/C09 matter.)"""

    target = f"{MPS}.gate_with_auto_swap"
    floor = 20

    def cases(self):
        return [NS(name=f"inplace={ip},info={ik},swap_back={sb}", inplace=ip, ik=ik, sb=sb) for ip in (True, False)
                for ik in info_kinds() for sb in (True, False)]

    def inputs(self, cx, case):
        mps = new_mps(cx)
        L = cx.fields(mps)["L"]
        info = mk_info(cx, case.ik)
        for c in record_reqs(cx, mps, info).values():
            cx.assume(c)
        i, j = cx.Int("i"), cx.Int("j")
        cx.assume(And(0 <= i, i < L, 0 <= j, j < L, i != j))
        cx.ghost[("rec_in", self.target)] = rec_of(info)
        return dict(self=mps, G=cx.Opaque("G"), where=(i, j), info=info, swap_back=case.sb, inplace=case.inplace,
                    compress_opts={})

    def call_reqs(self, cx, a):
        L = cx.fields(a.self)["L"]
        w = a.where
        if not (isinstance(w, (tuple, list)) and len(w) == 2):
            raise Unsupported("gate_with_auto_swap: where is not a pair of sites")
        d = {"two-distinct-sites-of-the-chain": And(0 <= w[0], w[0] < L, 0 <= w[1], w[1] < L, w[0] != w[1])}
        d.update(record_reqs(cx, a.self, a.info))
        return d

    def modifies(self, a, case):
        return [(a.self, ["isL", "isR"])] if a.inplace else []

    def fresh_result(self, cx, a, case):
        self.fresh_record(cx, a)
        return a.self if a.inplace else new_mps(cx, "res", L=cx.fields(a.self)["L"])

    def ensures(self, a, r, cx, case):
        if not isinstance(r, Ref):
            return {"returns-mps": False}
        d = {"returns-receiver-iff-inplace": (r == a.self) == bool(a.inplace),
             "length": cx.fields(r)["L"] == cx.pre(a.self)["L"]}
        if not a.inplace:
            d["receiver-untouched"] = untouched(cx, a.self)
        d.update(self.record_post(cx, a, r))
        rec = rec_of(a.info)
        if is_pair(rec):
            i, j = a.where
            lo = Min(i, j)
            adjacent = Max(i, j) == lo + 1
            if a.swap_back is False:
                d["record-is-(lo+1,lo+1)"] = And(rec[0] == lo + 1, rec[1] == lo + 1)
            elif a.swap_back is True:
                d["record-is-(lo+1,lo+1)-when-adjacent"] = Implies(adjacent, And(rec[0] == lo + 1, rec[1] == lo + 1))
        return d


MPSContract.methods.update({"gate_with_auto_swap": f"{MPS}.gate_with_auto_swap"})


# ------------------------------------------------------------------------------------------------
# gate_with_submpo, gate_nonlocal
# ------------------------------------------------------------------------------------------------


class SubMPO:
    """an MPO acting on the sites `sites` (a tuple of ints on the chain)"""

    def __init__(self, sites):
        self.sites = tuple(sites)


class TagRange:
    """[mps.site_tag(s) for s in range(lo, hi)]"""

    def __init__(self, mps, lo, hi):
        self.mps, self.lo, self.hi = mps, lo, hi


class SubTN:
    """the tensors of sites lo .. hi-1 split off a chain by partition(..., inplace=True)"""

    def __init__(self, mps, lo, hi):
        self.mps, self.lo, self.hi = mps, lo, hi


def havoc_region(cx, mps, lo, hi, isL_in=None, isR_in=None):
    """fresh flags on sites lo..hi (inclusive), everything else unchanged; optional facts about the new flags inside"""
    f = cx.fields(mps)
    nL, nR = cx.Array("isL_rg", z3.IntSort(), z3.BoolSort()), cx.Array("isR_rg", z3.IntSort(), z3.BoolSort())
    cx.assume(forall_sites(Implies(Or(K < lo, K > hi), And(sel(nL, K) == sel(f["isL"], K), sel(nR, K) == sel(f["isR"], K)))))
    if isL_in is not None:
        cx.assume(forall_sites(Implies(And(lo <= K, K <= hi, isL_in(K)), sel(nL, K))))
    if isR_in is not None:
        cx.assume(forall_sites(Implies(And(lo <= K, K <= hi, isR_in(K)), sel(nR, K))))
    f["isL"], f["isR"] = nL, nR


METHOD_SWEEP = (("direct", "absent"), ("direct", True), ("direct", False), ("lazy", "absent"))


class SubmpoBase(CalleeMixin, More):
    """shared leaf modelling for gate_with_submpo / gate_nonlocal.  Assumed leaves:
    * gate_with_op_lazy_(mpo): attaches the operator's tensors to the sites it acts on -- the isometry flags of the
      sites min(sites)..max(sites) are lost, no other site changes; the network is not flat until compressed;
    * partition(site tags of lo..hi, inplace=True): splits that region off; `psi |= sub` puts it back;
    * tensor_network_1d_compress(sub, site_tags=region, inplace=True): the region lo..hi ends in canonical form with the
      centre at its FIRST site (sites lo+1..hi right isometries), at its LAST site if sweep_reverse (sites lo..hi-1
      left isometries); nothing outside the region is touched  [DESIGN C08 *A*]."""

    def pending(self, cx):
        return cx.ghost.setdefault("pending", {})

    def detached(self, cx):
        return cx.ghost.setdefault("detached", {})

    def call(self, cx, name, args, kwargs, node):
        if name == ".gen_sites_present" and isinstance(args[0], SubMPO):
            return args[0].sites
        if name == "MatrixProductOperator.from_dense":
            sites = kwargs.get("sites")
            if not isinstance(sites, (tuple, list)):
                raise Unsupported("from_dense without explicit sites")
            return SubMPO(sites)
        if name == ".gate_with_op_lazy_" and isinstance(args[0], Ref) and args[0].kind == "MPS":
            mps, op = args[0], args[1]
            if not isinstance(op, SubMPO):
                raise Unsupported("gate_with_op_lazy_ with an unknown operator")
            lo, hi = where_range(op.sites)
            L = cx.fields(mps)["L"]
            cx.oblige(f"call-pre@{node.lineno}:operator-sites-on-the-chain", "call-pre", And(0 <= lo, hi < L), node.lineno)
            havoc_region(cx, mps, lo, hi)
            self.pending(cx)[mps.oid] = (lo, hi)
            return mps
        if name == "__genexp__":
            n = args[0]
            g = n.generators[0] if len(n.generators) == 1 else None
            e = n.elt
            if g is not None and not g.ifs and isinstance(g.target, ast.Name) and isinstance(e, ast.Call) \
                    and isinstance(e.func, ast.Attribute) and e.func.attr == "site_tag" and len(e.args) == 1 \
                    and isinstance(e.args[0], ast.Name) and e.args[0].id == g.target.id:
                rng = cx.ev(g.iter)
                mps = cx.ev(e.func.value)
                if isinstance(rng, tuple) and len(rng) == 3 and rng[0] == "range" and isinstance(mps, Ref):
                    return TagRange(mps, rng[1], rng[2])
            raise Unsupported(f"comprehension at line {node.lineno}")
        if name == ".partition" and isinstance(args[0], Ref) and isinstance(args[1], TagRange):
            mps, tr = args[0], args[1]
            if tr.mps != mps or kwargs.get("inplace") is not True or kwargs.get("which") != "any":
                raise Unsupported("partition: not the in-place split of a site range")
            self.detached(cx)[mps.oid] = (tr.lo, tr.hi)
            return (cx.Opaque("rest"), SubTN(mps, tr.lo, tr.hi))
        if name == "tensor_network_1d_compress":
            sub = args[0]
            tags = kwargs.get("site_tags")
            if not (isinstance(sub, SubTN) and isinstance(tags, TagRange) and kwargs.get("inplace") is True):
                raise Unsupported("tensor_network_1d_compress: not the in-place compression of a split-off region")
            mps = sub.mps
            lo, hi = sub.lo, sub.hi - 1
            pend = self.pending(cx).get(mps.oid)
            cx.oblige(f"call-pre@{node.lineno}:compresses-exactly-the-region-split-off", "call-pre",
                      And(tags.lo == sub.lo, tags.hi == sub.hi, lo <= hi), node.lineno)
            cx.oblige(f"call-pre@{node.lineno}:region-covers-the-lazily-applied-operator", "call-pre",
                      And(lo <= pend[0], pend[1] <= hi) if pend else True, node.lineno)
            if kwargs.get("sweep_reverse", False):
                havoc_region(cx, mps, lo, hi, isL_in=lambda k: k < hi)
            else:
                havoc_region(cx, mps, lo, hi, isR_in=lambda k: k > lo)
            self.pending(cx).pop(mps.oid, None)
            return sub
        if name == "__binop__" and args[0] == "BitOr" and isinstance(args[1], Ref) and isinstance(args[2], SubTN):
            mps, sub = args[1], args[2]
            det = self.detached(cx).get(mps.oid)
            ok = det is not None and sub.mps == mps
            cx.oblige(f"call-pre@{node.lineno}:recombines-the-region-that-was-split-off", "call-pre",
                      And(det[0] == sub.lo, det[1] == sub.hi) if ok else False, node.lineno)
            self.detached(cx).pop(mps.oid, None)
            return mps
        return super().call(cx, name, args, kwargs, node)

    # ---- shared contract text
    def sites_of(self, a):
        raise NotImplementedError

    def sweep_reverse(self, a):
        return bool(a.compress_opts.get("sweep_reverse", False)) if isinstance(a.compress_opts, dict) else False

    def call_reqs(self, cx, a):
        L = cx.fields(a.self)["L"]
        lo, hi = where_range(self.sites_of(a))
        d = {"operator-sites-on-the-chain": And(0 <= lo, hi < L)}
        d.update(record_reqs(cx, a.self, a.info))
        return d

    def modifies(self, a, case):
        return [(a.self, ["isL", "isR"])] if a.inplace else []

    def fresh_result(self, cx, a, case):
        if a.method != "lazy":
            self.fresh_record(cx, a)
        r = a.self if a.inplace else new_mps(cx, "res", L=cx.fields(a.self)["L"])
        if a.method == "lazy":
            self.pending(cx)[r.oid] = where_range(self.sites_of(a))
        return r

    def ensures(self, a, r, cx, case):
        if not isinstance(r, Ref):
            return {"returns-mps": False}
        f, p = cx.fields(r), cx.pre(a.self)
        si, sf = where_range(self.sites_of(a))
        d = {"returns-receiver-iff-inplace": (r == a.self) == bool(a.inplace), "length": f["L"] == p["L"]}
        if not a.inplace:
            d["receiver-untouched"] = untouched(cx, a.self)
        rec, rec0 = rec_of(a.info), self.rec_in(cx)
        if a.method == "lazy":
            # the operator is only attached: the record is not interpreted and not written.  Promised: the record is
            # the one handed in; only the operator's region changed; the record stays sound IF the region lies inside it
            d["record-untouched"] = same_record(cx, rec, rec0)
            d["only-the-operator-region-changes"] = forall_sites(Implies(Or(K < si, K > sf), And(
                sel(f["isL"], K) == sel(p["isL"], K), sel(f["isR"], K) == sel(p["isR"], K))))
            if is_pair(rec):
                lo, hi = Min(rec[0], rec[1]), Max(rec[0], rec[1])
                d["record-sound-if-the-region-lies-inside-it"] = Implies(And(lo <= si, sf <= hi), Sound(cx, (lo, hi), r))
            d["operator-left-pending"] = r.oid in self.pending(cx)
            return d
        d.update(self.record_post(cx, a, r))
        if is_pair(rec):
            c = sf if self.sweep_reverse(a) else si
            d["record-is-the-first-site-of-the-region-(last-if-sweep_reverse)"] = And(rec[0] == c, rec[1] == c)
        if is_pair(rec0):
            slo, shi = Min(si, Min(rec0[0], rec0[1])), Max(sf, Max(rec0[0], rec0[1]))
            d["frame-outside-span"] = forall_sites(Implies(Or(K < slo, K > shi), And(
                sel(f["isL"], K) == sel(p["isL"], K), sel(f["isR"], K) == sel(p["isR"], K))))
        d["region-recombined-and-operator-contracted"] = r.oid not in self.pending(cx) and r.oid not in self.detached(cx)
        return d


@register
class GateWithSubmpo(SubmpoBase):
    """gate_with_submpo(submpo, where, method, transpose, info, inplace, inplace_mpo, **compress_opts) [@convert_cur_orthog]
    method != 'lazy': canonicalize_ around the operator's span (si, sf), attach the operator, split the span off, compress
    it, record (si, si) -- (sf, sf) if sweep_reverse --, recombine: Sound(info', X), record as stated.
    method == 'lazy': see `ensures` (record not interpreted).   `where`, when given, is the operator's support."""

    target = f"{MPS}.gate_with_submpo"
    floor = 20

    def cases(self):
        return [NS(name=f"inplace={ip},info={ik},method={m},sweep_reverse={sr},where={wk}", inplace=ip, ik=ik, m=m, sr=sr, wk=wk)
                for ip in (True, False) for ik in info_kinds() for m, sr in METHOD_SWEEP for wk in ("pair", "triple", "None")]

    def sites_of(self, a):
        return a.submpo.sites

    def inputs(self, cx, case):
        mps = new_mps(cx)
        L = cx.fields(mps)["L"]
        info = mk_info(cx, case.ik)
        for c in record_reqs(cx, mps, info).values():
            cx.assume(c)
        sites = mk_where(cx, "triple" if case.wk == "triple" else "pair", L, base="s")
        opts = {} if case.sr == "absent" else {"sweep_reverse": case.sr}
        cx.ghost[("rec_in", self.target)] = rec_of(info)
        return dict(self=mps, submpo=SubMPO(sites), where=None if case.wk == "None" else sites, method=case.m,
                    transpose=False, info=info, inplace=case.inplace, inplace_mpo=False, compress_opts=opts)

    def call_reqs(self, cx, a):
        d = super().call_reqs(cx, a)
        if a.where is not None:
            lo, hi = where_range(a.where)
            slo, shi = where_range(a.submpo.sites)
            d["where-is-the-span-of-the-operator"] = And(lo == slo, hi == shi)
        return d


@register
class GateNonlocal(SubmpoBase):
    """gate_nonlocal(G, where, dims, method, transpose, info, inplace, **compress_opts)   [@convert_cur_orthog]
    builds the sub-MPO on `where` and hands everything (record included, inplace as given) to gate_with_submpo_: same
    post-condition."""

    target = f"{MPS}.gate_nonlocal"
    floor = 12

    def cases(self):
        return [NS(name=f"inplace={ip},info={ik},method={m},sweep_reverse={sr},dims={dk}", inplace=ip, ik=ik, m=m, sr=sr, dk=dk)
                for ip in (True, False) for ik in info_kinds() for m, sr in METHOD_SWEEP for dk in ("None", "given")]

    def sites_of(self, a):
        return tuple(a.where)

    def inputs(self, cx, case):
        mps = new_mps(cx)
        L = cx.fields(mps)["L"]
        info = mk_info(cx, case.ik)
        for c in record_reqs(cx, mps, info).values():
            cx.assume(c)
        opts = {} if case.sr == "absent" else {"sweep_reverse": case.sr}
        cx.ghost[("rec_in", self.target)] = rec_of(info)
        return dict(self=mps, G=cx.Opaque("G"), where=mk_where(cx, "pair", L), dims=None if case.dk == "None" else cx.Opaque("dims"),
                    method=case.m, transpose=False, info=info, inplace=case.inplace, compress_opts=opts)


MPSContract.methods.update({"gate_with_submpo": f"{MPS}.gate_with_submpo", "gate_nonlocal": f"{MPS}.gate_nonlocal"})


# ------------------------------------------------------------------------------------------------
# gate_TN_1D (the dispatcher behind MatrixProductState.gate) and TensorNetwork1DVector.gate
# ------------------------------------------------------------------------------------------------


class GateArray:
    """a gate matrix; ghost `unitary` (Bool): declared unitary"""

    def __init__(self, unitary):
        self.unitary = unitary


def unitary_of(cx, G):
    return G.unitary if isinstance(G, GateArray) else z3.BoolVal(False)


def leaf_generic_gate(cx, mps, G, where, kwargs, node):
    """[assumed leaf, DESIGN C08 domain note]  TensorNetworkGenVector.gate(tn, G, where, contract=True) with ONE site:
    the gate is contracted into that site's tensor; no other tensor changes; the canonical-form record is NOT interpreted
    (the `info` dict is used for other purposes there).  The site's isometry flags survive iff G is declared unitary."""
    ws = (where,) if is_int(where) else tuple(where)
    ok = kwargs.get("contract") is True and len(ws) == 1
    cx.oblige(f"call-pre@{node.lineno}:generic-gate-route-only-for-a-contracted-one-site-gate", "call-pre", ok, node.lineno)
    if not ok:
        raise PathEnd("outside the MPS domain")
    tgt = mps
    f = cx.fields(mps)
    if not kwargs.get("inplace", False):
        tgt = cx.new_obj("MPS", L=f["L"], cyclic=f["cyclic"], isL=f["isL"], isR=f["isR"])
        f = cx.fields(tgt)
    s = ws[0]
    cx.oblige(f"call-pre@{node.lineno}:gated-site-on-the-chain", "call-pre", And(0 <= s, s < f["L"]), node.lineno)
    u = unitary_of(cx, G)
    f["isL"] = z3.Store(f["isL"], s, If(u, sel(f["isL"], s), cx.Bool("hv")))
    f["isR"] = z3.Store(f["isR"], s, If(u, sel(f["isR"], s), cx.Bool("hv")))
    return tgt


MPS_CONTRACT_KINDS = ("auto-mps", "swap+split", "nonlocal", True)


@register
class GateTN1D(SubmpoBase):
    """gate_TN_1D(tn, G, where, contract, tags, propagate_tags, info, inplace, cur_orthog, **compress_opts) for the contract
    modes that keep MPS form ('auto-mps', 'swap+split', 'nonlocal', True with one site).  Routes:
      one site            -> generic gate (contract=True): record untouched; Sound(info', X) IF the gate is unitary or the
                             site lies inside the recorded range (stated precondition of DESIGN C08, not a finding)
      two sites, auto-mps / swap+split -> gate_with_auto_swap: Sound(info', X)
      'nonlocal' (>= 2 sites) or auto-mps with >= 3 sites -> gate_nonlocal: Sound(info', X), record at the region's
                             first (last) site; method='lazy': record not interpreted (see gate_with_submpo)
    Other contract modes (False, 'split-gate', ...) leave MPS form: outside the domain of the record."""

    target = f"{F}::gate_TN_1D"
    decorated = False
    floor = 30

    def cases(self):
        out = []
        for ck in MPS_CONTRACT_KINDS:
            for wk in ("int", "pair", "triple"):
                if (ck is True and wk != "int") or (ck == "swap+split" and wk == "triple"):
                    continue  # outside the domain: contract=True on several sites leaves MPS form; 'swap+split' is a
                    #           two-site mode (`i, j = where` raises for more)
                for ip in (True, False):
                    for ik in ("absent", "empty", "pair", "calc"):
                        for m in ("direct", "lazy") if (ck in ("auto-mps", "nonlocal") and wk != "int") else ("direct",):
                            out.append(NS(name=f"contract={ck},where={wk},inplace={ip},info={ik},method={m}", ck=ck, wk=wk,
                                          inplace=ip, ik=ik, m=m))
        return out

    def inputs(self, cx, case):
        mps = new_mps(cx)
        L = cx.fields(mps)["L"]
        info = mk_info2(cx, case.ik)
        for c in record_reqs(cx, mps, info).values():
            cx.assume(c)
        where = mk_where(cx, case.wk, L)
        if not is_int(where):
            cx.assume(And(*[where[x] != where[y] for x in range(len(where)) for y in range(x)]))
        cx.ghost[("rec_in", self.target)] = rec_of(info)
        opts = {"method": "lazy"} if case.m == "lazy" else {}
        return dict(tn=mps, G=GateArray(cx.Bool("unitary")), where=where, contract=case.ck, tags=None,
                    propagate_tags="sites", info=info, inplace=case.inplace, cur_orthog=None, compress_opts=opts)

    def call(self, cx, name, args, kwargs, node):
        if name == "TensorNetworkGenVector.gate":
            return leaf_generic_gate(cx, args[0], args[1], args[2], kwargs, node)
        return super().call(cx, name, args, kwargs, node)

    # ---- the route table (what the dispatcher is proved to do)
    @staticmethod
    def sites(a):
        return (a.where,) if is_int(a.where) else tuple(a.where)

    def route(self, a):
        ng = len(self.sites(a))
        c = a.contract
        if ng == 1 and (c is True or c in ("auto-mps", "swap+split", "nonlocal")):
            return "generic"
        if (c == "auto-mps" and ng == 2) or c == "swap+split":
            return "swap" if ng == 2 else "unsupported"
        if c == "nonlocal" or c == "auto-mps":
            return "nonlocal"
        return "unsupported"

    def method_of(self, a):
        return a.compress_opts.get("method", "direct") if isinstance(a.compress_opts, dict) else "direct"

    def the_mps(self, a):
        return a.tn

    def call_reqs(self, cx, a):
        mps = self.the_mps(a)
        L = cx.fields(mps)["L"]
        ws = self.sites(a)
        d = {"contract-mode-keeps-MPS-form": self.route(a) != "unsupported",
             "sites-on-the-chain": And(*[And(0 <= w, w < L) for w in ws]),
             "sites-distinct": And(*[ws[x] != ws[y] for x in range(len(ws)) for y in range(x)])}
        d.update(record_reqs(cx, mps, a.info))
        return d

    def modifies(self, a, case):
        return [(self.the_mps(a), ["isL", "isR"])] if a.inplace else []

    def fresh_result(self, cx, a, case):
        mps = self.the_mps(a)
        route = self.route(a)
        lazy = route == "nonlocal" and self.method_of(a) == "lazy"
        if route != "generic" and not lazy:
            self.fresh_record(cx, a)
        r = mps if a.inplace else new_mps(cx, "res", L=cx.fields(mps)["L"])
        if lazy:
            self.pending(cx)[r.oid] = where_range(self.sites(a))
        return r

    def ensures(self, a, r, cx, case):
        if not isinstance(r, Ref):
            return {"returns-mps": False}
        mps = self.the_mps(a)
        f, p = cx.fields(r), cx.pre(mps)
        d = {"returns-receiver-iff-inplace": (r == mps) == bool(a.inplace), "length": f["L"] == p["L"]}
        if not a.inplace:
            d["receiver-untouched"] = untouched(cx, mps)
        route = self.route(a)
        rec, rec0 = rec_of(a.info), self.rec_in(cx)
        ws = self.sites(a)
        si, sf = where_range(ws)
        b = NS(info=a.info)
        if route == "generic":
            s = ws[0]
            d["record-untouched"] = same_record(cx, rec, rec0)
            d["only-the-gated-site-changes"] = forall_sites(Implies(K != s, And(
                sel(f["isL"], K) == sel(p["isL"], K), sel(f["isR"], K) == sel(p["isR"], K))))
            if is_pair(rec):
                lo, hi = Min(rec[0], rec[1]), Max(rec[0], rec[1])
                d["record-sound-if-gate-unitary-or-site-inside-the-record"] = Implies(
                    Or(unitary_of(cx, a.G), And(lo <= s, s <= hi)), And(Sound(cx, (lo, hi), r), 0 <= lo, hi < f["L"]))
        elif route == "swap":
            if isinstance(a.info, dict):
                d.update(self.record_post(cx, b, r))
        elif route == "nonlocal":
            if self.method_of(a) == "lazy":
                d["record-untouched"] = same_record(cx, rec, rec0)
                d["only-the-operator-region-changes"] = forall_sites(Implies(Or(K < si, K > sf), And(
                    sel(f["isL"], K) == sel(p["isL"], K), sel(f["isR"], K) == sel(p["isR"], K))))
                d["operator-left-pending"] = r.oid in self.pending(cx)
            elif isinstance(a.info, dict):
                d.update(self.record_post(cx, b, r))
                if is_pair(rec):
                    c = sf if self.sweep_reverse(a) else si
                    d["record-is-the-first-site-of-the-region-(last-if-sweep_reverse)"] = And(rec[0] == c, rec[1] == c)
        else:
            d["contract-mode-keeps-MPS-form"] = False
        return d


@register
class VectorGate(GateTN1D):
    """TensorNetwork1DVector.gate(self, *args, inplace=False, **kwargs) = gate_TN_1D(self, *args, inplace=inplace, **kwargs):
    same contract with tn = self (arguments bound through the real signature of gate_TN_1D)"""

    target = f"{TN1DVEC}.gate"
    floor = 30

    def inputs(self, cx, case):
        d = super().inputs(cx, case)
        kwargs = dict(contract=d["contract"], info=d["info"])
        kwargs.update(d["compress_opts"])
        self._bound = None
        return dict(self=d["tn"], args=(d["G"], d["where"]), inplace=d["inplace"], kwargs=kwargs)

    def bound(self, a):
        from vf.pyvc import bind_args, load_function
        fn, _, _ = load_function(GateTN1D.target)
        b = bind_args(fn, [a.self] + list(a.args), dict(a.kwargs, inplace=a.inplace))
        return b

    def the_mps(self, a):
        return a.tn if "tn" in a else a.self

    def call_reqs(self, cx, a):
        return super().call_reqs(cx, self.bound(a))

    def snapshot(self, cx, a):
        cx.ghost[("rec_in", self.target)] = rec_of(a.kwargs.get("info"))

    def modifies(self, a, case):
        return [(a.self, ["isL", "isR"])] if a.inplace else []

    def fresh_result(self, cx, a, case):
        return super().fresh_result(cx, self.bound(a), case)

    def ensures(self, a, r, cx, case):
        return super().ensures(self.bound(a), r, cx, case)


MPSContract.methods.update({"gate": f"{TN1DVEC}.gate"})
