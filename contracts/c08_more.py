"""C08 (second part) -- the remaining record-threading carriers of quimb/tensor/tn1d/core.py and the canonical-form
record kept by the MPS circuit simulators (quimb/tensor/circuit/mps.py, CircuitBase._apply_gate in circuit/core.py).

Everything is built on contracts.c08_mps (ghost arrays isL / isR per MPS heap object, Sound(record, X), RecordOp /
Consumer, decorate_info, record_reqs, the MPSContract.methods dispatch table).  Post-condition style as there:
`Sound(info', X)` where X is the object the caller goes on using (the receiver for in-place spellings and for spellings
that return no state, the result otherwise), record inside the chain, receiver untouched when not in place; consumers
carry the obligation `local-region-holds-the-centre` wherever local tensors are read.

Three contracts of c08_mps are RE-REGISTERED here by subclasses that only ADD to them (more kinds, extra clauses, use as a
callee): canonicalize (info=None kinds: the record then lives in a private dict, the post-condition speaks about that
witness), singular_values (record = (i, i), exact raise condition, callee use), partial_trace_to_dense_canonical (info
absent / empty kinds, where of 3 sites, record inside where, frame, callee use).
"""

import ast

import z3

from vf.pyvc import (And, Contract, If, Implies, Loop, Max, Min, NS, Not, Opaque, Or, PathEnd, PyRaise, Ref, SymIter,
                     Unsupported, is_int, is_z3, register, REGISTRY)
from contracts.c08_mps import (F, MPS, TN1DFLAT, K, ALIASES, Canonicalize, Consumer, MPSContract, PartialTraceToDenseCanonical,
                               RecordOp, SingularValues, Site, Sound, decorate_info, forall_sites, info_kinds, mk_info,
                               new_mps, record_reqs, sel, unchanged_where)

FC = "quimb/tensor/circuit/mps.py"
FCORE = "quimb/tensor/circuit/core.py"
TN1DVEC = f"{F}::TensorNetwork1DVector"

ABSENT = "<absent>"


# ------------------------------------------------------------------------------------------------
# helpers
# ------------------------------------------------------------------------------------------------


def is_pair(rec):
    return isinstance(rec, tuple) and len(rec) == 2 and all(is_int(x) for x in rec)


def rec_of(info):
    """the record held by an info value: a pair, 'calc', None, or ABSENT (no dict / no key)"""
    if not isinstance(info, dict) or "cur_orthog" not in info:
        return ABSENT
    return info["cur_orthog"]


def same_record(cx, r0, r1):
    """two record values are the same value (kind and content)"""
    if r0 is ABSENT or r1 is ABSENT:
        # no dict / no key / key holding None all mean "no record" (@convert_cur_orthog turns {} into
        # {"cur_orthog": None} on the way in)
        return (r0 is ABSENT or r0 is None) and (r1 is ABSENT or r1 is None)
    if isinstance(r0, str) or isinstance(r1, str) or r0 is None or r1 is None:
        return (r0 is None and r1 is None) or (isinstance(r0, str) and isinstance(r1, str) and r0 == r1)
    if isinstance(r0, tuple) != isinstance(r1, tuple):
        return False
    return cx.eq_values(r0, r1)


def info_kinds2():
    """kinds of the `info` argument of the carriers that are NOT wrapped by @convert_cur_orthog"""
    return ("absent", "empty", "pair", "calc", "None")


def mk_info2(cx, kind):
    if kind == "absent":
        return None
    if kind == "empty":
        return {}
    return mk_info(cx, kind)


def where_kinds():
    return ("int", "pair", "triple")


def mk_where(cx, kind, L, base="w"):
    if kind == "int":
        w = cx.Int(base)
        cx.assume(And(0 <= w, w < L))
        return w
    n = {"single": 1, "pair": 2, "triple": 3}[kind]
    ws = tuple(cx.Int(f"{base}{k}") for k in range(n))
    for w in ws:
        cx.assume(And(0 <= w, w < L))
    return ws


def where_range(where):
    if is_int(where):
        return where, where
    lo = hi = where[0]
    for w in where[1:]:
        lo, hi = Min(lo, w), Max(hi, w)
    return lo, hi


def untouched(cx, mps):
    """the MPS object is exactly as in the pre-state (all isometry flags, length)"""
    return And(unchanged_where(cx, mps, lambda k: True), cx.fields(mps)["L"] == cx.pre(mps)["L"])


def havoc_site(cx, mps, i):
    f = cx.fields(mps)
    f["isL"] = z3.Store(f["isL"], i, cx.Bool("hv"))
    f["isR"] = z3.Store(f["isR"], i, cx.Bool("hv"))


class SiteInd:
    """the physical index label of site i of an MPS object"""

    def __init__(self, mps, i):
        self.mps, self.i = mps, i


class SiteTag:
    """the site tag of site i of an MPS object"""

    def __init__(self, mps, i):
        self.mps, self.i = mps, i


class BoundMethod:
    def __init__(self, recv, name):
        self.recv, self.name = recv, name


class SliceVal:
    def __init__(self, lo, hi):
        self.lo, self.hi = lo, hi


class LocalPair:
    """ki & ki.H : the local norm network of one site tensor"""

    def __init__(self, site):
        self.site = site


OPAQUE_FUNCS = ("do", "Tensor", "get_namespace", "functools.reduce", "qu.qarray", "qu.spin_operator", "str",
                "parse_to_gate", "tags_to_oset")
NOOP_FUNCS = ("warnings.warn",)
# methods of values that are not part of the abstract state (arrays, array / random namespaces, generators, scalars):
# they return such values again and touch no MPS
PURE_OPAQUE_METHODS = ("sum", "real", "to_numpy", "size", "choice", "default_rng", "zeros_like", "stack", "reshape",
                       "reindex", "contract", "to_dense", "conj_", "conj", "norm", "items", "values", "join", "add")


class More(Consumer):
    """shared modelling for the carriers of this module"""

    floor = 5

    def attr(self, cx, base, attr, node):
        if base is None:
            if attr in ("all", "operator", "functools", "qu", "warnings", "numbers", "MatrixProductOperator", "ops",
                        "SPECIAL_GATES", "TensorNetworkGenVector", "str", "int", "float"):
                return cx.Opaque(attr)
            return NotImplemented
        if isinstance(base, Site):
            if attr in ("H", "data", "inds"):
                return cx.Opaque(attr)
            return NotImplemented
        if isinstance(base, Opaque):
            return cx.Opaque(attr)
        if isinstance(base, Ref) and base.kind == "MPS" and attr in ("site_ind", "site_tag"):
            return BoundMethod(base, attr)
        if isinstance(base, Ref) and base.kind == "MPS" and attr == "exponent":
            return cx.Opaque("exponent")  # the stored scalar exponent: irrelevant to the isometry flags
        return MPSContract.attr(self, cx, base, attr, node)

    # -- ghost effects on single sites ---------------------------------------------------------
    def site_of_index(self, cx, key, node):
        if isinstance(key, SiteInd):
            return key
        raise Unsupported(f"index label {key!r} is not a site index (line {node.lineno})")

    def call(self, cx, name, args, kwargs, node):
        if name in OPAQUE_FUNCS:
            return cx.Opaque(name.split(".")[-1])
        if name in NOOP_FUNCS:
            return None
        if name == "int" and len(args) == 1 and isinstance(args[0], Opaque):
            return args[0]
        if name == "abs" and len(args) == 1 and isinstance(args[0], Opaque):
            return cx.Opaque("abs")
        if name == "slice" and len(args) == 2:
            return SliceVal(args[0], args[1])
        if name == "map" and len(args) == 2:
            fn, seq = args
            if isinstance(fn, BoundMethod) and isinstance(seq, (tuple, list)):
                return tuple(self.call(cx, "." + fn.name, [fn.recv, x], {}, node) for x in seq)
            return cx.Opaque("map")
        if name == "__isinstance__" and isinstance(args[0], Opaque) and args[1] in ("float", "int", "Integral", "numbers.Integral"):
            return cx.Bool("isinstance")  # kind of an opaque scalar: unknown
        if name == "__eq__" and (isinstance(args[0], Opaque) or isinstance(args[1], Opaque)):
            return cx.Bool("eq")
        if name == "__setattr__" and isinstance(args[0], Opaque):
            return None  # attribute of a value outside the abstract state (a local sub-network, an array)
        if isinstance(cx.env.get(name), tuple) and len(cx.env[name]) == 3 and cx.env[name][0] == "def":
            return cx.call_closure(cx.env[name], args, kwargs)  # a nested def: its real body is executed inline
        if name == "__getitem__" and isinstance(args[0], Opaque):
            return cx.Opaque("item")
        if name == "__setitem__" and isinstance(args[0], Opaque):
            return None
        if name == "__cmp__":
            return cx.Opaque("mask")
        if name == "__tuple__":
            return cx.Opaque("tuple")
        if name == "__len__" and isinstance(args[0], Opaque):
            n = cx.Int("len")
            cx.assume(n >= 1)  # (only used on arrays of singular values: at least one)
            return n
        if name.startswith("."):
            m, recv = name[1:], args[0]
            if isinstance(recv, Opaque):
                if m in PURE_OPAQUE_METHODS:
                    return cx.Opaque(m)
                raise Unsupported(f"method .{m} of an opaque value (line {node.lineno})")
            if isinstance(recv, str) and m == "join":
                return cx.Opaque("str")
            if isinstance(recv, Site):
                if m in ("get_namespace", "reindex", "contract"):
                    return cx.Opaque(m)
                if m in ("reindex_",):
                    return recv
                if m == "isel_" or (m == "modify" and not hasattr(kwargs.get("data"), "side")):
                    # projecting / rescaling / re-expanding the tensor of one site: its isometry flags are lost,
                    # nothing else is touched
                    havoc_site(cx, recv.mps, recv.i)
                    return None
            if isinstance(recv, Ref) and recv.kind == "MPS":
                if m == "site_ind":
                    return SiteInd(recv, args[1]) if is_int(args[1]) else cx.Opaque("site_ind")
                if m == "site_tag":
                    return SiteTag(recv, args[1])
                if m in ("phys_dim", "get_namespace", "norm"):
                    return cx.Opaque(m)
                if m.endswith("_") and "inplace" in kwargs and m[:-1] in self.methods:
                    # functools.partialmethod(f, inplace=True) called WITH an explicit inplace=: the call-time
                    # keyword wins (python semantics); c08_mps' dispatcher would force inplace=True
                    return cx.call_contract(REGISTRY[self.methods[m[:-1]]], args[1:], kwargs, node, recv=recv)
                if m in self.methods or (m.endswith("_") and m[:-1] in self.methods) or m in ALIASES:
                    # a method under contract: dispatch to it (before the opaque-value rules of Consumer.call)
                    return MPSContract.call(self, cx, name, args, kwargs, node)
        return super().call(cx, name, args, kwargs, node)

    def case_of_call(self, cx, a):
        return NS(name="call")


def oblige_all(cx, node, fname, reqs):
    for lab, c in reqs.items():
        cx.oblige(f"call-pre@{node.lineno}:{fname}:{lab}", "call-pre", c, node.lineno)


# ------------------------------------------------------------------------------------------------
# re-registered (extended) contracts of c08_mps
# ------------------------------------------------------------------------------------------------


@register
class Canonicalize2(Canonicalize):
    """canonicalize with the additional kinds info=None (record given through cur_orthog= or computed): the record is
    then written to a PRIVATE dict (parse_cur_orthog's contract); the post-condition speaks about that witness record,
    so that callers know the result is canonical around `where` even when they keep no record"""

    def cases(self):
        out = super().cases()
        for ip in (True, False):
            for wk in ("int", "pair"):
                for rk in ("noinfo-calc", "noinfo-pair", "noinfo-int", "noinfo-None"):
                    out.append(NS(name=f"inplace={ip},where={wk},record={rk}", inplace=ip, wk=wk, rk=rk))
        return out

    def inputs(self, cx, case):
        if not case.rk.startswith("noinfo-"):
            return super().inputs(cx, case)
        mps = new_mps(cx)
        where = cx.Int("w") if case.wk == "int" else (cx.Int("w0"), cx.Int("w1"))
        c0, c1 = cx.Int("c0"), cx.Int("c1")
        cur = {"noinfo-calc": "calc", "noinfo-pair": (c0, c1), "noinfo-int": c0, "noinfo-None": None}[case.rk]
        d = dict(self=mps, where=where, cur_orthog=cur, info=None, bra=None, create_bond=False, inplace=case.inplace)
        a = NS(d)
        cx.ghost["rec0"] = self.norm_record(self.record_of(a))
        for c in self.reqs(cx, a).values():
            cx.assume(c)
        return d

    def apply(self, cx, a, node, case=None):
        if a.info is None:
            # the private dict parse_cur_orthog makes (proved: kinds noinfo-*); the caller never sees it
            a.info = {"cur_orthog": (a.cur_orthog, a.cur_orthog) if is_int(a.cur_orthog) else a.cur_orthog}
        return super().apply(cx, a, node, case)

    def ensures(self, a, r, cx, case):
        if a.info is None:
            # body proof of the info=None kinds: the witness is the local dict at the return
            loc = cx.env.get("info")
            b = NS(dict(a.__dict__))
            b.info = loc if isinstance(loc, dict) else {}
            d = super().ensures(b, r, cx, case)
            return {("witness-" + k if k.startswith("record") else k): v for k, v in d.items()}
        return super().ensures(a, r, cx, case)


def decorate(a):
    """decorate_info of c08_mps (call-site model of @convert_cur_orthog = the proved contract of parse_cur_orthog), reading
    the bound arguments through __dict__: `measure` has a parameter called `get`, which shadows NS.get"""
    d = a.__dict__
    opts = d.get("compress_opts") if isinstance(d.get("compress_opts"), dict) else {}
    cur = opts.pop("cur_orthog", None)
    info = d.get("info") if isinstance(d.get("info"), dict) else {}
    if "cur_orthog" not in info:
        info["cur_orthog"] = (cur, cur) if is_int(cur) else cur
    a.info = info
    return a


class CalleeMixin:
    """use of a record-threading contract as a callee: @convert_cur_orthog modelled by decorate_info when `decorated`;
    the call-site obligations of `call_reqs`; then havoc + assume ensures (Contract.apply)"""

    decorated = True

    def call_reqs(self, cx, a):
        return record_reqs(cx, a.self, a.info)

    def pre_call(self, cx, a, node):
        pass

    def apply(self, cx, a, node, case=None):
        if self.decorated:
            a = decorate(a)
        self.pre_call(cx, a, node)
        oblige_all(cx, node, self.target.split(".")[-1], self.call_reqs(cx, a))
        self.snapshot(cx, a)
        cx.ghost[("applying", self.target)] = True
        try:
            return Contract.apply(self, cx, a, node, case)
        finally:
            cx.ghost[("applying", self.target)] = False

    def snapshot(self, cx, a):
        """remember the caller's record at entry (for `unchanged` clauses)"""
        cx.ghost[("rec_in", self.target)] = rec_of(a.__dict__.get("info"))

    def rec_in(self, cx):
        return cx.ghost.get(("rec_in", self.target), ABSENT)

    def fresh_record(self, cx, a):
        if isinstance(a.info, dict):
            a.info["cur_orthog"] = (cx.Int("rec_a"), cx.Int("rec_b"))

    def record_post_row(self, cx, a, obj):
        """record_post with Sound stated for ONE arbitrary site k0 (skolem row: a constant fixed in `inputs`, never
        constrained -- what is proved for it holds for every site) when the contract is proved against its body; the
        quantified form when it is assumed at a call site.  The ground form keeps the obligations that really fail
        decidable as `sat` (with a model) instead of `unknown`."""
        k = cx.ghost.get("k0")
        if cx.ghost.get(("applying", self.target)) or k is None:
            return self.record_post(cx, a, obj)
        rec = rec_of(a.info)
        d = {"record-is-pair": is_pair(rec)}
        if is_pair(rec):
            f = cx.fields(obj)
            lo, hi = Min(rec[0], rec[1]), Max(rec[0], rec[1])
            d["record-sound-for-the-object-the-caller-keeps"] = And(
                Implies(And(0 <= k, k < lo), sel(f["isL"], k)), Implies(And(hi < k, k < f["L"]), sel(f["isR"], k)))
            d["record-in-range"] = And(0 <= lo, hi < f["L"])
        return d


@register
class SingularValues2(CalleeMixin, More, SingularValues):
    """adds: the record afterwards is exactly (i, i); ValueError exactly when not 0 < i < L; use as a callee"""

    def ensures(self, a, r, cx, case):
        d = super().ensures(a, r, cx, case)
        rec = rec_of(a.info)
        if is_pair(rec):
            d["record-is-(i,i)"] = And(rec[0] == a.i, rec[1] == a.i)
        rec0 = self.rec_in(cx)
        if is_pair(rec0):
            f, p = cx.fields(a.self), cx.pre(a.self)
            slo, shi = Min(a.i, Min(rec0[0], rec0[1])), Max(a.i, Max(rec0[0], rec0[1]))
            d["frame-outside-span"] = forall_sites(Implies(Or(K < slo, K > shi), And(
                sel(f["isL"], K) == sel(p["isL"], K), sel(f["isR"], K) == sel(p["isR"], K))))
        return d

    def ensures_raise(self, a, exc, cx, case):
        if exc == "ValueError":
            L = cx.fields(a.self)["L"]
            return {"raise-ValueError-only-if-bond-out-of-range": Not(And(0 < a.i, a.i < L)),
                    "receiver-untouched": untouched(cx, a.self),
                    "record-untouched": same_record(cx, rec_of(a.info), self.rec_in(cx))}
        return {f"no-raise-{exc}": False}

    def inputs(self, cx, case):
        d = super().inputs(cx, case)
        cx.ghost[("rec_in", self.target)] = rec_of(d["info"])
        return d

    def pre_call(self, cx, a, node):
        L = cx.fields(a.self)["L"]
        if cx.decide(Not(And(0 < a.i, a.i < L)), node.lineno):
            raise PyRaise("ValueError", node.lineno)

    def fresh_result(self, cx, a, case):
        self.fresh_record(cx, a)
        return cx.Opaque("svals")


@register
class PartialTraceToDenseCanonical2(CalleeMixin, More, PartialTraceToDenseCanonical):
    """adds: info absent (None) / empty dict kinds, `where` of three sites, the record lies inside [min(where),
    max(where)], nothing outside the span of (old record, where) is touched; use as a callee (not decorated: a caller
    that passes no info keeps no record)"""

    decorated = False

    def cases(self):
        return [NS(name=f"info={ik},where={wk},normalized={nz}", ik=ik, wk=wk, nz=nz) for ik in info_kinds2()
                for wk in where_kinds() for nz in (True, False)]

    def inputs(self, cx, case):
        mps = new_mps(cx)
        L = cx.fields(mps)["L"]
        info = mk_info2(cx, case.ik)
        for c in record_reqs(cx, mps, info).values():
            cx.assume(c)
        where = mk_where(cx, case.wk, L)
        cx.ghost[("rec_in", self.target)] = rec_of(info)
        return dict(self=mps, where=where, normalized=case.nz, info=info, contract_opts={})

    def call_reqs(self, cx, a):
        L = cx.fields(a.self)["L"]
        lo, hi = where_range(a.where)
        d = {"where-in-range": And(0 <= lo, hi < L)}
        d.update(record_reqs(cx, a.self, a.info))
        return d

    def fresh_result(self, cx, a, case):
        self.fresh_record(cx, a)
        return cx.Opaque("rho")

    def ensures(self, a, r, cx, case):
        d = {"length": cx.fields(a.self)["L"] == cx.pre(a.self)["L"]}
        lo, hi = where_range(a.where)
        f, p = cx.fields(a.self), cx.pre(a.self)
        if isinstance(a.info, dict):
            d.update(self.record_post(cx, a, a.self))
            rec = rec_of(a.info)
            if is_pair(rec):
                d["record-inside-where"] = And(lo <= rec[0], rec[0] <= rec[1], rec[1] <= hi)
        rec0 = self.rec_in(cx)
        if is_pair(rec0):
            slo, shi = Min(lo, Min(rec0[0], rec0[1])), Max(hi, Max(rec0[0], rec0[1]))
            d["frame-outside-span"] = forall_sites(Implies(Or(K < slo, K > shi), And(
                sel(f["isL"], K) == sel(p["isL"], K), sel(f["isR"], K) == sel(p["isR"], K))))
        return d


MPSContract.methods.update({
    "canonicalize": f"{MPS}.canonicalize",
    "singular_values": f"{MPS}.singular_values",
    "partial_trace_to_dense_canonical": f"{MPS}.partial_trace_to_dense_canonical",
})


# ------------------------------------------------------------------------------------------------
# thin wrappers over singular_values: schmidt_values, entropy, schmidt_gap, bipartite_schmidt_state
# ------------------------------------------------------------------------------------------------


class SvalsWrapper(CalleeMixin, More):
    """reject cyclic chains, pass `info` on to singular_values: afterwards the caller's record is (i, i) and sound for the
    receiver; ValueError exactly when the bond i is not an inner bond (then nothing was touched)"""

    floor = 8
    bond = "i"

    def cases(self):
        return [NS(name=f"info={ik}", ik=ik) for ik in (info_kinds() if self.decorated else info_kinds2())]

    def inputs(self, cx, case):
        mps = new_mps(cx)
        info = mk_info(cx, case.ik) if self.decorated else mk_info2(cx, case.ik)
        for c in record_reqs(cx, mps, info).values():
            cx.assume(c)
        cx.ghost[("rec_in", self.target)] = rec_of(info)
        d = dict(self=mps, info=info)
        d[self.bond] = cx.Int("i")
        d.update(self.extra_inputs(cx, case))
        return d

    def extra_inputs(self, cx, case):
        return dict(method="svd")

    def pre_call(self, cx, a, node):
        L = cx.fields(a.self)["L"]
        i = a[self.bond]
        if cx.decide(Not(And(0 < i, i < L)), node.lineno):
            raise PyRaise("ValueError", node.lineno)

    def fresh_result(self, cx, a, case):
        self.fresh_record(cx, a)
        return cx.Opaque("value")

    def ensures(self, a, r, cx, case):
        d = {"length": cx.fields(a.self)["L"] == cx.pre(a.self)["L"]}
        i = a[self.bond]
        if isinstance(a.info, dict):
            d.update(self.record_post(cx, a, a.self))
            rec = rec_of(a.info)
            if is_pair(rec):
                d["record-is-(i,i)"] = And(rec[0] == i, rec[1] == i)
        # only what canonicalize_(i) may touch is touched
        rec0 = self.rec_in(cx)
        if is_pair(rec0):
            f, p = cx.fields(a.self), cx.pre(a.self)
            slo, shi = Min(i, Min(rec0[0], rec0[1])), Max(i, Max(rec0[0], rec0[1]))
            d["frame-outside-span"] = forall_sites(Implies(Or(K < slo, K > shi), And(
                sel(f["isL"], K) == sel(p["isL"], K), sel(f["isR"], K) == sel(p["isR"], K))))
        return d

    def ensures_raise(self, a, exc, cx, case):
        if exc == "ValueError":
            L = cx.fields(a.self)["L"]
            return {"raise-ValueError-only-if-bond-out-of-range": Not(And(0 < a[self.bond], a[self.bond] < L)),
                    "receiver-untouched": untouched(cx, a.self),
                    "record-untouched": same_record(cx, rec_of(a.info), self.rec_in(cx))}
        return {f"no-raise-{exc}": False}  # (NotImplementedError: cyclic chains only -- outside the domain)


@register
class SchmidtValues(SvalsWrapper):
    target = f"{MPS}.schmidt_values"


@register
class Entropy(SvalsWrapper):
    target = f"{MPS}.entropy"


@register
class SchmidtGap(SvalsWrapper):
    target = f"{MPS}.schmidt_gap"


@register
class BipartiteSchmidtState(SvalsWrapper):
    """not decorated: `info` may be absent; get in {ket, rho, ket-dense, rho-dense}"""

    target = f"{MPS}.bipartite_schmidt_state"
    decorated = False
    bond = "sz_a"

    def cases(self):
        return [NS(name=f"info={ik},get={g}", ik=ik, get=g) for ik in info_kinds2()
                for g in ("ket", "rho", "ket-dense", "rho-dense")]

    def extra_inputs(self, cx, case):
        return dict(get=case.get)

    def call(self, cx, name, args, kwargs, node):
        if name == ".site_ind" and isinstance(args[1], str):
            return cx.Opaque("site_ind")
        return super().call(cx, name, args, kwargs, node)


MPSContract.methods.update({
    "schmidt_values": f"{MPS}.schmidt_values", "entropy": f"{MPS}.entropy", "schmidt_gap": f"{MPS}.schmidt_gap",
    "bipartite_schmidt_state": f"{MPS}.bipartite_schmidt_state",
})


# ------------------------------------------------------------------------------------------------
# local_expectation_canonical, compute_local_expectation_canonical
# ------------------------------------------------------------------------------------------------


@register
class LocalExpectationCanonical(CalleeMixin, More):
    """moves the centre of the RECEIVER into `where` (in place) and records it in the caller's dict: Sound(info', self),
    record inside [min(where), max(where)], nothing outside span(old record, where) touched"""

    target = f"{MPS}.local_expectation_canonical"
    decorated = False
    floor = 8

    def cases(self):
        return [NS(name=f"info={ik},where={wk}", ik=ik, wk=wk) for ik in info_kinds2() for wk in where_kinds()]

    def inputs(self, cx, case):
        mps = new_mps(cx)
        L = cx.fields(mps)["L"]
        info = mk_info2(cx, case.ik)
        for c in record_reqs(cx, mps, info).values():
            cx.assume(c)
        cx.ghost[("rec_in", self.target)] = rec_of(info)
        return dict(self=mps, G=cx.Opaque("G"), where=mk_where(cx, case.wk, L), normalized=True, info=info,
                    contract_opts={})

    def call_reqs(self, cx, a):
        L = cx.fields(a.self)["L"]
        lo, hi = where_range(a.where)
        d = {"where-in-range": And(0 <= lo, hi < L)}
        d.update(record_reqs(cx, a.self, a.info))
        return d

    def fresh_result(self, cx, a, case):
        self.fresh_record(cx, a)
        return cx.Opaque("expec")

    def ensures(self, a, r, cx, case):
        d = {"length": cx.fields(a.self)["L"] == cx.pre(a.self)["L"]}
        lo, hi = where_range(a.where)
        f, p = cx.fields(a.self), cx.pre(a.self)
        if isinstance(a.info, dict):
            d.update(self.record_post(cx, a, a.self))
            rec = rec_of(a.info)
            if is_pair(rec):
                d["record-inside-where"] = And(lo <= rec[0], rec[0] <= rec[1], rec[1] <= hi)
        rec0 = self.rec_in(cx)
        if is_pair(rec0):
            slo, shi = Min(lo, Min(rec0[0], rec0[1])), Max(hi, Max(rec0[0], rec0[1]))
            d["frame-outside-span"] = forall_sites(Implies(Or(K < slo, K > shi), And(
                sel(f["isL"], K) == sel(p["isL"], K), sel(f["isR"], K) == sel(p["isR"], K))))
        return d


MPSContract.methods.update({"local_expectation_canonical": f"{MPS}.local_expectation_canonical"})


class Terms:
    """the `terms` argument {where: G} (and its .items() / sorted item list): a collection of symbolic size n whose keys
    are all of one kind (int | pair | triple of sites, by case) and lie on the chain"""

    def __init__(self, n, wk, L):
        self.n, self.wk, self.L = n, wk, L

    def item(self, cx):
        """an arbitrary item (where, G)"""
        return (mk_where(cx, self.wk, self.L, base="tw"), cx.Opaque("G"))


class OpaqueMap:
    pass


@register
class ComputeLocalExpectationCanonical(CalleeMixin, More):
    """many local expectations through one threaded record.  inplace=False: the canonicalisations happen on a copy and on
    a COPY of `info` -- the caller's record and the receiver are unchanged.  inplace=True: the caller's record ends as a
    sound pair for the receiver (if there was at least one term).  The dict comprehension over the (sorted) terms is cut
    with an invariant exactly like a loop (rule implemented in on_dictcomp below; the body is the real expression)."""

    target = f"{MPS}.compute_local_expectation_canonical"
    decorated = False
    floor = 12

    def cases(self):
        return [NS(name=f"inplace={ip},info={ik},where={wk}", inplace=ip, ik=ik, wk=wk) for ip in (True, False)
                for ik in info_kinds2() for wk in where_kinds()]

    def inputs(self, cx, case):
        mps = new_mps(cx)
        L = cx.fields(mps)["L"]
        info = mk_info2(cx, case.ik)
        for c in record_reqs(cx, mps, info).values():
            cx.assume(c)
        cx.ghost[("rec_in", self.target)] = rec_of(info)
        n = cx.Int("nterms")
        cx.assume(n >= 0)
        cx.ghost["terms_n"] = n
        return dict(self=mps, terms=Terms(n, case.wk, L), normalized=True, return_all=cx.Bool("return_all"), info=info,
                    inplace=case.inplace, contract_opts={})

    def call(self, cx, name, args, kwargs, node):
        if name == "__isinstance__" and args[1] == "tuple":
            return isinstance(args[0], tuple)
        if name == "min" and len(args) == 1 and is_int(args[0]):
            raise PyRaise("TypeError", node.lineno)  # min(<int>): 'int' object is not iterable
        if name == ".items" and isinstance(args[0], Terms):
            return args[0]
        if name == "sorted" and isinstance(args[0], Terms):
            ts = args[0]
            key = kwargs.get("key")
            if key is not None and cx.decide(ts.n > 0, node.lineno):
                # the key function is evaluated on every item: it must be defined there
                if key[0] == "def":
                    cx.call_closure(key, [ts.item(cx)])
                else:
                    cx.apply_lambda(key, [ts.item(cx)])
            return Terms(ts.n, ts.wk, ts.L)
        if name == ".values" and isinstance(args[0], OpaqueMap):
            return cx.Opaque("values")
        return super().call(cx, name, args, kwargs, node)

    # ---- the comprehension `{where: mps.local_expectation_canonical(G, where, info=info, ...) for where, G in terms}`
    def comp_inv(self, cx, it):
        o = cx.old
        v = cx.env
        mps, info = v["mps"], v["info"]
        L = cx.fields(mps)["L"]
        d = {"same-object": (mps == o.self) == bool(o.inplace), "length": L == cx.pre(o.self)["L"]}
        rec = rec_of(info)
        if is_pair(rec):
            lo, hi = Min(rec[0], rec[1]), Max(rec[0], rec[1])
            d["record-sound-for-the-object-being-moved"] = And(Sound(cx, (lo, hi), mps), 0 <= lo, hi < L)
        else:
            d["record-kind-changes-with-the-first-term"] = it == 0
        if not o.inplace:
            d["receiver-untouched"] = untouched(cx, o.self)
            d["caller-record-unchanged"] = same_record(cx, rec_of(o.info), self.rec_in(cx))
        return d

    def on_dictcomp(self, cx, n):
        if len(n.generators) != 1 or n.generators[0].ifs:
            return NotImplemented
        g = n.generators[0]
        terms = cx.ev(g.iter)
        if not isinstance(terms, Terms):
            return NotImplemented
        line = n.lineno
        saved = dict(cx.env)
        for lab, c in self.comp_inv(cx, 0).items():
            cx.oblige(f"inv-init@comp:{lab}", "inv-init", c, line)
        # arbitrary iteration t.  The record changes KIND with the first term (calc / None / absent -> pair): the
        # state before iteration t is the initial one if t = 0, else arbitrary with a pair record (complete split)
        t = cx.Int("_itc")
        cx.assume(And(t >= 0, t <= terms.n))
        info = cx.env["info"]
        if is_pair(rec_of(info)) or not cx.decide(t == 0, line):
            cx.havoc_heap()
            info["cur_orthog"] = (cx.Int("rec_a"), cx.Int("rec_b"))
        for c in self.comp_inv(cx, t).values():
            cx.assume(c)
        if cx.decide(t < terms.n, line):
            cx.assign(g.target, terms.item(cx))
            cx.ev(n.key)
            cx.ev(n.value)
            for lab, c in self.comp_inv(cx, t + 1).items():
                cx.oblige(f"inv-step@comp:{lab}", "inv-step", c, line)
            raise PathEnd("comprehension body end")
        cx.env = saved
        return OpaqueMap()

    def call_reqs(self, cx, a):
        return record_reqs(cx, a.self, a.info)

    def modifies(self, a, case):
        return [(a.self, ["isL", "isR"])] if a.inplace else []

    def fresh_result(self, cx, a, case):
        raise Unsupported("compute_local_expectation_canonical as a callee")

    def ensures_raise(self, a, exc, cx, case):
        if exc == "TypeError":
            # the docstring documents dict[int or tuple[int], array]: an int key must not raise (known finding C08-f)
            return {"documented-int-site-key-is-accepted": False}
        return {f"no-raise-{exc}": False}

    def ensures(self, a, r, cx, case):
        d = {"length": cx.fields(a.self)["L"] == cx.pre(a.self)["L"]}
        rec = rec_of(a.info)
        if not a.inplace:
            d["receiver-untouched"] = untouched(cx, a.self)
            d["caller-record-unchanged"] = same_record(cx, rec, self.rec_in(cx))
            if is_pair(rec):
                d.update(self.record_post(cx, a, a.self))
        elif isinstance(a.info, dict):
            if is_pair(rec):
                d.update(self.record_post(cx, a, a.self))
            else:
                d["record-is-pair-unless-there-were-no-terms"] = cx.ghost["terms_n"] == 0
        return d


MPSContract.methods.update({"compute_local_expectation_canonical": f"{MPS}.compute_local_expectation_canonical"})


# ------------------------------------------------------------------------------------------------
# measure
# ------------------------------------------------------------------------------------------------


def merge_sites(cx, mps, lo, node):
    """contract the tensors of sites lo, lo+1 into one tensor that carries BOTH site tags: generally not an isometry in
    either direction; both tags now name the same tensor (ghost `gap` = lo, `gap_shared`: tag lo may be given up /
    overwritten by moving tag lo+1 down without losing a tensor)"""
    f = cx.fields(mps)
    cx.oblige(f"call-pre@{node.lineno}:contract-adjacent-sites-on-the-chain", "call-pre", And(0 <= lo, lo + 1 < f["L"]),
              node.lineno)
    hl, hr = cx.Bool("hv"), cx.Bool("hv")
    f["isL"] = z3.Store(z3.Store(f["isL"], lo, hl), lo + 1, hl)
    f["isR"] = z3.Store(z3.Store(f["isR"], lo, hr), lo + 1, hr)
    f["gap"], f["gap_shared"] = lo + 0 * f["L"], z3.BoolVal(True)
    cx.ghost["merge"] = dict(at=lo, isL=f["isL"], isR=f["isR"], mps=mps)


@register
class Measure(CalleeMixin, More):
    """measure(site, remove, outcome, renorm, info, get, seed, backend_random, inplace)   [@convert_cur_orthog]

    get == "outcome": only the outcome is returned -> X = self.  inplace=False: the canonicalisation happens on a copy and
    on a COPY of the record: caller's record and receiver unchanged.  inplace=True: record (site, site), sound for self.
    otherwise (outcome, tn) is returned -> X = tn: record = (min(site, L'-1),)*2 as the docstring promises, inside the new
    chain, Sound(record, tn); remove=True: L' = L - 1, the site tensor is contracted into a neighbour and the higher
    sites are renumbered one down (ghost arrays shift).  The local tensor is read (outcome probabilities) with the
    centre at `site`: obligation local-region-holds-the-centre.
    Domain: 0 <= site < L; remove=True needs L >= 2; open chain."""

    target = f"{MPS}.measure"
    floor = 30
    ghost_fields = ("isL", "isR", "gap", "gap_shared")

    def cases(self):
        out = []
        for ip in (True, False):
            for rm in (True, False):
                for get in (None, "outcome"):
                    for ik in info_kinds():
                        # (outcome kind, random backend) do not interact with the record: all three spellings for
                        # the pair record, the default spelling for the other record kinds
                        for ok, br in ((("None", "numpy"), ("int", None), ("int", "other")) if ik == "pair"
                                       else (("None", "numpy"),)):
                            out.append(NS(name=f"inplace={ip},remove={rm},get={get},info={ik},outcome={ok},backend_random={br}",
                                          inplace=ip, remove=rm, get=get, ik=ik, ok=ok, br=br))
        return out

    def inputs(self, cx, case):
        mps = new_mps(cx)
        L = cx.fields(mps)["L"]
        info = mk_info(cx, case.ik)
        for c in record_reqs(cx, mps, info).values():
            cx.assume(c)
        site = cx.Int("site")
        cx.assume(And(0 <= site, site < L))
        if case.remove:
            cx.assume(L >= 2)
        cx.ghost[("rec_in", self.target)] = rec_of(info)
        cx.ghost["k0"] = cx.Int("k0")  # the arbitrary site of the skolem-row argument (never constrained)
        return dict(self=mps, site=site, remove=case.remove, outcome=None if case.ok == "None" else cx.Int("outcome"),
                    renorm=cx.Bool("renorm"), info=info, get=case.get, seed=None, backend_random=case.br,
                    inplace=case.inplace)

    def call(self, cx, name, args, kwargs, node):
        if name == ".contract" and isinstance(args[0], Site):
            # diagonal of the local reduced density matrix from the site tensor alone
            self.local_region(cx, args[0].mps, args[0].i, args[0].i, node)
            return cx.Opaque("tii")
        if name == "__binop__" and args[0] == "BitXor" and isinstance(args[1], Ref) and isinstance(args[2], SliceVal):
            mps, sl = args[1], args[2]
            cx.oblige(f"call-pre@{node.lineno}:contracts-exactly-two-sites", "call-pre", sl.hi == sl.lo + 2, node.lineno)
            merge_sites(cx, mps, sl.lo, node)
            return mps
        if name == ".retag_" and isinstance(args[0], Site) and isinstance(args[1], dict) and len(args[1]) == 1:
            ((src, dst),) = args[1].items()
            site = args[0]
            if not (isinstance(src, SiteTag) and isinstance(dst, SiteTag) and src.mps == site.mps and dst.mps == site.mps):
                raise Unsupported("retag_ with tags that are not site tags of the same chain")
            f = cx.fields(site.mps)
            ok = And(src.i == site.i, dst.i == src.i - 1, f["gap"] == dst.i) if "gap" in f else False
            cx.oblige(f"call-pre@{node.lineno}:retag-moves-a-site-one-down-into-the-vacated-tag", "call-pre", ok, node.lineno)
            f["isL"] = z3.Store(f["isL"], dst.i, sel(f["isL"], src.i))
            f["isR"] = z3.Store(f["isR"], dst.i, sel(f["isR"], src.i))
            f["gap"], f["gap_shared"] = src.i, z3.BoolVal(False)
            return None
        if name == "__setattr__" and isinstance(args[0], Ref) and args[0].kind == "MPS":
            mps, attr, val = args
            if attr != "_L":
                raise Unsupported(f"store to attribute {attr} of an MPS")
            f = cx.fields(mps)
            L = f["L"]
            ok = And(val == L - 1, Or(And(f["gap_shared"], f["gap"] == L - 2), And(Not(f["gap_shared"]), f["gap"] == L - 1))) \
                if "gap" in f else False
            cx.oblige(f"call-pre@{node.lineno}:length-reduced-only-after-the-sites-were-renumbered", "call-pre", ok, node.lineno)
            f["L"] = val
            return None
        return super().call(cx, name, args, kwargs, node)

    def inv(self, v):
        cx, o = v.cx, v.old
        m = cx.ghost.get("merge")
        if m is None or m["mps"] != v.tn:
            return {"sites-contracted-before-renumbering": False}
        f = cx.fields(v.tn)
        L0 = cx.pre(o.self)["L"]
        at, i, k = m["at"], v.i, cx.ghost["k0"]
        d = {"same-object": (v.tn == o.self) == bool(o.inplace), "length-not-yet-changed": f["L"] == L0,
             "i-range": And(o.site + 1 <= i, Or(i <= L0, i == o.site + 1)),
             "gap": If(i == o.site + 1, And(f["gap_shared"], f["gap"] == at), And(Not(f["gap_shared"]), f["gap"] == i - 1)),
             # skolem row: the flags of ONE arbitrary site k (fixed before the call, unconstrained) are tracked; what is
             # proved for it holds for every site.  (Quantified forms with the shifted index k + 1 leave the array
             # property fragment: the solver then no longer answers `sat` on the obligations that really fail.)
             "below-untouched": Implies(k < o.site, And(sel(f["isL"], k) == sel(m["isL"], k),
                                                        sel(f["isR"], k) == sel(m["isR"], k))),
             "moved-down": Implies(And(o.site <= k, k < i - 1), And(sel(f["isL"], k) == sel(m["isL"], k + 1),
                                                                   sel(f["isR"], k) == sel(m["isR"], k + 1))),
             "above-not-yet-moved": And(*[Implies(q >= i, And(sel(f["isL"], q) == sel(m["isL"], q),
                                                              sel(f["isR"], q) == sel(m["isR"], q)))
                                          for q in (k, k + 1)])}  # (row k + 1 is the one that moves into row k)
        # (the record dict is not mentioned in the loop body, hence not havoc'd: nothing to restate about it)
        if not o.inplace:
            d["receiver-untouched"] = untouched(cx, o.self)
        return d

    @property
    def loops(self):
        return {0: Loop("for i in range(site + 1, L)", self.inv)}

    # ---- callee use
    def call_reqs(self, cx, a):
        L = cx.fields(a.self)["L"]
        d = {"site-in-range": And(0 <= a.site, a.site < L)}
        if a.remove:
            d["two-sites-at-least"] = L >= 2
        d.update(record_reqs(cx, a.self, a.info))
        return d

    def modifies(self, a, case):
        return [(a.self, ["isL", "isR"])] if a.inplace else []

    def fresh_result(self, cx, a, case):
        out = cx.Opaque("outcome") if a.outcome is None else a.outcome
        if a.get == "outcome":
            if a.inplace:
                self.fresh_record(cx, a)
            return out
        self.fresh_record(cx, a)
        L = cx.fields(a.self)["L"]
        if a.inplace:
            if a.remove:
                cx.fields(a.self)["L"] = L - 1
            return (out, a.self)
        return (out, new_mps(cx, "res", L=L - 1 if a.remove else L))

    def ensures(self, a, r, cx, case):
        L0 = cx.pre(a.self)["L"]
        rec = rec_of(a.info)
        d = {}
        if not a.inplace:
            d["receiver-untouched"] = untouched(cx, a.self)
        if a.get == "outcome":
            d["returns-the-outcome-only"] = not isinstance(r, tuple)
            if a.inplace:
                d["length"] = cx.fields(a.self)["L"] == L0
                d.update(self.record_post(cx, a, a.self))
                if is_pair(rec):
                    d["record-is-(site,site)"] = And(rec[0] == a.site, rec[1] == a.site)
            else:
                # nothing the caller keeps was moved: its record must be the one it handed in
                d["caller-record-unchanged"] = same_record(cx, rec, self.rec_in(cx))
                if is_pair(rec):
                    d.update(self.record_post(cx, a, a.self))
            return d
        ok = isinstance(r, tuple) and len(r) == 2 and isinstance(r[1], Ref)
        d["returns-(outcome,state)"] = ok
        if not ok:
            return d
        tn = r[1]
        Ln = cx.fields(tn)["L"]
        d["returns-receiver-iff-inplace"] = (tn == a.self) == bool(a.inplace)
        d["length"] = Ln == (L0 - 1 if a.remove else L0)
        d.update(self.record_post_row(cx, a, tn))
        if is_pair(rec):
            c = Min(a.site, Ln - 1)
            d["record-is-min(site,new_L-1)-as-documented"] = And(rec[0] == c, rec[1] == c)
        return d


MPSContract.methods.update({"measure": f"{MPS}.measure"})


# ------------------------------------------------------------------------------------------------
# sample_configuration, sample: the record of `self` is only READ
# ------------------------------------------------------------------------------------------------


class Sampler(CalleeMixin, More):
    """no state is returned: X = self.  The configuration is drawn from a right-canonical COPY (canonicalize(0), not in
    place) and a COPY of the record is moved: the caller's record and the receiver are exactly as before."""

    decorated = False
    ghost_fields = ("isL", "isR", "absorbed")

    def common_inputs(self, cx, case):
        mps = new_mps(cx)
        L = cx.fields(mps)["L"]
        cx.assume(L >= 1)
        info = mk_info2(cx, case.ik)
        for c in record_reqs(cx, mps, info).values():
            cx.assume(c)
        cx.ghost[("rec_in", self.target)] = rec_of(info)
        return mps, info

    def call_reqs(self, cx, a):
        d = {"chain-not-empty": cx.fields(a.self)["L"] >= 1}
        d.update(record_reqs(cx, a.self, a.info))
        return d

    def modifies(self, a, case):
        return []

    def ensures(self, a, r, cx, case):
        rec = rec_of(a.info)
        d = {"receiver-untouched": untouched(cx, a.self),
             "caller-record-unchanged": same_record(cx, rec, self.rec_in(cx))}
        if is_pair(rec):
            d.update(self.record_post(cx, a, a.self))
        return d


@register
class SampleConfiguration(Sampler):
    """loop over the sites of the copy: site i is read (local probabilities) when everything to its left has been
    projected and absorbed into it (ghost `absorbed` = i) and everything to its right is a right isometry"""

    target = f"{MPS}.sample_configuration"
    floor = 20

    def cases(self):
        return [NS(name=f"info={ik},backend_random={br}", ik=ik, br=br) for ik in info_kinds2()
                for br in ("numpy", None, "other")]

    def inputs(self, cx, case):
        mps, info = self.common_inputs(cx, case)
        return dict(self=mps, seed=None, backend_random=case.br, info=info)

    def absorbed(self, cx, mps):
        return cx.fields(mps).setdefault("absorbed", z3.IntVal(0))

    def call(self, cx, name, args, kwargs, node):
        if name == "__binop__" and args[0] == "BitAnd" and isinstance(args[1], Site):
            # ki & ki.H : the local norm network of site i is formed -- the local tensors are read here
            s = args[1]
            f = cx.fields(s.mps)
            cx.oblige(f"local-region-holds-the-centre@{node.lineno}", "post",
                      And(self.absorbed(cx, s.mps) == s.i, 0 <= s.i, s.i < f["L"],
                          forall_sites(Implies(And(s.i < K, K < f["L"]), sel(f["isR"], K)))), node.lineno)
            return cx.Opaque("local_norm_tn")
        if name == ".isel_" and isinstance(args[0], Ref) and args[0].kind == "MPS" and isinstance(args[1], dict) \
                and len(args[1]) == 1:
            (ix,) = args[1].keys()
            ix = self.site_of_index(cx, ix, node)
            if ix.mps != args[0]:
                raise Unsupported("isel_ with the index of another network")
            havoc_site(cx, ix.mps, ix.i)  # projecting the physical index: only this site's tensor changes
            return None
        if name == ".contract_tags_" and isinstance(args[0], Ref) and args[0].kind == "MPS":
            mps, tags = args[0], args[1]
            if not (isinstance(tags, (list, tuple)) and len(tags) == 2 and all(isinstance(t, SiteTag) and t.mps == mps for t in tags)):
                raise Unsupported("contract_tags_ on something else than two site tags")
            i, j = tags[0].i, tags[1].i
            f = cx.fields(mps)
            cx.oblige(f"call-pre@{node.lineno}:absorbs-the-projected-block-into-the-next-site", "call-pre",
                      And(j == i + 1, 0 <= i, j < f["L"], self.absorbed(cx, mps) == i), node.lineno)
            havoc_site(cx, mps, i)
            havoc_site(cx, mps, j)
            f["absorbed"] = j
            return None
        return super().call(cx, name, args, kwargs, node)

    def inv(self, v):
        cx, o = v.cx, v.old
        f = cx.fields(v.psi)
        L = f["L"]
        i = v.i
        return {"works-on-a-copy": v.psi != o.self, "length": L == cx.pre(o.self)["L"],
                "i-range": And(0 <= i, i <= L),
                "left-block-absorbed": self.absorbed(cx, v.psi) == If(i < L, i, L - 1),
                "right-part-right-isometric": forall_sites(Implies(And(i < K, K < L), sel(f["isR"], K))),
                "receiver-untouched": untouched(cx, o.self),
                "caller-record-unchanged": same_record(cx, rec_of(o.info), self.rec_in(cx))}

    @property
    def loops(self):
        return {0: Loop("for i in range(psi.L)", self.inv)}

    def fresh_result(self, cx, a, case):
        return (cx.Opaque("config"), cx.Opaque("omega"))

    def ensures(self, a, r, cx, case):
        d = super().ensures(a, r, cx, case)
        d["returns-(config,omega)"] = isinstance(r, tuple) and len(r) == 2
        return d


@register
class Sample(Sampler):
    """generator: canonicalize(0) once on a copy with a COPY of the record, then C calls of sample_configuration on that
    copy threading the copied record"""

    target = f"{MPS}.sample"
    floor = 15

    def cases(self):
        return [NS(name=f"info={ik},backend_random={br}", ik=ik, br=br) for ik in info_kinds2()
                for br in ("numpy", None, "other")]

    def inputs(self, cx, case):
        mps, info = self.common_inputs(cx, case)
        C = cx.Int("C")
        return dict(self=mps, C=C, seed=None, backend_random=case.br, info=info)

    def inv(self, v):
        cx, o = v.cx, v.old
        f = cx.fields(v.psi0)
        rec = rec_of(v.info)
        d = {"works-on-a-copy": v.psi0 != o.self, "length": f["L"] == cx.pre(o.self)["L"],
             "receiver-untouched": untouched(cx, o.self),
             "caller-record-unchanged": same_record(cx, rec_of(o.info), self.rec_in(cx)),
             "threaded-record-is-a-private-copy": v.info is not o.info}
        if is_pair(rec):
            lo, hi = Min(rec[0], rec[1]), Max(rec[0], rec[1])
            d["threaded-record-sound-for-the-copy"] = And(Sound(cx, (lo, hi), v.psi0), 0 <= lo, hi < f["L"])
        else:
            d["threaded-record-is-a-pair"] = False
        return d

    @property
    def loops(self):
        return {0: Loop("for _ in range(C)", self.inv)}

    def fresh_result(self, cx, a, case):
        n = If(a.C >= 0, a.C, 0)
        return SymIter(n, lambda t: (cx.Opaque("config"), cx.Opaque("omega")))


MPSContract.methods.update({"sample_configuration": f"{MPS}.sample_configuration", "sample": f"{MPS}.sample"})


# ------------------------------------------------------------------------------------------------
# gate_split (record NOT interpreted), gate_with_auto_swap
# ------------------------------------------------------------------------------------------------

ABSORB_KINDS = ("absent", "left", "right", "both", None)


def absorb_of(opts):
    """the absorb option the split sees (tensor_split's default is 'both')"""
    return opts.get("absorb", "both") if isinstance(opts, dict) else "both"


def leaf_gate_split(cx, mps, s0, s1, absorb, node):
    """[assumed leaf, DESIGN 1.5 / C05]  gate_inds(G, (ind of s0, ind of s1), contract='split', absorb=...) on adjacent
    sites: the two site tensors are contracted with the gate and split again, the factor holding the indices of s0 going
    to s0.  absorb='right': the factor at s0 is an isometry towards s1; absorb='left': the factor at s1 is an isometry
    towards s0; 'both' / None: neither.  No other tensor is touched."""
    f = cx.fields(mps)
    cx.oblige(f"call-pre@{node.lineno}:gate-split-on-adjacent-sites-of-the-chain", "call-pre",
              And(Or(s1 == s0 + 1, s1 == s0 - 1), 0 <= s0, s0 < f["L"], 0 <= s1, s1 < f["L"]), node.lineno)
    if absorb not in ("left", "right", "both", None):
        raise Unsupported(f"split with absorb={absorb!r}")
    hv = [cx.Bool("hv") for _ in range(4)]
    l0, r0, l1, r1 = hv
    if absorb == "right":
        l0, r0 = If(s1 == s0 + 1, True, hv[0]), If(s1 == s0 + 1, hv[1], True)
    elif absorb == "left":
        l1, r1 = If(s0 == s1 + 1, True, hv[2]), If(s0 == s1 + 1, hv[3], True)
    f["isL"] = z3.Store(z3.Store(f["isL"], s0, l0), s1, l1)
    f["isR"] = z3.Store(z3.Store(f["isR"], s0, r0), s1, r1)


@register
class GateSplit(CalleeMixin, More):
    """gate_split(G, where=(a, b), inplace, **compress_opts): NO record parameter -- the canonical-form record is not
    interpreted here; the caller has to update its own record.
    Promised: the receiver is returned iff inplace, else a copy and the receiver is untouched; only the tensors of a and
    b change; by `absorb` (forwarded to the split): 'right' -> the tensor of a is an isometry towards b, 'left' -> the
    tensor of b is an isometry towards a, 'both'/None/absent -> no isometry claim;  derived record rule: IF the centre was
    inside {a, b} before (Sound((min,max), self)) THEN Sound((b,b)) ['right'] / Sound((a,a)) ['left'] / Sound((min,max))
    [otherwise] holds for the result.
    Not promised: anything about a record the caller keeps when the centre was elsewhere (stated domain: adjacent sites)."""

    target = f"{MPS}.gate_split"
    decorated = False
    floor = 8

    def cases(self):
        return [NS(name=f"inplace={ip},absorb={ab}", inplace=ip, ab=ab) for ip in (True, False) for ab in ABSORB_KINDS]

    def inputs(self, cx, case):
        mps = new_mps(cx)
        L = cx.fields(mps)["L"]
        a, b = cx.Int("a"), cx.Int("b")
        cx.assume(And(0 <= a, a < L, 0 <= b, b < L, Or(b == a + 1, b == a - 1)))
        opts = {} if case.ab == "absent" else {"absorb": case.ab}
        return dict(self=mps, G=cx.Opaque("G"), where=(a, b), inplace=case.inplace, compress_opts=opts)

    def call(self, cx, name, args, kwargs, node):
        if name == ".gate_inds" and isinstance(args[0], Ref) and args[0].kind == "MPS":
            mps, inds = args[0], args[2]
            if kwargs.get("contract") != "split" or not (isinstance(inds, tuple) and len(inds) == 2
                                                          and all(isinstance(x, SiteInd) and x.mps == mps for x in inds)):
                raise Unsupported("gate_inds: not the two-site split form")
            tgt = mps
            if not kwargs.get("inplace", False):
                f = cx.fields(mps)
                tgt = cx.new_obj("MPS", L=f["L"], cyclic=f["cyclic"], isL=f["isL"], isR=f["isR"])
            leaf_gate_split(cx, tgt, inds[0].i, inds[1].i, kwargs.get("absorb", "both"), node)
            return tgt
        return super().call(cx, name, args, kwargs, node)

    def call_reqs(self, cx, a):
        L = cx.fields(a.self)["L"]
        w = a.where
        if not (isinstance(w, tuple) and len(w) == 2):
            raise Unsupported("gate_split: where is not a pair of sites")
        return {"adjacent-sites-of-the-chain": And(0 <= w[0], w[0] < L, 0 <= w[1], w[1] < L,
                                                   Or(w[1] == w[0] + 1, w[1] == w[0] - 1))}

    def modifies(self, a, case):
        return [(a.self, ["isL", "isR"])] if a.inplace else []

    def fresh_result(self, cx, a, case):
        return a.self if a.inplace else new_mps(cx, "res", L=cx.fields(a.self)["L"])

    def ensures(self, a, r, cx, case):
        if not isinstance(r, Ref):
            return {"returns-mps": False}
        f, p = cx.fields(r), cx.pre(a.self)
        s0, s1 = a.where
        absorb = absorb_of(a.compress_opts)
        d = {"returns-receiver-iff-inplace": (r == a.self) == bool(a.inplace), "length": f["L"] == p["L"],
             "only-the-two-sites-change": forall_sites(Implies(And(K != s0, K != s1), And(
                 sel(f["isL"], K) == sel(p["isL"], K), sel(f["isR"], K) == sel(p["isR"], K))))}
        if not a.inplace:
            d["receiver-untouched"] = untouched(cx, a.self)
        lo, hi = Min(s0, s1), Max(s0, s1)
        if absorb == "right":
            d["first-site-isometric-towards-second"] = If(s1 == s0 + 1, sel(f["isL"], s0), sel(f["isR"], s0))
            new = (s1, s1)
        elif absorb == "left":
            d["second-site-isometric-towards-first"] = If(s0 == s1 + 1, sel(f["isL"], s1), sel(f["isR"], s1))
            new = (s0, s0)
        else:
            new = (lo, hi)
        pre_sound = And(forall_sites(Implies(And(0 <= K, K < lo), sel(p["isL"], K))),
                        forall_sites(Implies(And(hi < K, K < p["L"]), sel(p["isR"], K))))
        if not cx.ghost.get(("applying", self.target)):
            # (a consequence of the clauses above: proved for the body, not needed again as an assumption of callers)
            d["derived-record-rule"] = Implies(pre_sound, Sound(cx, new, r))
        return d


MPSContract.methods.update({"gate_split": f"{MPS}.gate_split"})


@register
class GateWithAutoSwap(CalleeMixin, More):
    """gate_with_auto_swap(G, (i, j), info, swap_back, inplace)   [@convert_cur_orthog]
    swap j next to i (swap_site_to), canonicalize_ around the pair, gate_split_ with the absorb that leaves the centre at
    lo + 1 (lo = min(i, j)), write the record (lo+1, lo+1), optionally swap back threading the same record.
    Post: Sound(info', X), record inside the chain, X = receiver iff inplace, receiver untouched otherwise; when no
    swap-back happens the record is exactly (lo+1, lo+1).   (The permutation of the physical sites is C06/C09 matter.)"""

    target = f"{MPS}.gate_with_auto_swap"
    floor = 20

    def cases(self):
        out = [NS(name=f"inplace={ip},info={ik},swap_back={sb},where=pair", inplace=ip, ik=ik, sb=sb, wk="pair")
               for ip in (True, False) for ik in info_kinds() for sb in (True, False)]
        # more than two sites: `i, j = where` raises ValueError before anything is touched
        out += [NS(name=f"inplace={ip},info=pair,swap_back=True,where=triple", inplace=ip, ik="pair", sb=True, wk="triple")
                for ip in (True, False)]
        return out

    def inputs(self, cx, case):
        mps = new_mps(cx)
        L = cx.fields(mps)["L"]
        info = mk_info(cx, case.ik)
        for c in record_reqs(cx, mps, info).values():
            cx.assume(c)
        where = mk_where(cx, case.wk, L, base="s")
        cx.assume(And(*[where[x] != where[y] for x in range(len(where)) for y in range(x)]))
        cx.ghost[("rec_in", self.target)] = rec_of(info)
        cx.ghost["k0"] = cx.Int("k0")
        return dict(self=mps, G=cx.Opaque("G"), where=where, info=info, swap_back=case.sb, inplace=case.inplace,
                    compress_opts={})

    def pre_call(self, cx, a, node):
        if isinstance(a.where, (tuple, list)) and len(a.where) != 2:
            raise PyRaise("ValueError", node.lineno)  # `i, j = where` (proved: case where=triple)

    def ensures_raise(self, a, exc, cx, case):
        if exc == "ValueError":
            return {"raise-ValueError-only-if-where-is-not-a-pair": len(a.where) != 2,
                    "receiver-untouched": untouched(cx, a.self),
                    "record-untouched": same_record(cx, rec_of(a.info), self.rec_in(cx))}
        return {f"no-raise-{exc}": False}

    def call_reqs(self, cx, a):
        L = cx.fields(a.self)["L"]
        w = a.where
        if not (isinstance(w, (tuple, list)) and len(w) == 2):
            raise Unsupported("gate_with_auto_swap: where is not a pair of sites")
        d = {"two-distinct-sites-of-the-chain": And(0 <= w[0], w[0] < L, 0 <= w[1], w[1] < L, w[0] != w[1])}
        d.update(record_reqs(cx, a.self, a.info))
        return d

    def modifies(self, a, case):
        return [(a.self, ["isL", "isR"])] if a.inplace else []

    def fresh_result(self, cx, a, case):
        self.fresh_record(cx, a)
        return a.self if a.inplace else new_mps(cx, "res", L=cx.fields(a.self)["L"])

    def ensures(self, a, r, cx, case):
        if not isinstance(r, Ref):
            return {"returns-mps": False}
        d = {"returns-receiver-iff-inplace": (r == a.self) == bool(a.inplace),
             "length": cx.fields(r)["L"] == cx.pre(a.self)["L"]}
        if not a.inplace:
            d["receiver-untouched"] = untouched(cx, a.self)
        d.update(self.record_post_row(cx, a, r))
        rec = rec_of(a.info)
        if is_pair(rec):
            i, j = a.where
            lo = Min(i, j)
            adjacent = Max(i, j) == lo + 1
            if a.swap_back is False:
                d["record-is-(lo+1,lo+1)"] = And(rec[0] == lo + 1, rec[1] == lo + 1)
            elif a.swap_back is True:
                d["record-is-(lo+1,lo+1)-when-adjacent"] = Implies(adjacent, And(rec[0] == lo + 1, rec[1] == lo + 1))
        return d


MPSContract.methods.update({"gate_with_auto_swap": f"{MPS}.gate_with_auto_swap"})


# ------------------------------------------------------------------------------------------------
# gate_with_submpo, gate_nonlocal
# ------------------------------------------------------------------------------------------------


class SubMPO:
    """an MPO acting on the sites `sites` (a tuple of ints on the chain)"""

    def __init__(self, sites):
        self.sites = tuple(sites)


class TagRange:
    """[mps.site_tag(s) for s in range(lo, hi)]"""

    def __init__(self, mps, lo, hi):
        self.mps, self.lo, self.hi = mps, lo, hi


class SubTN:
    """the tensors of sites lo .. hi-1 split off a chain by partition(..., inplace=True)"""

    def __init__(self, mps, lo, hi):
        self.mps, self.lo, self.hi = mps, lo, hi


def havoc_region(cx, mps, lo, hi, isL_in=None, isR_in=None):
    """fresh flags on sites lo..hi (inclusive), everything else unchanged; optional facts about the new flags inside"""
    f = cx.fields(mps)
    nL, nR = cx.Array("isL_rg", z3.IntSort(), z3.BoolSort()), cx.Array("isR_rg", z3.IntSort(), z3.BoolSort())
    cx.assume(forall_sites(Implies(Or(K < lo, K > hi), And(sel(nL, K) == sel(f["isL"], K), sel(nR, K) == sel(f["isR"], K)))))
    if isL_in is not None:
        cx.assume(forall_sites(Implies(And(lo <= K, K <= hi, isL_in(K)), sel(nL, K))))
    if isR_in is not None:
        cx.assume(forall_sites(Implies(And(lo <= K, K <= hi, isR_in(K)), sel(nR, K))))
    f["isL"], f["isR"] = nL, nR


METHOD_SWEEP = (("direct", "absent"), ("direct", True), ("direct", False), ("lazy", "absent"))


class SubmpoBase(CalleeMixin, More):
    """shared leaf modelling for gate_with_submpo / gate_nonlocal.  Assumed leaves:
    * gate_with_op_lazy_(mpo): attaches the operator's tensors to the sites it acts on -- the isometry flags of the
      sites min(sites)..max(sites) are lost, no other site changes; the network is not flat until compressed;
    * partition(site tags of lo..hi, inplace=True): splits that region off; `psi |= sub` puts it back;
    * tensor_network_1d_compress(sub, site_tags=region, inplace=True): the region lo..hi ends in canonical form with the
      centre at its FIRST site (sites lo+1..hi right isometries), at its LAST site if sweep_reverse (sites lo..hi-1
      left isometries); nothing outside the region is touched  [DESIGN C08 *A*]."""

    def pending(self, cx):
        return cx.ghost.setdefault("pending", {})

    def detached(self, cx):
        return cx.ghost.setdefault("detached", {})

    def call(self, cx, name, args, kwargs, node):
        if name == ".gen_sites_present" and isinstance(args[0], SubMPO):
            return args[0].sites
        if name == "MatrixProductOperator.from_dense":
            sites = kwargs.get("sites")
            if not isinstance(sites, (tuple, list)):
                raise Unsupported("from_dense without explicit sites")
            return SubMPO(sites)
        if name == ".gate_with_op_lazy_" and isinstance(args[0], Ref) and args[0].kind == "MPS":
            mps, op = args[0], args[1]
            if not isinstance(op, SubMPO):
                raise Unsupported("gate_with_op_lazy_ with an unknown operator")
            lo, hi = where_range(op.sites)
            L = cx.fields(mps)["L"]
            cx.oblige(f"call-pre@{node.lineno}:operator-sites-on-the-chain", "call-pre", And(0 <= lo, hi < L), node.lineno)
            havoc_region(cx, mps, lo, hi)
            self.pending(cx)[mps.oid] = (lo, hi)
            return mps
        if name == "__genexp__":
            n = args[0]
            g = n.generators[0] if len(n.generators) == 1 else None
            e = n.elt
            if g is not None and not g.ifs and isinstance(g.target, ast.Name) and isinstance(e, ast.Call) \
                    and isinstance(e.func, ast.Attribute) and e.func.attr == "site_tag" and len(e.args) == 1 \
                    and isinstance(e.args[0], ast.Name) and e.args[0].id == g.target.id:
                rng = cx.ev(g.iter)
                mps = cx.ev(e.func.value)
                if isinstance(rng, tuple) and len(rng) == 3 and rng[0] == "range" and isinstance(mps, Ref):
                    return TagRange(mps, rng[1], rng[2])
            raise Unsupported(f"comprehension at line {node.lineno}")
        if name == ".partition" and isinstance(args[0], Ref) and isinstance(args[1], TagRange):
            mps, tr = args[0], args[1]
            if tr.mps != mps or kwargs.get("inplace") is not True or kwargs.get("which") != "any":
                raise Unsupported("partition: not the in-place split of a site range")
            self.detached(cx)[mps.oid] = (tr.lo, tr.hi)
            return (cx.Opaque("rest"), SubTN(mps, tr.lo, tr.hi))
        if name == "tensor_network_1d_compress":
            sub = args[0]
            tags = kwargs.get("site_tags")
            if not (isinstance(sub, SubTN) and isinstance(tags, TagRange) and kwargs.get("inplace") is True):
                raise Unsupported("tensor_network_1d_compress: not the in-place compression of a split-off region")
            mps = sub.mps
            lo, hi = sub.lo, sub.hi - 1
            pend = self.pending(cx).get(mps.oid)
            cx.oblige(f"call-pre@{node.lineno}:compresses-exactly-the-region-split-off", "call-pre",
                      And(tags.lo == sub.lo, tags.hi == sub.hi, lo <= hi), node.lineno)
            cx.oblige(f"call-pre@{node.lineno}:region-covers-the-lazily-applied-operator", "call-pre",
                      And(lo <= pend[0], pend[1] <= hi) if pend else True, node.lineno)
            if kwargs.get("sweep_reverse", False):
                havoc_region(cx, mps, lo, hi, isL_in=lambda k: k < hi)
            else:
                havoc_region(cx, mps, lo, hi, isR_in=lambda k: k > lo)
            self.pending(cx).pop(mps.oid, None)
            return sub
        if name == "__binop__" and args[0] == "BitOr" and isinstance(args[1], Ref) and isinstance(args[2], SubTN):
            mps, sub = args[1], args[2]
            det = self.detached(cx).get(mps.oid)
            ok = det is not None and sub.mps == mps
            cx.oblige(f"call-pre@{node.lineno}:recombines-the-region-that-was-split-off", "call-pre",
                      And(det[0] == sub.lo, det[1] == sub.hi) if ok else False, node.lineno)
            self.detached(cx).pop(mps.oid, None)
            return mps
        return super().call(cx, name, args, kwargs, node)

    # ---- shared contract text
    def sites_of(self, a):
        raise NotImplementedError

    def sweep_reverse(self, a):
        return bool(a.compress_opts.get("sweep_reverse", False)) if isinstance(a.compress_opts, dict) else False

    def call_reqs(self, cx, a):
        L = cx.fields(a.self)["L"]
        lo, hi = where_range(self.sites_of(a))
        d = {"operator-sites-on-the-chain": And(0 <= lo, hi < L)}
        d.update(record_reqs(cx, a.self, a.info))
        return d

    def modifies(self, a, case):
        return [(a.self, ["isL", "isR"])] if a.inplace else []

    def fresh_result(self, cx, a, case):
        if a.method != "lazy":
            self.fresh_record(cx, a)
        r = a.self if a.inplace else new_mps(cx, "res", L=cx.fields(a.self)["L"])
        if a.method == "lazy":
            self.pending(cx)[r.oid] = where_range(self.sites_of(a))
        return r

    def ensures(self, a, r, cx, case):
        if not isinstance(r, Ref):
            return {"returns-mps": False}
        f, p = cx.fields(r), cx.pre(a.self)
        si, sf = where_range(self.sites_of(a))
        d = {"returns-receiver-iff-inplace": (r == a.self) == bool(a.inplace), "length": f["L"] == p["L"]}
        if not a.inplace:
            d["receiver-untouched"] = untouched(cx, a.self)
        rec, rec0 = rec_of(a.info), self.rec_in(cx)
        if a.method == "lazy":
            # the operator is only attached: the record is not interpreted and not written.  Promised: the record is
            # the one handed in; only the operator's region changed; the record stays sound IF the region lies inside it
            d["record-untouched"] = same_record(cx, rec, rec0)
            d["only-the-operator-region-changes"] = forall_sites(Implies(Or(K < si, K > sf), And(
                sel(f["isL"], K) == sel(p["isL"], K), sel(f["isR"], K) == sel(p["isR"], K))))
            if is_pair(rec):
                lo, hi = Min(rec[0], rec[1]), Max(rec[0], rec[1])
                d["record-sound-if-the-region-lies-inside-it"] = Implies(And(lo <= si, sf <= hi), Sound(cx, (lo, hi), r))
            d["operator-left-pending"] = r.oid in self.pending(cx)
            return d
        d.update(self.record_post_row(cx, a, r))
        if is_pair(rec):
            c = sf if self.sweep_reverse(a) else si
            d["record-is-the-first-site-of-the-region-(last-if-sweep_reverse)"] = And(rec[0] == c, rec[1] == c)
        if is_pair(rec0):
            slo, shi = Min(si, Min(rec0[0], rec0[1])), Max(sf, Max(rec0[0], rec0[1]))
            d["frame-outside-span"] = forall_sites(Implies(Or(K < slo, K > shi), And(
                sel(f["isL"], K) == sel(p["isL"], K), sel(f["isR"], K) == sel(p["isR"], K))))
        d["region-recombined-and-operator-contracted"] = r.oid not in self.pending(cx) and r.oid not in self.detached(cx)
        return d


@register
class GateWithSubmpo(SubmpoBase):
    """gate_with_submpo(submpo, where, method, transpose, info, inplace, inplace_mpo, **compress_opts) [@convert_cur_orthog]
    method != 'lazy': canonicalize_ around the operator's span (si, sf), attach the operator, split the span off, compress
    it, record (si, si) -- (sf, sf) if sweep_reverse --, recombine: Sound(info', X), record as stated.
    method == 'lazy': see `ensures` (record not interpreted).   `where`, when given, is the operator's support."""

    target = f"{MPS}.gate_with_submpo"
    floor = 20

    def cases(self):
        return [NS(name=f"inplace={ip},info={ik},method={m},sweep_reverse={sr},where={wk}", inplace=ip, ik=ik, m=m, sr=sr, wk=wk)
                for ip in (True, False) for ik in info_kinds() for m, sr in METHOD_SWEEP for wk in ("pair", "triple", "None")]

    def sites_of(self, a):
        return a.submpo.sites

    def inputs(self, cx, case):
        mps = new_mps(cx)
        L = cx.fields(mps)["L"]
        info = mk_info(cx, case.ik)
        for c in record_reqs(cx, mps, info).values():
            cx.assume(c)
        sites = mk_where(cx, "triple" if case.wk == "triple" else "pair", L, base="s")
        opts = {} if case.sr == "absent" else {"sweep_reverse": case.sr}
        cx.ghost[("rec_in", self.target)] = rec_of(info)
        cx.ghost["k0"] = cx.Int("k0")
        return dict(self=mps, submpo=SubMPO(sites), where=None if case.wk == "None" else sites, method=case.m,
                    transpose=False, info=info, inplace=case.inplace, inplace_mpo=False, compress_opts=opts)

    def call_reqs(self, cx, a):
        d = super().call_reqs(cx, a)
        if a.where is not None:
            lo, hi = where_range(a.where)
            slo, shi = where_range(a.submpo.sites)
            d["where-is-the-span-of-the-operator"] = And(lo == slo, hi == shi)
        return d


@register
class GateNonlocal(SubmpoBase):
    """gate_nonlocal(G, where, dims, method, transpose, info, inplace, **compress_opts)   [@convert_cur_orthog]
    builds the sub-MPO on `where` and hands everything (record included, inplace as given) to gate_with_submpo_: same
    post-condition."""

    target = f"{MPS}.gate_nonlocal"
    floor = 12

    def cases(self):
        return [NS(name=f"inplace={ip},info={ik},method={m},sweep_reverse={sr},dims={dk}", inplace=ip, ik=ik, m=m, sr=sr, dk=dk)
                for ip in (True, False) for ik in info_kinds() for m, sr in METHOD_SWEEP for dk in ("None", "given")]

    def sites_of(self, a):
        return tuple(a.where)

    def inputs(self, cx, case):
        mps = new_mps(cx)
        L = cx.fields(mps)["L"]
        info = mk_info(cx, case.ik)
        for c in record_reqs(cx, mps, info).values():
            cx.assume(c)
        opts = {} if case.sr == "absent" else {"sweep_reverse": case.sr}
        cx.ghost[("rec_in", self.target)] = rec_of(info)
        cx.ghost["k0"] = cx.Int("k0")
        return dict(self=mps, G=cx.Opaque("G"), where=mk_where(cx, "pair", L), dims=None if case.dk == "None" else cx.Opaque("dims"),
                    method=case.m, transpose=False, info=info, inplace=case.inplace, dagger=cx.Bool("dagger"),
                    compress_opts=opts)


MPSContract.methods.update({"gate_with_submpo": f"{MPS}.gate_with_submpo", "gate_nonlocal": f"{MPS}.gate_nonlocal"})


# ------------------------------------------------------------------------------------------------
# gate_TN_1D (the dispatcher behind MatrixProductState.gate) and TensorNetwork1DVector.gate
# ------------------------------------------------------------------------------------------------


class GateArray:
    """a gate matrix; ghost `unitary` (Bool): declared unitary"""

    def __init__(self, unitary):
        self.unitary = unitary


def unitary_of(cx, G):
    return G.unitary if isinstance(G, GateArray) else z3.BoolVal(False)


def leaf_generic_gate(cx, mps, G, where, kwargs, node):
    """[assumed leaf, DESIGN C08 domain note]  TensorNetworkGenVector.gate(tn, G, where, contract=True) with ONE site:
    the gate is contracted into that site's tensor; no other tensor changes; the canonical-form record is NOT interpreted
    (the `info` dict is used for other purposes there).  The site's isometry flags survive iff G is declared unitary."""
    ws = (where,) if is_int(where) else tuple(where)
    ok = kwargs.get("contract") is True and len(ws) == 1
    cx.oblige(f"call-pre@{node.lineno}:generic-gate-route-only-for-a-contracted-one-site-gate", "call-pre", ok, node.lineno)
    if not ok:
        raise PathEnd("outside the MPS domain")
    tgt = mps
    f = cx.fields(mps)
    if not kwargs.get("inplace", False):
        tgt = cx.new_obj("MPS", L=f["L"], cyclic=f["cyclic"], isL=f["isL"], isR=f["isR"])
        f = cx.fields(tgt)
    s = ws[0]
    cx.oblige(f"call-pre@{node.lineno}:gated-site-on-the-chain", "call-pre", And(0 <= s, s < f["L"]), node.lineno)
    u = unitary_of(cx, G)
    f["isL"] = z3.Store(f["isL"], s, If(u, sel(f["isL"], s), cx.Bool("hv")))
    f["isR"] = z3.Store(f["isR"], s, If(u, sel(f["isR"], s), cx.Bool("hv")))
    return tgt


MPS_CONTRACT_KINDS = ("auto-mps", "swap+split", "nonlocal", True)


@register
class GateTN1D(SubmpoBase):
    """gate_TN_1D(tn, G, where, contract, tags, propagate_tags, info, inplace, cur_orthog, **compress_opts) for the contract
    modes that keep MPS form ('auto-mps', 'swap+split', 'nonlocal', True with one site).  Routes:
      one site            -> generic gate (contract=True): record untouched; Sound(info', X) IF the gate is unitary or the
                             site lies inside the recorded range (stated precondition of DESIGN C08, not a finding)
      two sites, auto-mps / swap+split -> gate_with_auto_swap: Sound(info', X)
      'nonlocal' (>= 2 sites) or auto-mps with >= 3 sites -> gate_nonlocal: Sound(info', X), record at the region's
                             first (last) site; method='lazy': record not interpreted (see gate_with_submpo)
    Other contract modes (False, 'split-gate', ...) leave MPS form: outside the domain of the record."""

    target = f"{F}::gate_TN_1D"
    decorated = False
    floor = 30

    def cases(self):
        out = []
        for ck in MPS_CONTRACT_KINDS:
            for wk in ("int", "pair", "triple"):
                if ck is True and wk != "int":
                    continue  # outside the domain: contract=True on several sites leaves MPS form
                # ('swap+split' is a two-site mode: with more sites gate_with_auto_swap raises ValueError, nothing touched)
                for ip in (True, False):
                    for ik in ("absent", "empty", "pair", "calc"):
                        for m in ("direct", "lazy") if (ck in ("auto-mps", "nonlocal") and wk != "int") else ("direct",):
                            out.append(NS(name=f"contract={ck},where={wk},inplace={ip},info={ik},method={m}", ck=ck, wk=wk,
                                          inplace=ip, ik=ik, m=m))
        return out

    def inputs(self, cx, case):
        mps = new_mps(cx)
        L = cx.fields(mps)["L"]
        info = mk_info2(cx, case.ik)
        for c in record_reqs(cx, mps, info).values():
            cx.assume(c)
        where = mk_where(cx, case.wk, L)
        if not is_int(where):
            cx.assume(And(*[where[x] != where[y] for x in range(len(where)) for y in range(x)]))
        cx.ghost[("rec_in", self.target)] = rec_of(info)
        opts = {"method": "lazy"} if case.m == "lazy" else {}
        return dict(tn=mps, G=GateArray(cx.Bool("unitary")), where=where, contract=case.ck, tags=None,
                    propagate_tags="sites", info=info, inplace=case.inplace, cur_orthog=None, compress_opts=opts)

    def call(self, cx, name, args, kwargs, node):
        if name == "TensorNetworkGenVector.gate":
            return leaf_generic_gate(cx, args[0], args[1], args[2], kwargs, node)
        return super().call(cx, name, args, kwargs, node)

    # ---- the route table (what the dispatcher is proved to do)
    @staticmethod
    def sites(a):
        return (a.where,) if is_int(a.where) else tuple(a.where)

    def route(self, a):
        ng = len(self.sites(a))
        c = a.contract
        if ng == 1 and (c is True or c in ("auto-mps", "swap+split", "nonlocal")):
            return "generic"
        if (c == "auto-mps" and ng == 2) or c == "swap+split":
            return "swap" if ng == 2 else "unsupported"
        if c == "nonlocal" or c == "auto-mps":
            return "nonlocal"
        return "unsupported"

    def method_of(self, a):
        return a.compress_opts.get("method", "direct") if isinstance(a.compress_opts, dict) else "direct"

    def raises_unpack(self, a):
        return a.contract == "swap+split" and len(self.sites(a)) > 2

    def pre_call(self, cx, a, node):
        if self.raises_unpack(a):
            raise PyRaise("ValueError", node.lineno)

    def ensures_raise(self, a, exc, cx, case):
        if exc == "ValueError":
            mps = self.the_mps(a)
            return {"raise-ValueError-only-for-swap+split-on-more-than-two-sites": self.raises_unpack(a),
                    "receiver-untouched": untouched(cx, mps),
                    "record-untouched": same_record(cx, rec_of(a.info), self.rec_in(cx))}
        return {f"no-raise-{exc}": False}

    def the_mps(self, a):
        return a.tn

    def call_reqs(self, cx, a):
        mps = self.the_mps(a)
        L = cx.fields(mps)["L"]
        ws = self.sites(a)
        d = {"contract-mode-keeps-MPS-form": self.route(a) != "unsupported" or self.raises_unpack(a),
             "sites-on-the-chain": And(*[And(0 <= w, w < L) for w in ws]),
             "sites-distinct": And(*[ws[x] != ws[y] for x in range(len(ws)) for y in range(x)])}
        d.update(record_reqs(cx, mps, a.info))
        return d

    def modifies(self, a, case):
        return [(self.the_mps(a), ["isL", "isR"])] if a.inplace else []

    def fresh_result(self, cx, a, case):
        mps = self.the_mps(a)
        route = self.route(a)
        lazy = route == "nonlocal" and self.method_of(a) == "lazy"
        if route != "generic" and not lazy:
            self.fresh_record(cx, a)
        r = mps if a.inplace else new_mps(cx, "res", L=cx.fields(mps)["L"])
        if lazy:
            self.pending(cx)[r.oid] = where_range(self.sites(a))
        return r

    def ensures(self, a, r, cx, case):
        if not isinstance(r, Ref):
            return {"returns-mps": False}
        mps = self.the_mps(a)
        f, p = cx.fields(r), cx.pre(mps)
        d = {"returns-receiver-iff-inplace": (r == mps) == bool(a.inplace), "length": f["L"] == p["L"]}
        if not a.inplace:
            d["receiver-untouched"] = untouched(cx, mps)
        route = self.route(a)
        rec, rec0 = rec_of(a.info), self.rec_in(cx)
        ws = self.sites(a)
        si, sf = where_range(ws)
        b = NS(info=a.info)
        if route == "generic":
            s = ws[0]
            d["record-untouched"] = same_record(cx, rec, rec0)
            d["only-the-gated-site-changes"] = forall_sites(Implies(K != s, And(
                sel(f["isL"], K) == sel(p["isL"], K), sel(f["isR"], K) == sel(p["isR"], K))))
            if is_pair(rec):
                lo, hi = Min(rec[0], rec[1]), Max(rec[0], rec[1])
                d["record-sound-if-gate-unitary-or-site-inside-the-record"] = Implies(
                    Or(unitary_of(cx, a.G), And(lo <= s, s <= hi)), And(Sound(cx, (lo, hi), r), 0 <= lo, hi < f["L"]))
        elif route == "swap":
            if isinstance(a.info, dict):
                d.update(self.record_post(cx, b, r))
        elif route == "nonlocal":
            if self.method_of(a) == "lazy":
                d["record-untouched"] = same_record(cx, rec, rec0)
                d["only-the-operator-region-changes"] = forall_sites(Implies(Or(K < si, K > sf), And(
                    sel(f["isL"], K) == sel(p["isL"], K), sel(f["isR"], K) == sel(p["isR"], K))))
                d["operator-left-pending"] = r.oid in self.pending(cx)
            elif isinstance(a.info, dict):
                d.update(self.record_post(cx, b, r))
                if is_pair(rec):
                    c = sf if self.sweep_reverse(a) else si
                    d["record-is-the-first-site-of-the-region-(last-if-sweep_reverse)"] = And(rec[0] == c, rec[1] == c)
        else:
            d["contract-mode-keeps-MPS-form"] = False
        return d


@register
class VectorGate(GateTN1D):
    """TensorNetwork1DVector.gate(self, *args, inplace=False, **kwargs) = gate_TN_1D(self, *args, inplace=inplace, **kwargs):
    same contract with tn = self (arguments bound through the real signature of gate_TN_1D)"""

    target = f"{TN1DVEC}.gate"
    floor = 30

    def inputs(self, cx, case):
        d = super().inputs(cx, case)
        kwargs = dict(contract=d["contract"], info=d["info"])
        kwargs.update(d["compress_opts"])
        self._bound = None
        return dict(self=d["tn"], args=(d["G"], d["where"]), inplace=d["inplace"], kwargs=kwargs)

    def bound(self, a):
        from vf.pyvc import bind_args, load_function
        fn, _, _ = load_function(GateTN1D.target)
        b = bind_args(fn, [a.self] + list(a.args), dict(a.kwargs, inplace=a.inplace))
        return b

    def the_mps(self, a):
        return a.tn if "tn" in a else a.self

    def call_reqs(self, cx, a):
        return super().call_reqs(cx, self.bound(a))

    def pre_call(self, cx, a, node):
        return super().pre_call(cx, self.bound(a), node)

    def ensures_raise(self, a, exc, cx, case):
        return super().ensures_raise(self.bound(a), exc, cx, case)

    def snapshot(self, cx, a):
        cx.ghost[("rec_in", self.target)] = rec_of(a.kwargs.get("info"))

    def modifies(self, a, case):
        return [(a.self, ["isL", "isR"])] if a.inplace else []

    def fresh_result(self, cx, a, case):
        return super().fresh_result(cx, self.bound(a), case)

    def ensures(self, a, r, cx, case):
        return super().ensures(self.bound(a), r, cx, case)


MPSContract.methods.update({"gate": f"{TN1DVEC}.gate"})


# ------------------------------------------------------------------------------------------------
# the MPS circuit simulators: class invariant  Sound(gate_opts["info"], _psi)
# ------------------------------------------------------------------------------------------------

FG = "quimb/tensor/circuit/gates.py"
OPAQUE_FUNCS = OPAQUE_FUNCS + ("qu.swap",)


class GateObj:
    """a circuit Gate: target qubits, control qubits, special / label, the matrix (ghost: declared unitary)"""

    def __init__(self, qubits, controls=(), special=False, label="U", array=None):
        self.qubits, self.controls, self.special, self.label, self.array = tuple(qubits), tuple(controls), special, label, array
        self.params, self.round, self.tag = (), None, None


class Perm:
    """CircuitPermMPS.qubits: the current physical order of the logical qubits -- a permutation of range(N) (its
    bookkeeping is C07's matter; here: index() returns a site of the chain, distinct qubits sit on distinct sites)"""

    def __init__(self, N):
        self.N = N
        self.seen = []


class Counters:
    """CircuitMPSLazy._uncompressed_sites: dict site -> number of pending lazy gates; ghost `nonempty`"""

    def __init__(self, nonempty):
        self.nonempty = nonempty

    @property
    def truth(self):
        return self.nonempty


CIRC_INFO_KINDS = ("empty", "None", "pair")


def circ_info(cx, kind):
    return {} if kind == "empty" else mk_info(cx, kind)


def new_circuit(cx, ik, contract="auto-mps", convert_eager=True, **extra):
    psi = new_mps(cx, "psi")
    L = cx.fields(psi)["L"]
    cx.assume(L >= 1)
    info = circ_info(cx, ik)
    gate_opts = {"contract": contract, "propagate_tags": False, "max_bond": cx.Opaque("max_bond"),
                 "cutoff": cx.Opaque("cutoff"), "info": info}
    circ = cx.new_obj("Circuit", _psi=psi, gate_opts=gate_opts, N=L, convert_eager=convert_eager, tag_gate_numbers=False,
                      tag_gate_rounds=False, tag_gate_labels=False, _gates=[], **extra)
    cx.ghost["circ0"] = dict(psi=psi, info=info, rec=rec_of(info))
    return circ, psi, info


def pending_of(cx, psi):
    return psi.oid in cx.ghost.get("pending", {})


def record_ok(cx, psi, info, prefix="class-invariant:"):
    """the record of a circuit is absent / None (no claim) or a pair inside the chain that is sound for _psi"""
    rec = rec_of(info)
    if rec is ABSENT or rec is None:
        return {}
    if not is_pair(rec):
        return {prefix + "record-is-absent-None-or-a-pair": False}
    L = cx.fields(psi)["L"]
    lo, hi = Min(rec[0], rec[1]), Max(rec[0], rec[1])
    return {prefix + "record-in-range": And(0 <= lo, hi < L), prefix + "record-sound-for-_psi": Sound(cx, (lo, hi), psi)}


def circuit_inv(cx, circ):
    """class invariant at the end of a method: same state object, same shared record dict, and -- unless lazily applied
    operators are pending (CircuitMPSLazy between compressions: no claim) -- the record is true of _psi"""
    f = cx.fields(circ)
    c0 = cx.ghost["circ0"]
    d = {"class-invariant:_psi-is-the-same-object": f["_psi"] == c0["psi"],
         "class-invariant:shared-record-dict-kept": f["gate_opts"].get("info") is c0["info"],
         "class-invariant:length": cx.fields(f["_psi"])["L"] == f["N"]}
    if not pending_of(cx, f["_psi"]):
        d.update(record_ok(cx, f["_psi"], f["gate_opts"].get("info")))
    return d


class CircuitContract(SubmpoBase):
    """shared modelling of the circuit classes.  Assumed leaves: _maybe_convert(psi, dtype) (dtype / backend conversion
    of the arrays) and clear_storage() do not change which site tensors are isometries"""

    floor = 5
    decorated = False
    supers = {}  # "method" -> target of the contract that `super().method(...)` resolves to

    def attr(self, cx, base, attr, node):
        if isinstance(base, GateObj):
            if attr == "total_qubit_count":
                return len(base.qubits) + len(base.controls)
            if hasattr(base, attr):
                return getattr(base, attr)
            return NotImplemented
        if isinstance(base, Ref) and base.kind == "Circuit" and attr == "num_gates":
            return cx.Opaque("num_gates")
        return super().attr(cx, base, attr, node)

    def call(self, cx, name, args, kwargs, node):
        if name.startswith("super().") and name[8:] in self.supers:
            return cx.call_contract(REGISTRY[self.supers[name[8:]]], args, kwargs, node, recv=cx.env["self"])
        if name == "__genexp__":
            return cx.Opaque("items")
        if name.startswith("."):
            m, recv = name[1:], args[0]
            if isinstance(recv, Ref) and recv.kind == "Circuit":
                if m in ("_maybe_convert", "clear_storage"):
                    return None
                if m == "_maybe_convert_gate_array":
                    return args[1]
                if m in self.own_methods:
                    return cx.call_contract(REGISTRY[self.own_methods[m]], args[1:], kwargs, node, recv=recv)
            if isinstance(recv, GateObj):
                if m == "copy_with":
                    g = GateObj(kwargs.get("qubits", recv.qubits), kwargs.get("controls", recv.controls), recv.special,
                                recv.label, recv.array)
                    return g
                if m == "build_mpo":
                    return SubMPO(recv.controls + recv.qubits)
            if isinstance(recv, Perm):
                if m == "index":
                    q = args[1]
                    for q0, p0 in recv.seen:
                        if q0 is q:
                            return p0
                    p = cx.Int("phys")
                    cx.assume(And(0 <= p, p < recv.N))
                    for q0, p0 in recv.seen:
                        cx.assume((p == p0) == (q == q0))
                    recv.seen.append((q, p))
                    return p
                if m in ("pop", "insert"):
                    return cx.Opaque("qubit") if m == "pop" else None
            if isinstance(recv, Counters):
                if m == "get":
                    n = cx.Int("count")
                    cx.assume(n >= 0)
                    return n
                if m == "clear":
                    recv.nonempty = z3.BoolVal(False)
                    return None
        if name == "__setitem__" and isinstance(args[0], Counters):
            args[0].nonempty = z3.BoolVal(True)
            return None
        return super().call(cx, name, args, kwargs, node)

    own_methods = {}

    def on_dictcomp(self, cx, n):
        return OpaqueMap()

    # ---- use as a callee: the class invariant is required and re-established
    def the_circ(self, a):
        return a.self

    def call_reqs(self, cx, a):
        f = cx.fields(self.the_circ(a))
        if pending_of(cx, f["_psi"]):
            return {}
        return {k.replace("class-invariant:", "class-invariant-"): v
                for k, v in record_ok(cx, f["_psi"], f["gate_opts"].get("info")).items()}

    def snapshot(self, cx, a):
        f = cx.fields(self.the_circ(a))
        cx.ghost[("circ_in", self.target)] = dict(psi=f["_psi"], info=f["gate_opts"].get("info"),
                                                  rec=rec_of(f["gate_opts"].get("info")))

    def modifies(self, a, case):
        return []


# ---- functions of circuit/gates.py that receive the record through **gate_opts --------------------------------------


class PsiFn(CircuitContract):
    """module-level helpers op(psi, ..., **gate_opts) with gate_opts['info'] the threaded record: afterwards the record
    is true of psi (psi is modified in place), or -- method='lazy' -- an operator is left pending"""

    def mk_opts(self, cx, case, psi):
        info = circ_info(cx, case.ik)
        for c in record_reqs(cx, psi, info).values():
            cx.assume(c)
        opts = {"max_bond": cx.Opaque("max_bond"), "cutoff": cx.Opaque("cutoff"), "info": info}
        if case.get("m") == "lazy":
            opts["method"] = "lazy"
        cx.ghost[("rec_in", self.target)] = rec_of(info)
        return opts

    def lazy(self, a, cx=None):
        return a.gate_opts.get("method") == "lazy" and self.uses_submpo(a, cx)

    def uses_submpo(self, a, cx=None):
        return True

    def call_reqs(self, cx, a):
        return record_reqs(cx, a.psi, a.gate_opts.get("info"))

    def snapshot(self, cx, a):
        cx.ghost[("rec_in", self.target)] = rec_of(a.gate_opts.get("info"))

    def modifies(self, a, case):
        return [(a.psi, ["isL", "isR"])]

    def fresh_result(self, cx, a, case):
        if self.lazy(a, cx):
            self.pending(cx)[a.psi.oid] = (0, cx.fields(a.psi)["L"] - 1)
        elif isinstance(a.gate_opts.get("info"), dict):
            a.gate_opts["info"]["cur_orthog"] = (cx.Int("rec_a"), cx.Int("rec_b"))
        return None

    def ensures(self, a, r, cx, case):
        d = {"length": cx.fields(a.psi)["L"] == cx.pre(a.psi)["L"]}
        info = a.gate_opts.get("info")
        if self.lazy(a, cx):
            d["operator-left-pending"] = pending_of(cx, a.psi)
            d["record-untouched"] = same_record(cx, rec_of(info), self.rec_in(cx))
        elif isinstance(info, dict):
            d.update(self.record_post(cx, NS(info=info), a.psi))
        return d


@register
class ApplySwap(PsiFn):
    target = f"{FG}::apply_swap"
    floor = 20

    def cases(self):
        return [NS(name=f"contract={ck},info={ik},method={m}", ck=ck, ik=ik, m=m) for ck in ("auto-mps", "swap+split", "nonlocal")
                for ik in CIRC_INFO_KINDS for m in (("direct", "lazy") if ck == "nonlocal" else ("direct",))]

    def inputs(self, cx, case):
        psi = new_mps(cx, "psi")
        L = cx.fields(psi)["L"]
        i, j = cx.Int("i"), cx.Int("j")
        cx.assume(And(0 <= i, i < L, 0 <= j, j < L, i != j))
        opts = self.mk_opts(cx, case, psi)
        opts["contract"], opts["propagate_tags"] = case.ck, False
        cx.ghost[("contract_in", self.target)] = case.ck
        return dict(psi=psi, i=i, j=j, gate_opts=opts)

    def attr(self, cx, base, attr, node):
        if base is None and attr == "_MPS_METHODS":
            return ("auto-mps", "nonlocal", "swap+split")  # (module constant of circuit/gates.py)
        return super().attr(cx, base, attr, node)

    def uses_submpo(self, a, cx=None):
        # (the body pops "contract" from gate_opts: the value at entry is kept as a ghost)
        return cx.ghost.get(("contract_in", self.target), a.gate_opts.get("contract")) == "nonlocal"

    def snapshot(self, cx, a):
        super().snapshot(cx, a)
        cx.ghost[("contract_in", self.target)] = a.gate_opts.get("contract")

    def call_reqs(self, cx, a):
        L = cx.fields(a.psi)["L"]
        d = {"two-distinct-sites-of-the-chain": And(0 <= a.i, a.i < L, 0 <= a.j, a.j < L, a.i != a.j),
             "contract-mode-keeps-MPS-form": a.gate_opts.get("contract") in ("auto-mps", "nonlocal", "swap+split")}
        d.update(super().call_reqs(cx, a))
        return d


@register
class ApplyControlledGateMPS(PsiFn):
    target = f"{FG}::_apply_controlled_gate_mps"
    floor = 10

    def cases(self):
        return [NS(name=f"info={ik},method={m}", ik=ik, m=m) for ik in CIRC_INFO_KINDS for m in ("direct", "lazy")]

    def mk_gate(self, cx, L):
        c, t = cx.Int("ctrl"), cx.Int("targ")
        cx.assume(And(0 <= c, c < L, 0 <= t, t < L, c != t))
        return GateObj((t,), (c,), array=GateArray(cx.Bool("unitary")))

    def inputs(self, cx, case):
        psi = new_mps(cx, "psi")
        return dict(psi=psi, gate=self.mk_gate(cx, cx.fields(psi)["L"]), tags=None, gate_opts=self.mk_opts(cx, case, psi))

    def call_reqs(self, cx, a):
        L = cx.fields(a.psi)["L"]
        ws = a.gate.controls + a.gate.qubits
        d = {"gate-sites-on-the-chain": And(*[And(0 <= w, w < L) for w in ws])}
        d.update(super().call_reqs(cx, a))
        return d


@register
class ApplyControlledGate(ApplyControlledGateMPS):
    """contract in {'auto-mps', 'nonlocal'} -> _apply_controlled_gate_mps; 'swap+split' is not supported for controlled
    gates (ValueError, nothing touched); the hyper-network modes leave MPS form (outside the domain)"""

    target = f"{FG}::apply_controlled_gate"
    floor = 10

    def cases(self):
        return [NS(name=f"contract={ck},info={ik},method={m}", ck=ck, ik=ik, m=m) for ck in ("auto-mps", "nonlocal", "swap+split")
                for ik in CIRC_INFO_KINDS for m in ("direct", "lazy")]

    def inputs(self, cx, case):
        d = super().inputs(cx, case)
        d.update(contract=case.ck, propagate_tags=False)
        return d

    def pre_call(self, cx, a, node):
        if a.contract not in ("auto-mps", "nonlocal"):
            if a.contract == "swap+split":
                raise PyRaise("ValueError", node.lineno)
            cx.oblige(f"call-pre@{node.lineno}:apply_controlled_gate:contract-mode-keeps-MPS-form", "call-pre", False, node.lineno)
            raise PathEnd("outside the MPS domain")

    def ensures_raise(self, a, exc, cx, case):
        if exc == "ValueError":
            return {"raise-ValueError-only-for-unsupported-contract-mode": a.contract not in ("auto-mps", "nonlocal"),
                    "state-untouched": untouched(cx, a.psi),
                    "record-untouched": same_record(cx, rec_of(a.gate_opts.get("info")), self.rec_in(cx))}
        return {f"no-raise-{exc}": False}


# ---- CircuitBase._apply_gate (circuit/core.py): every gate of the three MPS circuit classes goes through here --------

GATE_KINDS = ("1q", "2q", "3q", "ctrl", "SWAP", "IDEN")
# (default `contract` of the class, per-call gate_opts): CircuitMPS, CircuitPermMPS 1q / 2q, CircuitMPSLazy 1q / >= 2q,
# and a circuit built with gate_contract='nonlocal'
APPLY_MODES = (("auto-mps", "plain"), ("swap+split", "plain"), ("swap+split", "no-swap-back"), ("auto-mps", "lazy"),
               ("nonlocal", "plain"))


def mk_gate(cx, kind, L):
    qs = {"1q": 1, "2q": 2, "3q": 3, "ctrl": 1, "SWAP": 2, "IDEN": 1}[kind]
    sites = tuple(cx.Int(f"q{k}") for k in range(qs + (1 if kind == "ctrl" else 0)))
    for s in sites:
        cx.assume(And(0 <= s, s < L))
    cx.assume(And(*[sites[x] != sites[y] for x in range(len(sites)) for y in range(x)]))
    arr = GateArray(cx.Bool("unitary"))
    if kind == "ctrl":
        return GateObj(sites[:1], sites[1:], array=arr)
    return GateObj(sites, (), special=kind in ("SWAP", "IDEN"), label=kind if kind in ("SWAP", "IDEN") else "U", array=arr)


def gate_in_domain(cx, circ, gate, opts):
    """stated precondition (DESIGN C08 domain note): a ONE-site gate goes through the generic contracted-gate route, which
    does not interpret the record: it must be unitary or sit inside the recorded range"""
    f = cx.fields(circ)
    info = f["gate_opts"].get("info")
    rec = rec_of(info)
    if gate.controls or gate.special or len(gate.qubits) != 1 or not is_pair(rec):
        return True
    s = gate.qubits[0]
    return Or(unitary_of(cx, gate.array), And(Min(rec[0], rec[1]) <= s, s <= Max(rec[0], rec[1])))


@register
class ApplyGate(CircuitContract):
    """CircuitBase._apply_gate(gate, tags, **gate_opts): merges the per-call options over self.gate_opts (the shared
    record dict `info` included) and applies the gate to self._psi IN PLACE through apply_controlled_gate (controls),
    SPECIAL_GATES[label] (SWAP / IDEN) or _psi.gate_(G, qubits, **opts).   Class invariant preserved:
    Sound(gate_opts['info'], _psi) afterwards (or a lazily applied operator is pending: CircuitMPSLazy, no claim until
    the next compression).   Domain: contract modes that keep MPS form; tag_gate_* options off (MPS circuit default);
    one-site gates unitary or inside the record; a controlled gate = one control + one target."""

    target = f"{FCORE}::CircuitBase._apply_gate"
    floor = 60
    raises = {"ValueError": True}

    def cases(self):
        return [NS(name=f"gate={gk},contract={ck},opts={ok},info={ik}", gk=gk, ck=ck, ok=ok, ik=ik) for gk in GATE_KINDS
                for ck, ok in APPLY_MODES for ik in CIRC_INFO_KINDS]

    def inputs(self, cx, case):
        circ, psi, info = new_circuit(cx, case.ik, contract=case.ck)
        for c in record_reqs(cx, psi, info).values():
            cx.assume(c)
        gate = mk_gate(cx, case.gk, cx.fields(psi)["L"])
        opts = {"plain": {}, "no-swap-back": {"swap_back": False}, "lazy": {"contract": "nonlocal", "method": "lazy"}}[case.ok]
        if case.ok == "lazy" and len(gate.qubits) + len(gate.controls) == 1:
            opts = {}  # CircuitMPSLazy applies one-qubit gates eagerly
        cx.assume(gate_in_domain(cx, circ, gate, opts))
        return dict(self=circ, gate=gate, tags=None, gate_opts=opts)

    def call(self, cx, name, args, kwargs, node):
        if name == "SPECIAL_GATES[gate.label]":
            label = cx.env["gate"].label
            if label == "IDEN":
                return None
            if label == "SWAP":
                return cx.call_contract(REGISTRY[ApplySwap.target], args, kwargs, node)
            raise Unsupported(f"special gate {label}")
        return super().call(cx, name, args, kwargs, node)

    # ---- callee use
    def call_reqs(self, cx, a):
        d = super().call_reqs(cx, a)
        d["one-site-gate-unitary-or-inside-the-record"] = gate_in_domain(cx, a.self, a.gate, a.gate_opts)
        # the per-call options this contract is proved for (APPLY_MODES): the shared record dict is never replaced,
        # the contract mode only switched to the lazy non-local one
        o = a.gate_opts
        d["per-call-options-keep-the-shared-record-and-an-MPS-mode"] = (
            set(o) <= {"swap_back", "contract", "method"} and ("contract" in o) == ("method" in o)
            and o.get("contract", "nonlocal") == "nonlocal" and o.get("method", "lazy") == "lazy")
        L = cx.fields(cx.fields(a.self)["_psi"])["L"]
        ws = a.gate.controls + a.gate.qubits
        d["gate-sites-distinct-and-on-the-chain"] = And(*([And(0 <= w, w < L) for w in ws] +
                                                         [ws[x] != ws[y] for x in range(len(ws)) for y in range(x)]))
        return d

    def modifies(self, a, case):
        return [(cx_psi, ["isL", "isR"]) for cx_psi in [a.__dict__["_psi"]]]

    def apply(self, cx, a, node, case=None):
        a.__dict__["_psi"] = cx.fields(a.self)["_psi"]
        return super().apply(cx, a, node, case)

    def pre_call(self, cx, a, node):
        merged = dict(cx.fields(a.self)["gate_opts"], **a.gate_opts)
        if merged.get("contract") == "swap+split" and (a.gate.controls or (not a.gate.special and len(a.gate.qubits) > 2)):
            raise PyRaise("ValueError", node.lineno)  # (proved: raise clauses of this contract; nothing is touched)

    def is_lazy(self, cx, a):
        merged = dict(cx.fields(a.self)["gate_opts"], **a.gate_opts)
        return merged.get("method") == "lazy" and merged.get("contract") == "nonlocal" and \
            (len(a.gate.qubits) + len(a.gate.controls) >= 2) and a.gate.label != "IDEN"

    def fresh_result(self, cx, a, case):
        f = cx.fields(a.self)
        psi, info = f["_psi"], f["gate_opts"].get("info")
        if self.is_lazy(cx, a):
            self.pending(cx)[psi.oid] = (0, cx.fields(psi)["L"] - 1)
        elif not (a.gate.label == "IDEN" or (len(a.gate.qubits) == 1 and not a.gate.controls)) and isinstance(info, dict):
            info["cur_orthog"] = (cx.Int("rec_a"), cx.Int("rec_b"))
        return None

    def ensures(self, a, r, cx, case):
        d = circuit_inv(cx, a.self)
        if self.is_lazy(cx, a):
            d["operator-left-pending"] = pending_of(cx, cx.fields(a.self)["_psi"])
        return d

    def ensures_raise(self, a, exc, cx, case):
        if exc == "ValueError":
            merged = dict(cx.fields(a.self)["gate_opts"], **a.gate_opts)
            swsp = merged.get("contract") == "swap+split"
            d = {"raise-ValueError-only-for-a-controlled-or-3-site-gate-in-swap+split-mode":
                 swsp and (bool(a.gate.controls) or (not a.gate.special and len(a.gate.qubits) > 2))}
            d.update(circuit_inv(cx, a.self))
            d["state-untouched"] = untouched(cx, cx.fields(a.self)["_psi"])
            return d
        return {f"no-raise-{exc}": False}


# ---- CircuitMPS ---------------------------------------------------------------------------------------------------


def psi_is_copy(a):
    return a.dtype is not None or not a.__dict__["_eager"]


class CircuitMethod(CircuitContract):
    """methods of CircuitMPS and subclasses; cases enumerate dtype (None | given), convert_eager, record kind"""

    contract_default = "auto-mps"
    lazy_class = False

    def base_cases(self):
        return [NS(name=f"dtype={dk},convert_eager={ce},info={ik}", dk=dk, ce=ce, ik=ik) for dk in ("None", "given")
                for ce in (True, False) for ik in CIRC_INFO_KINDS]

    def mk(self, cx, case, **extra):
        circ, psi, info = new_circuit(cx, case.ik, contract=self.contract_default, convert_eager=case.get("ce", True), **extra)
        for c in record_reqs(cx, psi, info).values():
            cx.assume(c)
        return circ, psi, info

    def dtype(self, cx, case):
        return None if case.dk == "None" else cx.Opaque("dtype")

    def apply(self, cx, a, node, case=None):
        a.__dict__["_eager"] = cx.fields(a.self)["convert_eager"]
        a.__dict__["_psi"] = cx.fields(a.self)["_psi"]
        return super().apply(cx, a, node, case)

    def entry(self, cx):
        return cx.ghost.get(("circ_in", self.target)) or cx.ghost["circ0"]

    needs_flat_state = False

    def call_reqs(self, cx, a):
        d = super().call_reqs(cx, a)
        if self.needs_flat_state:
            # the accessors of CircuitMPS read one tensor per site: no lazily applied operator may be pending
            d["no-lazily-applied-operator-pending"] = not pending_of(cx, cx.fields(a.self)["_psi"])
        return d


@register
class CircLocalExpectation(CircuitMethod):
    """CircuitMPS.local_expectation(G, where, normalized, dtype, ...): canonicalises around `where` and reads the local
    tensors.  convert_eager and dtype=None: self._psi itself is moved and the SHARED record follows it; otherwise a
    converted COPY is moved together with a COPY of the record -- the shared record and _psi are unchanged."""

    needs_flat_state = True
    target = f"{FC}::CircuitMPS.local_expectation"
    floor = 40

    def cases(self):
        return [NS(c.__dict__, name=c.name + f",where={wk}", wk=wk) for c in self.base_cases() for wk in ("int", "pair")]

    def inputs(self, cx, case):
        circ, psi, info = self.mk(cx, case)
        where = mk_where(cx, case.wk, cx.fields(psi)["L"])
        return dict(self=circ, G=cx.Opaque("G"), where=where, normalized=False, dtype=self.dtype(cx, case),
                    simplify_sequence=None, simplify_atol=None, simplify_equalize_norms=None, backend=None, rehearse=None,
                    contract_opts={}, _eager=case.ce)

    def call_reqs(self, cx, a):
        d = super().call_reqs(cx, a)
        L = cx.fields(cx.fields(a.self)["_psi"])["L"]
        lo, hi = where_range(a.where)
        d["sites-on-the-chain"] = And(0 <= lo, hi < L)
        return d

    def modifies(self, a, case):
        return [] if psi_is_copy(a) else [(a.__dict__["_psi"], ["isL", "isR"])]

    def fresh_result(self, cx, a, case):
        info = cx.fields(a.self)["gate_opts"].get("info")
        if not psi_is_copy(a):
            info["cur_orthog"] = (cx.Int("rec_a"), cx.Int("rec_b"))
        return cx.Opaque("expec")

    def ensures(self, a, r, cx, case):
        d = circuit_inv(cx, a.self)
        f = cx.fields(a.self)
        rec = rec_of(f["gate_opts"].get("info"))
        if psi_is_copy(a):
            d["shared-record-unchanged"] = same_record(cx, rec, self.entry(cx)["rec"])
            d["_psi-untouched"] = untouched(cx, f["_psi"])
        else:
            d["shared-record-is-a-pair"] = is_pair(rec)
            if is_pair(rec):
                lo, hi = where_range(a.where)
                d["shared-record-inside-where"] = And(lo <= rec[0], rec[0] <= rec[1], rec[1] <= hi)
        return d


@register
class CircFidelityEstimate(CircuitMethod):
    """reader: with a record it takes the norm of the sites cmin..cmax only -- requires the record to be true of _psi
    (obligation local-region-holds-the-centre, discharged from the class invariant) and ORDERED (it is read raw, without
    min / max; every record the library writes is ordered)."""

    needs_flat_state = True
    target = f"{FC}::CircuitMPS.fidelity_estimate"
    floor = 6

    def cases(self):
        return [NS(name=f"info={ik}", ik=ik) for ik in CIRC_INFO_KINDS]

    def inputs(self, cx, case):
        circ, psi, info = self.mk(cx, case)
        rec = rec_of(info)
        if is_pair(rec):
            cx.assume(rec[0] <= rec[1])
        return dict(self=circ)

    def call_reqs(self, cx, a):
        d = super().call_reqs(cx, a)
        rec = rec_of(cx.fields(a.self)["gate_opts"].get("info"))
        if is_pair(rec):
            d["record-ordered"] = rec[0] <= rec[1]
        return d

    def fresh_result(self, cx, a, case):
        return cx.Opaque("fidelity")

    def ensures(self, a, r, cx, case):
        d = circuit_inv(cx, a.self)
        f = cx.fields(a.self)
        d["shared-record-unchanged"] = same_record(cx, rec_of(f["gate_opts"].get("info")), self.entry(cx)["rec"])
        d["_psi-untouched"] = untouched(cx, f["_psi"])
        return d


@register
class CircSample(CircuitMethod):
    """CircuitMPS.sample: generator over psi.sample(C, seed) (psi = _psi or a converted copy): MatrixProductState.sample
    only reads its receiver and is handed no record -- _psi and the shared record are unchanged"""

    needs_flat_state = True
    target = f"{FC}::CircuitMPS.sample"
    floor = 20

    def cases(self):
        return self.base_cases()

    def sample_inputs(self, cx, case, **extra):
        circ, psi, info = self.mk(cx, case, **extra)
        d = dict(self=circ, C=cx.Int("C"), seed=None, dtype=self.dtype(cx, case), _eager=case.ce)
        for k in ("qubits", "order", "group_size", "max_marginal_storage", "optimize", "backend", "simplify_sequence",
                  "simplify_atol", "simplify_equalize_norms"):
            d[k] = None
        return d

    def inputs(self, cx, case):
        return self.sample_inputs(cx, case)

    def inv(self, v):
        cx = v.cx
        d = circuit_inv(cx, v.old.self)
        f = cx.fields(v.old.self)
        d["shared-record-unchanged"] = same_record(cx, rec_of(f["gate_opts"].get("info")), cx.ghost["circ0"]["rec"])
        d["_psi-untouched"] = untouched(cx, f["_psi"])
        return d

    @property
    def loops(self):
        return {0: Loop("for (config, _) in psi.sample(C, seed=seed)", self.inv)}

    def fresh_result(self, cx, a, case):
        return SymIter(If(a.C >= 0, a.C, 0), lambda t: cx.Opaque("bitstring"))

    def ensures(self, a, r, cx, case):
        d = circuit_inv(cx, a.self)
        f = cx.fields(a.self)
        d["shared-record-unchanged"] = same_record(cx, rec_of(f["gate_opts"].get("info")), self.entry(cx)["rec"])
        d["_psi-untouched"] = untouched(cx, f["_psi"])
        return d


@register
class CircGetPsi(CircuitMethod):
    needs_flat_state = True
    target = f"{FC}::CircuitMPS.get_psi"
    floor = 6

    def cases(self):
        return [NS(name=f"convert_eager={ce},info={ik}", ce=ce, ik=ik, dk="None") for ce in (True, False) for ik in CIRC_INFO_KINDS]

    def inputs(self, cx, case):
        circ, psi, info = self.mk(cx, case)
        return dict(self=circ)

    def fresh_result(self, cx, a, case):
        f = cx.fields(cx.fields(a.self)["_psi"])
        return cx.new_obj("MPS", L=f["L"], cyclic=f["cyclic"], isL=f["isL"], isR=f["isR"])

    def ensures(self, a, r, cx, case):
        d = circuit_inv(cx, a.self)
        f = cx.fields(a.self)
        d["returns-a-copy"] = isinstance(r, Ref) and r != f["_psi"]
        d["shared-record-unchanged"] = same_record(cx, rec_of(f["gate_opts"].get("info")), self.entry(cx)["rec"])
        d["_psi-untouched"] = untouched(cx, f["_psi"])
        return d


# ---- CircuitPermMPS -----------------------------------------------------------------------------------------------


class PermMethod(CircuitMethod):
    contract_default = "swap+split"

    def mk(self, cx, case, **extra):
        circ, psi, info = super().mk(cx, case, **extra)
        cx.fields(circ)["qubits"] = Perm(cx.fields(psi)["L"])
        return circ, psi, info


@register
class PermApplyGate(PermMethod):
    """CircuitPermMPS._apply_gate: translates the logical qubits to their physical sites, records the move a two-site
    gate without swap-back causes, and hands over to CircuitBase._apply_gate with swap_back=False: class invariant
    preserved.  (That the permutation bookkeeping matches the state is C07's matter.)  One-qubit gates: unitary."""

    target = f"{FC}::CircuitPermMPS._apply_gate"
    floor = 20
    supers = {"_apply_gate": ApplyGate.target}

    def cases(self):
        return [NS(name=f"gate={gk},info={ik}", gk=gk, ik=ik, ce=True) for gk in ("1q", "2q", "3q", "ctrl", "SWAP", "IDEN")
                for ik in CIRC_INFO_KINDS]

    def inputs(self, cx, case):
        circ, psi, info = self.mk(cx, case)
        gate = mk_gate(cx, case.gk, cx.fields(psi)["L"])
        cx.assume(unitary_of(cx, gate.array))
        return dict(self=circ, gate=gate, tags=None, gate_opts={})

    # ---- callee use
    def pre_call(self, cx, a, node):
        if a.gate.controls or (not a.gate.special and len(a.gate.qubits) > 2):
            raise PyRaise("ValueError", node.lineno)  # (proved: raise clauses of this contract; nothing is touched)

    def call_reqs(self, cx, a):
        d = super().call_reqs(cx, a)
        L = cx.fields(cx.fields(a.self)["_psi"])["L"]
        ws = a.gate.controls + a.gate.qubits
        d["gate-qubits-distinct-and-in-range"] = And(*([And(0 <= w, w < L) for w in ws] +
                                                      [ws[x] != ws[y] for x in range(len(ws)) for y in range(x)]))
        d["one-qubit-gate-unitary"] = unitary_of(cx, a.gate.array) if len(ws) == 1 else True
        d["no-per-call-options"] = not a.gate_opts
        return d

    def modifies(self, a, case):
        return [(a.__dict__["_psi"], ["isL", "isR"])]

    def fresh_result(self, cx, a, case):
        info = cx.fields(a.self)["gate_opts"].get("info")
        if not (a.gate.label == "IDEN" or len(a.gate.qubits) == 1) and isinstance(info, dict):
            info["cur_orthog"] = (cx.Int("rec_a"), cx.Int("rec_b"))
        return None

    def ensures(self, a, r, cx, case):
        return circuit_inv(cx, a.self)

    def ensures_raise(self, a, exc, cx, case):
        if exc == "ValueError":
            d = {"raise-ValueError-only-for-a-controlled-or-3-site-gate": bool(a.gate.controls) or
                 (not a.gate.special and len(a.gate.qubits) > 2)}
            d.update(circuit_inv(cx, a.self))
            d["state-untouched"] = untouched(cx, cx.fields(a.self)["_psi"])
            return d
        return {f"no-raise-{exc}": False}


@register
class PermLocalExpectation(PermMethod):
    target = f"{FC}::CircuitPermMPS.local_expectation"
    floor = 20
    supers = {"local_expectation": CircLocalExpectation.target}

    def cases(self):
        return [NS(c.__dict__, name=c.name + f",where={wk}", wk=wk) for c in self.base_cases() for wk in ("int", "pair")]

    def inputs(self, cx, case):
        circ, psi, info = self.mk(cx, case)
        where = mk_where(cx, case.wk, cx.fields(psi)["L"])
        if not is_int(where):
            cx.assume(where[0] != where[1])
        kw = {} if case.dk == "None" else {"dtype": cx.Opaque("dtype")}
        return dict(self=circ, G=cx.Opaque("G"), where=where, args=(), kwargs=kw, _eager=case.ce,
                    dtype=kw.get("dtype"))

    def ensures(self, a, r, cx, case):
        d = circuit_inv(cx, a.self)
        f = cx.fields(a.self)
        if psi_is_copy(a):
            d["shared-record-unchanged"] = same_record(cx, rec_of(f["gate_opts"].get("info")), self.entry(cx)["rec"])
            d["_psi-untouched"] = untouched(cx, f["_psi"])
        else:
            d["shared-record-is-a-pair"] = is_pair(rec_of(f["gate_opts"].get("info")))
        return d


@register
class PermSample(CircSample):
    target = f"{FC}::CircuitPermMPS.sample"
    contract_default = "swap+split"

    def inputs(self, cx, case):
        d = self.sample_inputs(cx, case)
        cx.fields(d["self"])["qubits"] = Perm(cx.fields(d["self"])["N"])
        return d


# ---- CircuitMPSLazy -----------------------------------------------------------------------------------------------


class LazyCounters(Counters):
    """_uncompressed_sites with its ghost `nonempty` kept in the circuit's heap record (havoc'd at loop heads)"""

    def __init__(self, heap_fields):
        self.h = heap_fields

    @property
    def nonempty(self):
        return self.h["_nonempty"]

    @nonempty.setter
    def nonempty(self, v):
        self.h["_nonempty"] = v


def lazy_inv(cx, circ):
    """CircuitMPSLazy: lazily applied operators pending => some site counter is non-zero (so the next _compress really
    compresses); nothing pending => the record is true of _psi"""
    f = cx.fields(circ)
    d = circuit_inv(cx, circ)
    if pending_of(cx, f["_psi"]):
        d["class-invariant:pending-operators-are-counted"] = f["_nonempty"]
    return d


class LazyMethod(CircuitMethod):
    ghost_fields = ("isL", "isR", "_nonempty")

    def lazy_cases(self, extra=((),)):
        return [NS(name=f"info={ik},pending={pd}", ik=ik, pd=pd, ce=True, dk="None") for ik in CIRC_INFO_KINDS for pd in (True, False)]

    def mk(self, cx, case, sweep="absent", **extra):
        psi_info = new_circuit(cx, case.ik, contract="auto-mps", convert_eager=case.get("ce", True))
        circ, psi, info = psi_info
        f = cx.fields(circ)
        f["_nonempty"] = cx.Bool("nonempty")
        f["_uncompressed_sites"] = LazyCounters(f)
        f["compress_every"] = cx.Int("compress_every")
        f["compress_opts"] = dict({"max_bond": cx.Opaque("max_bond"), "cutoff": cx.Opaque("cutoff"), "method": "dm"},
                                  **({} if sweep == "absent" else {"sweep_reverse": sweep}))
        if case.get("pd"):
            self.pending(cx)[psi.oid] = (0, cx.fields(psi)["L"] - 1)
            cx.assume(f["_nonempty"])
        else:
            for c in record_reqs(cx, psi, info).values():
                cx.assume(c)
        cx.ghost["circ0"]["pending"] = bool(case.get("pd"))
        return circ, psi, info

    def call_reqs(self, cx, a):
        f = cx.fields(a.self)
        d = super().call_reqs(cx, a)
        if pending_of(cx, f["_psi"]):
            d["class-invariant-pending-operators-are-counted"] = f["_nonempty"]
        return d

    def call(self, cx, name, args, kwargs, node):
        if name == "tensor_network_1d_compress" and isinstance(args[0], Ref) and args[0].kind == "MPS":
            # [assumed leaf, DESIGN C08 *A*] the whole chain: centre at site 0 (at L-1 if sweep_reverse), every lazily
            # applied operator contracted in
            mps = args[0]
            L = cx.fields(mps)["L"]
            if kwargs.get("inplace") is not True:
                raise Unsupported("tensor_network_1d_compress of the circuit state not in place")
            if kwargs.get("sweep_reverse", False):
                havoc_region(cx, mps, 0, L - 1, isL_in=lambda k: k < L - 1)
            else:
                havoc_region(cx, mps, 0, L - 1, isR_in=lambda k: k > 0)
            self.pending(cx).pop(mps.oid, None)
            return mps
        return super().call(cx, name, args, kwargs, node)


@register
class LazyCompress(LazyMethod):
    """CircuitMPSLazy._compress: nothing to do when no site counter is set; else the whole state is compressed in place and
    the shared record is WRITTEN: (0, 0), or (N-1, N-1) with sweep_reverse -- true of _psi by the compression leaf"""

    target = f"{FC}::CircuitMPSLazy._compress"
    floor = 20

    def cases(self):
        return [NS(c.__dict__, name=c.name + f",sweep_reverse={sr}", sr=sr) for c in self.lazy_cases() for sr in ("absent", True, False)]

    def inputs(self, cx, case):
        circ, psi, info = self.mk(cx, case, sweep=case.sr)
        cx.ghost["nonempty0"] = cx.fields(circ)["_nonempty"]
        return dict(self=circ)

    def modifies(self, a, case):
        return [(a.__dict__["_psi"], ["isL", "isR"]), (a.self, ["_nonempty"])]

    def snapshot(self, cx, a):
        super().snapshot(cx, a)
        cx.ghost["nonempty0"] = cx.fields(a.self)["_nonempty"]
        cx.ghost[("pending_in", self.target)] = pending_of(cx, cx.fields(a.self)["_psi"])

    def fresh_result(self, cx, a, case):
        f = cx.fields(a.self)
        info = f["gate_opts"].get("info")
        rec0 = rec_of(info)
        ne = cx.ghost["nonempty0"]
        # (when nothing was counted, nothing is pending -- class invariant -- and nothing changes)
        was_pending = cx.ghost[("pending_in", self.target)]
        self.pending(cx).pop(f["_psi"].oid, None)
        if was_pending or not is_pair(rec0):
            # the counters were set (pending => counted) or the record kind may change: model the compressing branch
            # when counted, else leave everything
            if cx.decide(ne, 0):
                info["cur_orthog"] = (cx.Int("rec_a"), cx.Int("rec_b"))
        else:
            ra, rb = cx.Int("rec_a"), cx.Int("rec_b")
            cx.assume(Implies(Not(ne), And(ra == rec0[0], rb == rec0[1])))
            info["cur_orthog"] = (ra, rb)
        return None

    def ensures(self, a, r, cx, case):
        f = cx.fields(a.self)
        psi, info = f["_psi"], f["gate_opts"].get("info")
        d = circuit_inv(cx, a.self)
        d["nothing-pending-afterwards"] = not pending_of(cx, psi)
        ne0 = cx.ghost["nonempty0"]
        rec, rec0 = rec_of(info), self.entry(cx)["rec"]
        sr = bool(f["compress_opts"].get("sweep_reverse", False))
        c = f["N"] - 1 if sr else 0
        if is_pair(rec):
            d["record-is-the-first-site-(last-if-sweep_reverse)-after-a-compression"] = Implies(ne0, And(rec[0] == c, rec[1] == c))
        d["counters-cleared"] = Not(f["_nonempty"])
        d["no-compression-without-counted-gates"] = Implies(Not(ne0), And(untouched(cx, psi), same_record(cx, rec, rec0)))
        d["record-written-by-a-compression"] = Implies(ne0, is_pair(rec))
        return d


class LazyDelegating(LazyMethod):
    """`self._compress(); return super().method(...)`: the pending operators are flushed first, so the parent method
    finds (and keeps) a true record"""

    own_methods = {"_compress": LazyCompress.target}

    def cases(self):
        return self.lazy_cases()

    # ---- callee use: everything of _psi and the record may change (a compression), the result is opaque / a copy
    def modifies(self, a, case):
        return [(a.__dict__["_psi"], ["isL", "isR"]), (a.self, ["_nonempty"])]

    def fresh_result(self, cx, a, case):
        f = cx.fields(a.self)
        psi, info = f["_psi"], f["gate_opts"].get("info")
        if isinstance(info, dict) and (is_pair(rec_of(info)) or cx.decide(cx.Bool("compressed_first"), 0)):
            info["cur_orthog"] = (cx.Int("rec_a"), cx.Int("rec_b"))
        self.pending(cx).pop(psi.oid, None)
        return self.result_value(cx, a)

    def result_value(self, cx, a):
        return cx.Opaque("value")

    def ensures(self, a, r, cx, case):
        d = lazy_inv(cx, a.self)
        d["nothing-pending-afterwards"] = not pending_of(cx, cx.fields(a.self)["_psi"])
        return d


@register
class LazyLocalExpectation(LazyDelegating):
    target = f"{FC}::CircuitMPSLazy.local_expectation"
    floor = 10
    supers = {"local_expectation": CircLocalExpectation.target}

    def inputs(self, cx, case):
        circ, psi, info = self.mk(cx, case)
        return dict(self=circ, G=cx.Opaque("G"), where=mk_where(cx, "pair", cx.fields(psi)["L"]), args=(), kwargs={})


@register
class LazyFidelityEstimate(LazyDelegating):
    target = f"{FC}::CircuitMPSLazy.fidelity_estimate"
    floor = 8
    supers = {"fidelity_estimate": CircFidelityEstimate.target}

    def inputs(self, cx, case):
        circ, psi, info = self.mk(cx, case)
        rec = rec_of(info)
        if is_pair(rec):
            cx.assume(rec[0] <= rec[1])
        return dict(self=circ)


@register
class LazyGetPsi(LazyDelegating):
    target = f"{FC}::CircuitMPSLazy.get_psi"
    floor = 8
    supers = {"get_psi": CircGetPsi.target}

    def result_value(self, cx, a):
        return new_mps(cx, "copy", L=cx.fields(cx.fields(a.self)["_psi"])["L"])

    def inputs(self, cx, case):
        circ, psi, info = self.mk(cx, case)
        return dict(self=circ)


@register
class LazySample(LazyDelegating):
    target = f"{FC}::CircuitMPSLazy.sample"
    floor = 8
    supers = {"sample": CircSample.target}

    def inputs(self, cx, case):
        circ, psi, info = self.mk(cx, case)
        return dict(self=circ, C=cx.Int("C"), args=(), kwargs={})


@register
class LazyApplyGate(LazyMethod):
    """CircuitMPSLazy._apply_gate: one-qubit gates are applied eagerly (parent route); a gate on >= 2 qubits first
    triggers _compress() if a site of its span already carries compress_every pending gates, then counts itself on every
    site of its span and is attached lazily (contract='nonlocal', method='lazy'): afterwards an operator is pending AND
    counted -- the next accessor compresses and re-establishes the record.  One-qubit gates: unitary."""

    target = f"{FC}::CircuitMPSLazy._apply_gate"
    floor = 30
    supers = {"_apply_gate": ApplyGate.target}
    own_methods = {"_compress": LazyCompress.target}

    def cases(self):
        return [NS(c.__dict__, name=c.name + f",gate={gk}", gk=gk) for c in self.lazy_cases() for gk in ("1q", "2q", "3q", "ctrl")]

    def inputs(self, cx, case):
        circ, psi, info = self.mk(cx, case)
        gate = mk_gate(cx, case.gk, cx.fields(psi)["L"])
        cx.assume(unitary_of(cx, gate.array))
        return dict(self=circ, gate=gate, tags=None, gate_opts={})

    def inv0(self, v):
        return lazy_inv(v.cx, v.old.self)

    def inv1(self, v):
        d = lazy_inv(v.cx, v.old.self)
        d["a-counted-site-after-the-first-iteration"] = Implies(v._it1 > 0, v.cx.fields(v.old.self)["_nonempty"])
        d["site-range"] = v.site >= v.min_site
        return d

    @property
    def loops(self):
        return {0: Loop("for site in range(min_site, max_site + 1)", self.inv0),
                1: Loop("for site in range(min_site, max_site + 1)", self.inv1)}

    # ---- callee use
    def call_reqs(self, cx, a):
        d = super().call_reqs(cx, a)
        L = cx.fields(cx.fields(a.self)["_psi"])["L"]
        ws = a.gate.controls + a.gate.qubits
        d["gate-qubits-distinct-and-in-range"] = And(*([And(0 <= w, w < L) for w in ws] +
                                                      [ws[x] != ws[y] for x in range(len(ws)) for y in range(x)]))
        d["one-qubit-gate-unitary"] = unitary_of(cx, a.gate.array) if len(ws) == 1 else True
        d["no-per-call-options"] = not a.gate_opts
        return d

    def modifies(self, a, case):
        return [(a.__dict__["_psi"], ["isL", "isR"]), (a.self, ["_nonempty"])]

    def fresh_result(self, cx, a, case):
        f = cx.fields(a.self)
        psi, info = f["_psi"], f["gate_opts"].get("info")
        if len(a.gate.qubits) + len(a.gate.controls) >= 2:
            # a compression may have happened first (then the record was rewritten); the operator is attached lazily
            if isinstance(info, dict) and (is_pair(rec_of(info)) or cx.decide(cx.Bool("compressed_first"), 0)):
                info["cur_orthog"] = (cx.Int("rec_a"), cx.Int("rec_b"))
            self.pending(cx)[psi.oid] = (0, cx.fields(psi)["L"] - 1)
        return None

    def ensures(self, a, r, cx, case):
        d = lazy_inv(cx, a.self)
        if len(a.gate.qubits) + len(a.gate.controls) >= 2:
            d["operator-left-pending-and-counted"] = And(pending_of(cx, cx.fields(a.self)["_psi"]), cx.fields(a.self)["_nonempty"])
        return d


# ---- methods that reach the state through overridable methods: receiver class enumerated -------------------------------

CLASS_KINDS = ("mps", "perm", "lazy")
APPLY_GATE_OF = {"mps": ApplyGate.target, "perm": PermApplyGate.target, "lazy": LazyApplyGate.target}
GET_PSI_OF = {"mps": CircGetPsi.target, "lazy": LazyGetPsi.target}


class ByClass(LazyMethod):
    """inherited CircuitMPS methods whose body calls an overridable method (`self._apply_gate`, `self.psi`): the dynamic
    class of the receiver is a case; `lazy` receivers carry the CircuitMPSLazy fields and invariant"""

    def mk_by_class(self, cx, case):
        self._cls = case.cls
        if case.cls == "lazy":
            return LazyMethod.mk(self, cx, case)
        circ, psi, info = CircuitMethod.mk(self, cx, case)
        if case.cls == "perm":
            cx.fields(circ)["qubits"] = Perm(cx.fields(psi)["L"])
            cx.fields(circ)["gate_opts"]["contract"] = "swap+split"
        return circ, psi, info

    def inv_of(self, cx, circ):
        return lazy_inv(cx, circ) if self._cls == "lazy" else circuit_inv(cx, circ)

    def call(self, cx, name, args, kwargs, node):
        if name == "parse_to_gate" and args and isinstance(args[0], GateObj):
            return args[0]
        if name == "._apply_gate" and isinstance(args[0], Ref) and args[0].kind == "Circuit":
            return cx.call_contract(REGISTRY[APPLY_GATE_OF[self._cls]], args[1:], kwargs, node, recv=args[0])
        if name == "map" and isinstance(args[0], BoundMethod) and args[0].recv.kind == "Circuit":
            return cx.Opaque("inds")
        if name == "tuple" and len(args) == 1 and isinstance(args[0], Opaque):
            return cx.Opaque("inds")
        if name == ".conj" and isinstance(args[0], Ref) and args[0].kind == "MPS":
            return cx.Opaque("bra")  # a new network; the receiver is only read
        return super().call(cx, name, args, kwargs, node)

    def attr(self, cx, base, attr, node):
        if isinstance(base, Ref) and base.kind == "Circuit":
            if attr == "psi":
                # property: get_psi() of the receiver's class (CircuitPermMPS.get_psi relabels a copy: like CircuitMPS)
                tgt = GET_PSI_OF["lazy" if self._cls == "lazy" else "mps"]
                return cx.call_contract(REGISTRY[tgt], [], {}, node, recv=base)
            if attr in ("ket_site_ind", "bra_site_ind"):
                return BoundMethod(base, attr)
        return super().attr(cx, base, attr, node)


@register
class CircApplyGates(ByClass):
    """CircuitMPS.apply_gates(gates, progbar=False, **gate_opts): loop over a sequence of symbolic length, every gate goes
    through self._apply_gate (dynamic class: CircuitMPS -> CircuitBase._apply_gate, CircuitPermMPS, CircuitMPSLazy): the
    class invariant is the loop invariant.  (One-site gates unitary; the gates of one sequence are of one kind per case.)"""

    target = f"{FC}::CircuitMPS.apply_gates"
    floor = 30
    raises = {"ValueError": True}

    def cases(self):
        return [NS(name=f"class={cl},gate={gk},info={ik}", cls=cl, gk=gk, ik=ik, ce=True, dk="None", pd=False)
                for cl in CLASS_KINDS for gk in ("1q", "2q", "3q") for ik in CIRC_INFO_KINDS]

    def inputs(self, cx, case):
        circ, psi, info = self.mk_by_class(cx, case)
        L = cx.fields(psi)["L"]
        n = cx.Int("ngates")
        cx.assume(n >= 0)

        def getter(t):
            g = mk_gate(cx, case.gk, L)
            cx.assume(unitary_of(cx, g.array))
            return g

        return dict(self=circ, gates=SymIter(n, getter), progbar=False, gate_opts={})

    def fork_pending(self, cx):
        """arbitrary iteration of a CircuitMPSLazy receiver: a lazily attached operator may or may not be pending"""
        psi = cx.ghost["circ0"]["psi"]
        if self._cls == "lazy" and cx.decide(cx.Bool("pending_at_loop_head"), 0):
            self.pending(cx)[psi.oid] = (0, cx.fields(psi)["L"] - 1)
        else:
            self.pending(cx).pop(psi.oid, None)
        return None

    def inv(self, v):
        return self.inv_of(v.cx, v.old.self)

    @property
    def loops(self):
        return {0: Loop("for gate in gates", self.inv, retype={"gate": self.fork_pending})}

    def ensures(self, a, r, cx, case):
        return self.inv_of(cx, a.self)

    def ensures_raise(self, a, exc, cx, case):
        if exc == "ValueError":
            # CircuitPermMPS rejects gates on more than two qubits (unpacking ValueError, nothing touched by that gate)
            d = {"raise-ValueError-only-for-a-3-site-gate-on-CircuitPermMPS": case.cls == "perm" and case.gk == "3q"}
            d.update(self.inv_of(cx, a.self))
            return d
        return {f"no-raise-{exc}": False}


@register
class CircPartialTrace(ByClass):
    """CircuitMPS.partial_trace(keep, ...): contracts a COPY (self.psi); no record is threaded: _psi and the shared record
    are as before -- except that a CircuitMPSLazy receiver first flushes its pending operators (get_psi -> _compress)"""

    target = f"{FC}::CircuitMPS.partial_trace"
    floor = 10

    def cases(self):
        return [NS(name=f"class={cl},info={ik},pending={pd},keep={kk}", cls=cl, ik=ik, pd=pd, kk=kk, ce=True, dk="None")
                for cl in ("mps", "lazy") for ik in CIRC_INFO_KINDS for pd in ((False, True) if cl == "lazy" else (False,))
                for kk in ("int", "pair")]

    def inputs(self, cx, case):
        circ, psi, info = self.mk_by_class(cx, case)
        keep = mk_where(cx, case.kk, cx.fields(psi)["L"], base="keep")
        return dict(self=circ, keep=keep, optimize="auto-hq", backend=None, dtype=None)

    def ensures(self, a, r, cx, case):
        d = self.inv_of(cx, a.self)
        f = cx.fields(a.self)
        d["nothing-pending-afterwards"] = not pending_of(cx, f["_psi"])
        if case.cls != "lazy":
            d["shared-record-unchanged"] = same_record(cx, rec_of(f["gate_opts"].get("info")), cx.ghost["circ0"]["rec"])
            d["_psi-untouched"] = untouched(cx, f["_psi"])
        return d
