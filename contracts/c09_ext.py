"""C09 extension: the 1D compression dispatcher and the threading of the truncation options through every 1D compression
method of quimb/tensor/tn1d/compress.py (providers; the real source is re-read from the checkout on every run).

provider_dispatch (fdx, backend 'exhaustive'):
    the REAL ast of ``_TN1D_COMPRESS_METHODS`` and of ``tensor_network_1d_compress`` is compiled unchanged and executed in
    a namespace in which every name the table refers to (and tensor_network_ag_compress / possibly_permute_ / warnings)
    is a recording stub.  The function is then run on its complete finite domain of discrete arguments: every key of the
    table (+ every method name the docstring documents) x canonize x sweep_reverse x inplace x equalize_norms kind x
    permute_arrays kind, all remaining arguments being unique sentinel objects compared by identity.  Decided:
      dispatch[<key>]      exactly one call, to the method function the NAMING RULE promises for the key
                           ('tensor_network_1d_compress_' + key with '-' -> '_', the documented alias '-first' ==
                           '-oversample'), positional tn, every option handed on unchanged (identity), nothing dropped or
                           added, extra **kwargs handed on, the callee's result returned unchanged, no generic route taken
      documented-methods   every method name the docstring of the dispatcher lists is a key of the table
      table-values         every value of the table is a module-level def of compress.py or a functools.partial of
                           tensor_network_1d_compress_fit_guess whose guess= equals the key's suffix ('fit-<guess>')
      generic-fallback     a method name outside the table goes to tensor_network_ag_compress exactly once with max_bond,
                           cutoff, method, site_tags, canonize, optimize, equalize_norms, inplace and **kwargs unchanged;
                           possibly_permute_(result, permute_arrays) iff permute_arrays is truthy; result returned
      defaults             f(tn) alone reaches the 'dm' method with the documented defaults (cutoff 1e-10, canonize True, ...)

provider_threading (frame, backend 'ast'): for EVERY module-level function of compress.py that declares one of the
    truncation options (max_bond, cutoff, cutoff_mode) -- found by reflection, no name list -- one obligation per
    (function, option), path-insensitive over the real ast:
      T1 the parameter is never rebound in the function;
      T2 every keyword ``opt=<expr>`` of every call in the function is ``opt=opt`` -- the only other source allowed is the
         declared first-stage parameter of the two-stage methods (STAGED below: '<opt>_oversample', 'cutoff_fit'), and then
         the function's LAST statement must be ``return <call>(..., opt=opt, ...)`` (the final stage gets the real option);
      T3 an option carried in a dict (``D.setdefault("<opt>", v)``) has v == the parameter, the setdefault is unconditional
         (directly in the function body) unless DECLARED conditional, D is bound exactly once, never written otherwise
         (no D[...] = , pop, update, clear, del), and EVERY truncating leaf of the function -- every ``.split(`` /
         ``.compress_between(`` / tensor_compress_bond / tensor_split call that receives **D or sits after the setdefault
         -- receives ``**D``;
      T4 the option is delivered at least once (keyword opt=opt, positional opt / opt inside a tuple argument, or **carrier)
         -- unless the function documents that it ignores / rejects the option by the guard ``if <opt> != 0.0:
         warnings.warn(...)`` / ``raise`` directly in its body.
    Declared special cases (tables below): GUESS_STAGE (fit_guess: cutoff -> guess, cutoff_fit -> fit), GUESS_SPEC_CARRIER
    (srcmps: user-supplied tn_fit specification completed with the caller's options), CONDITIONAL_CARRIER, NOT_COVERED.
"""
import ast
import functools
import itertools
import os
import time
import __future__

from vf.framework import ObResult

REL = "quimb/tensor/tn1d/compress.py"
DISPATCH = "tensor_network_1d_compress"
TABLE = "_TN1D_COMPRESS_METHODS"
PREFIX = "tensor_network_1d_compress_"
TRACKED = ("max_bond", "cutoff", "cutoff_mode")


def repo_root():
    return os.environ.get("VERIF_REPO", "/repo")


def _load(root):
    with open(os.path.join(root, REL)) as f:
        src = f.read()
    return src, ast.parse(src)


# ======================================================================================================
# provider 1: dispatcher (fdx)
# ======================================================================================================

def expected_function(key):
    """NAMING RULE (the specification of the table): the documented alias '<m>-first' == '<m>-oversample'"""
    if key.endswith("-first"):
        key = key[: -len("-first")] + "-oversample"
    return PREFIX + key.replace("-", "_")


class _Sent:
    def __init__(self, name):
        self.name = name

    def __repr__(self):
        return f"<{self.name}>"


class _Rec:
    """recording namespace for the real dispatcher"""

    def __init__(self, names):
        self.calls = []
        self.ns = {}
        for nm in names:
            self.ns[nm] = self._stub(nm)
        self.ns["tensor_network_ag_compress"] = self._stub("tensor_network_ag_compress")
        self.ns["possibly_permute_"] = self._stub("possibly_permute_")
        rec = self

        class _W:
            @staticmethod
            def warn(*a, **k):
                rec.calls.append(("warnings.warn", a, k, None))

        self.ns["warnings"] = _W

    def _stub(self, nm):
        def stub(*a, **k):
            r = _Sent("result-of-" + nm)
            self.calls.append((nm, a, k, r))
            return r
        stub.__name__ = nm
        return stub


def _compile_dispatcher(tree):
    """the real table display + the real FunctionDef, compiled unchanged (annotations not evaluated)"""
    table = fn = None
    for node in tree.body:
        if isinstance(node, ast.Assign) and any(isinstance(t, ast.Name) and t.id == TABLE for t in node.targets):
            table = node
        if isinstance(node, ast.FunctionDef) and node.name == DISPATCH:
            fn = node
    if table is None or fn is None:
        raise LookupError(f"{TABLE} / {DISPATCH} not found at module level")
    if not isinstance(table.value, ast.Dict):
        raise LookupError(f"{TABLE} is not a dict display")
    keys, vals = [], []
    for k, v in zip(table.value.keys, table.value.values):
        if not (isinstance(k, ast.Constant) and isinstance(k.value, str)):
            raise LookupError("table key is not a string literal")
        keys.append(k.value)
        vals.append(v.id if isinstance(v, ast.Name) else None)
    mod = ast.Module(body=[table, fn], type_ignores=[])
    code = compile(mod, os.path.join("<real>", REL), "exec", flags=__future__.annotations.compiler_flag, dont_inherit=True)
    return code, keys, vals, fn


OPTION_NAMES = ("max_bond", "cutoff", "site_tags", "canonize", "permute_arrays", "optimize", "sweep_reverse", "equalize_norms",
                "inplace")
AG_OPTION_NAMES = ("max_bond", "cutoff", "method", "site_tags", "canonize", "optimize", "equalize_norms", "inplace")


def _domain():
    """complete finite domain of the discrete arguments (kinds of the union-typed ones)"""
    return itertools.product((True, False), (True, False), (True, False), (False, True, 1.0), (True, False, "lrp"))


def _run(code, names, method, flags, extra=True, bare=False):
    rec = _Rec([n for n in names if n])
    ns = rec.ns
    exec(code, ns)  # noqa: S102 -- the real ast
    f = ns[DISPATCH]
    tn = _Sent("tn")
    if bare:
        return rec, f(tn), tn, {}, {}
    canonize, sweep_reverse, inplace, eqn, perm = flags
    opts = dict(max_bond=_Sent("max_bond"), cutoff=_Sent("cutoff"), site_tags=_Sent("site_tags"), canonize=canonize,
                permute_arrays=perm, optimize=_Sent("optimize"), sweep_reverse=sweep_reverse, equalize_norms=eqn, inplace=inplace)
    kw = dict(cutoff_mode=_Sent("cutoff_mode"), compress_opts=_Sent("compress_opts"), bsz=_Sent("bsz")) if extra else {}
    out = f(tn, method=method, **opts, **kw)
    return rec, out, tn, opts, kw


def _same(a, b):
    return a is b or (type(a) is type(b) and isinstance(a, (bool, float, str)) and a == b)


def _check_1d(rec, out, tn, opts, kw, want_fn):
    calls = rec.calls
    if len(calls) != 1:
        return f"{len(calls)} calls recorded: {[c[0] for c in calls]}"
    nm, a, k, r = calls[0]
    if nm != want_fn:
        return f"dispatched to {nm}, the naming rule promises {want_fn}"
    if not (len(a) == 1 and a[0] is tn):
        return f"positional arguments {a!r} (expected the network only)"
    want = dict(opts)
    want.update(kw)
    if set(k) != set(want):
        return f"keyword set differs: missing {sorted(set(want) - set(k))} extra {sorted(set(k) - set(want))}"
    for key, v in want.items():
        if not _same(k[key], v):
            return f"option {key} arrives as {k[key]!r}, caller passed {v!r}"
    if out is not r:
        return f"returned {out!r}, not the result of {nm}"
    return None


def _check_ag(rec, out, tn, opts, kw, method):
    ag = [c for c in rec.calls if c[0] == "tensor_network_ag_compress"]
    pp = [c for c in rec.calls if c[0] == "possibly_permute_"]
    other = [c[0] for c in rec.calls if c[0] not in ("tensor_network_ag_compress", "possibly_permute_", "warnings.warn")]
    if other:
        return f"a 1D method was called for a name outside the table: {other}"
    if len(ag) != 1:
        return f"{len(ag)} calls of tensor_network_ag_compress"
    _, a, k, r = ag[0]
    if not (len(a) == 1 and a[0] is tn):
        return f"positional arguments {a!r}"
    want = {n: opts[n] for n in AG_OPTION_NAMES if n != "method"}
    want["method"] = method
    want.update(kw)
    if set(k) != set(want):
        return f"keyword set differs: missing {sorted(set(want) - set(k))} extra {sorted(set(k) - set(want))}"
    for key, v in want.items():
        if not _same(k[key], v):
            return f"option {key} arrives as {k[key]!r}, caller passed {v!r}"
    if bool(opts["permute_arrays"]):
        if not (len(pp) == 1 and len(pp[0][1]) == 2 and pp[0][1][0] is r and _same(pp[0][1][1], opts["permute_arrays"]) and not pp[0][2]):
            return f"permute_arrays={opts['permute_arrays']!r}: possibly_permute_ calls {[(c[1], c[2]) for c in pp]!r}"
    elif pp:
        return "permute_arrays falsy but possibly_permute_ was called"
    if out is not r:
        return f"returned {out!r}, not the compressed network"
    return None


def _documented_methods(fn):
    """method names listed in the docstring of the real dispatcher: ``"name"`` inside the 'method :' parameter block"""
    import re
    doc = ast.get_docstring(fn) or ""
    m = re.search(r"\n\s*method : .*?\n(.*?)\n\s*site_tags : ", doc, re.S)
    block = m.group(1) if m else ""
    block = block.split("Oversampling methods")[0]
    return [x for x in re.findall(r'``"([^"`]+)"``', block) if "{" not in x]


GENERIC_NAMES = ("local-early", "local-late", "projector", "superorthogonal", "l2bp", "", "DM", "direct ", None)


def provider_dispatch(tier="quick", root=None):
    root = root or repo_root()
    fid = f"{REL}::{DISPATCH}"
    t0 = time.time()

    def ob(label, status, model=None, detail=None, t=None):
        return ObResult(f"{fid}::{label}", "fdx", status, "exhaustive", time.time() - (t or t0), function=fid, model=model,
                        detail=detail, engine="fdx")

    try:
        src, tree = _load(root)
        code, keys, vals, fn = _compile_dispatcher(tree)
    except Exception as e:  # noqa
        return [ob("load", "unknown", detail=f"cannot load the dispatcher: {type(e).__name__}: {e}")]
    obs = []
    names = [v for v in vals if v]
    # ---- table-values
    t1 = time.time()
    defs = {n.name for n in tree.body if isinstance(n, ast.FunctionDef)}
    partials = {}
    for n in tree.body:
        if isinstance(n, ast.Assign) and len(n.targets) == 1 and isinstance(n.targets[0], ast.Name) and isinstance(n.value, ast.Call):
            c = n.value
            if ast.unparse(c.func) == "functools.partial" and len(c.args) == 1 and isinstance(c.args[0], ast.Name):
                partials[n.targets[0].id] = (c.args[0].id, {k.arg: (k.value.value if isinstance(k.value, ast.Constant) else ast.unparse(k.value))
                                                            for k in c.keywords})
    bad = None
    if len(set(keys)) != len(keys):
        bad = dict(problem="duplicate key in the table", keys=keys)
    for k, v in zip(keys, vals):
        if bad:
            break
        if v is None:
            bad = dict(key=k, problem="value is not a plain name")
        elif v in defs:
            continue
        elif v in partials:
            base, kws = partials[v]
            if not (base == PREFIX + "fit_guess" and base in defs and k.startswith("fit-") and kws == {"guess": k[len("fit-"):]}):
                bad = dict(key=k, value=v, partial_of=base, keywords=kws, problem="partial does not bind guess= to the key's suffix")
        else:
            bad = dict(key=k, value=v, problem="neither a module-level def nor a functools.partial of one")
    obs.append(ob("table-values", "failed" if bad else "discharged", model=bad, t=t1))
    # ---- documented-methods
    t1 = time.time()
    documented = _documented_methods(fn)
    missing = [m for m in documented if m not in keys]
    obs.append(ob("documented-methods", "failed" if (missing or len(documented) < 10) else "discharged",
                  model=dict(documented=documented, not_in_table=missing) if (missing or len(documented) < 10) else None, t=t1))
    # ---- dispatch[key]: every key of the table and every documented name
    for key in list(dict.fromkeys(keys + documented)):
        t1 = time.time()
        want_fn = expected_function(key)
        cex = None
        try:
            for flags in _domain():
                for extra in (True, False):
                    rec, out, tn, opts, kw = _run(code, names + [want_fn], key, flags, extra)
                    why = _check_1d(rec, out, tn, opts, kw, want_fn)
                    if why:
                        cex = dict(method=key, canonize=flags[0], sweep_reverse=flags[1], inplace=flags[2], equalize_norms=flags[3],
                                   permute_arrays=flags[4], extra_kwargs=sorted(kw), observed=why)
                        break
                if cex:
                    break
        except Exception as e:  # noqa
            cex = dict(method=key, observed=f"{type(e).__name__}: {e}")
        obs.append(ob(f"dispatch[{key}]", "failed" if cex else "discharged", model=cex, t=t1))
    # ---- generic fallback
    t1 = time.time()
    cex = None
    try:
        for method in GENERIC_NAMES:
            for flags in _domain():
                rec, out, tn, opts, kw = _run(code, names, method, flags, True)
                why = _check_ag(rec, out, tn, opts, kw, method)
                if why:
                    cex = dict(method=method, canonize=flags[0], sweep_reverse=flags[1], inplace=flags[2], equalize_norms=flags[3],
                               permute_arrays=flags[4], observed=why)
                    break
            if cex:
                break
    except Exception as e:  # noqa
        cex = dict(observed=f"{type(e).__name__}: {e}")
    obs.append(ob("generic-fallback", "failed" if cex else "discharged", model=cex, t=t1))
    # ---- defaults
    t1 = time.time()
    cex = None
    try:
        rec, out, tn, _, _ = _run(code, names, None, None, bare=True)
        want = dict(max_bond=None, cutoff=1e-10, site_tags=None, canonize=True, permute_arrays=True, optimize="auto-hq",
                    sweep_reverse=False, equalize_norms=False, inplace=False)
        if len(rec.calls) != 1 or rec.calls[0][0] != PREFIX + "dm":
            cex = dict(observed=f"calls {[c[0] for c in rec.calls]}", expected=PREFIX + "dm")
        else:
            k = rec.calls[0][2]
            diff = {n: (k.get(n, "<absent>"), v) for n, v in want.items() if not (n in k and _same(k[n], v))}
            if diff or set(k) != set(want) or out is not rec.calls[0][3]:
                cex = dict(observed={n: repr(a) for n, (a, b) in diff.items()}, keywords=sorted(k))
    except Exception as e:  # noqa
        cex = dict(observed=f"{type(e).__name__}: {e}")
    obs.append(ob("defaults", "failed" if cex else "discharged", model=cex, t=t1))
    return obs


# ======================================================================================================
# provider 2: threading of max_bond / cutoff / cutoff_mode (ast)
# ======================================================================================================

# first-stage sources of the two-stage methods (documented: "Oversampling methods first compress to max_bond_oversample
# ... then compress to max_bond using a direct sweep"; fit_guess: "use cutoff in guess, but not in fitting")
STAGED = {"max_bond": ("max_bond_oversample",), "cutoff": ("cutoff_oversample", "cutoff_fit")}
# setdefault of an option that is DECLARED conditional: (function, option) -> source text of the guarding test
CONDITIONAL_CARRIER = {(PREFIX + "fit", "cutoff_mode"): "bsz == 2"}
# NOT covered (reported in the index entry): the bond / cutoff schedule of the variational fit
NOT_COVERED = {(PREFIX + "fit", "max_bond"): "bond-dimension schedule (current_bond_dim doubles up to max_bond; None -> inf / guess)",
               (PREFIX + "fit", "cutoff"): "cutoff None -> default by block size",
               ("mps_gate_with_mpo_autofit", "max_bond"): "builds an ansatz of that bond dimension (no truncating leaf)",
               ("mps_gate_with_mpo_autofit", "cutoff"): "ignored with a warning, then not used"}
# documented guess stage: fit_guess hands `cutoff` to the guess method (inside the tn_fit specification) and `cutoff_fit` to the fit
GUESS_STAGE = {(PREFIX + "fit_guess", "cutoff"): "cutoff_fit"}
# the user-supplied specification dict of the sampling MPS of srcmps (completed with the caller's options when given as dict / str)
GUESS_SPEC_CARRIER = {(PREFIX + "srcmps", "max_bond", "tn_fit"), (PREFIX + "srcmps", "cutoff", "tn_fit")}
LEAF_ATTRS = ("split", "compress_between", "compress_between_")
LEAF_NAMES = ("tensor_split", "tensor_compress_bond")


def _params(fn):
    a = fn.args
    return [x.arg for x in a.posonlyargs + a.args + a.kwonlyargs]


def _callee(c):
    f = c.func
    if isinstance(f, ast.Name):
        return f.id
    if isinstance(f, ast.Attribute):
        return "." + f.attr
    return ast.unparse(f)


def _is_leaf(c):
    f = c.func
    return (isinstance(f, ast.Attribute) and f.attr in LEAF_ATTRS) or (isinstance(f, ast.Name) and f.id in LEAF_NAMES)


def analyse_threading(fn, opt):
    """-> list of problems (empty = discharged) for option `opt` of the real FunctionDef `fn`"""
    problems = []
    name = fn.name
    walk = list(ast.walk(fn))
    # T1
    for n in walk:
        if isinstance(n, ast.Name) and n.id == opt and isinstance(n.ctx, (ast.Store, ast.Del)):
            problems.append(f"T1 line {n.lineno}: parameter {opt} is rebound")
        if isinstance(n, (ast.FunctionDef, ast.Lambda)) and n is not fn and opt in _params(n):
            problems.append(f"T1 line {n.lineno}: nested function shadows {opt}")
    calls = [n for n in walk if isinstance(n, ast.Call)]
    delivered = 0
    staged_used = []
    # T2
    for c in calls:
        for k in c.keywords:
            if k.arg != opt:
                continue
            v = k.value
            if isinstance(v, ast.Name) and v.id == opt:
                delivered += 1
            elif isinstance(v, ast.Name) and v.id in STAGED.get(opt, ()) and v.id in _params(fn):
                staged_used.append((c, v.id))
            else:
                problems.append(f"T2 line {c.lineno}: {_callee(c)}(... {opt}={ast.unparse(v)} ...) does not receive the caller's {opt}")
        for a in c.args:
            elts = a.elts if isinstance(a, ast.Tuple) else [a]
            if any(isinstance(x, ast.Name) and x.id == opt for x in elts) and not (isinstance(c.func, ast.Attribute) and c.func.attr == "setdefault"):
                delivered += 1
    if (name, opt) in GUESS_STAGE:
        # documented: "use cutoff in guess, but not in fitting": {"cutoff": cutoff} -> X, X handed on as tn_fit=X by the
        # returned call, which itself receives the declared fit cutoff
        last = fn.body[-1]
        disp = [s for s in fn.body if isinstance(s, ast.Assign) and len(s.targets) == 1 and isinstance(s.targets[0], ast.Name) and
                isinstance(s.value, ast.Dict) and any(isinstance(k, ast.Constant) and k.value == opt and isinstance(v, ast.Name) and v.id == opt
                                                       for k, v in zip(s.value.keys, s.value.values))]
        ok = len(disp) == 1 and isinstance(last, ast.Return) and isinstance(last.value, ast.Call) and any(
            k.arg == "tn_fit" and isinstance(k.value, ast.Name) and k.value.id == disp[0].targets[0].id for k in last.value.keywords) and \
            [s for _, s in staged_used] == [GUESS_STAGE[(name, opt)]] and staged_used[0][0] is last.value and \
            sum(isinstance(n, ast.Name) and n.id == disp[0].targets[0].id and isinstance(n.ctx, ast.Store) for n in walk) == 1
        if not ok:
            problems.append(f"T2: {opt} does not reach the guess specification handed on as tn_fit= (or the fit stage does not get {GUESS_STAGE[(name, opt)]})")
        staged_used = []
        delivered += 1
    if staged_used:
        last = fn.body[-1]
        ok = isinstance(last, ast.Return) and isinstance(last.value, ast.Call) and any(
            k.arg == opt and isinstance(k.value, ast.Name) and k.value.id == opt for k in last.value.keywords)
        if not ok:
            problems.append(f"T2: first stage uses {[s for _, s in staged_used]} but the final statement is not `return f(..., {opt}={opt})`")
        for c, s in staged_used:
            if c is getattr(last, "value", None):
                problems.append(f"T2 line {c.lineno}: the FINAL stage receives {s} instead of {opt}")
    # T3 carriers
    carriers = {}
    for n in walk:
        if isinstance(n, ast.Call) and isinstance(n.func, ast.Attribute) and n.func.attr == "setdefault" and n.args and \
                isinstance(n.args[0], ast.Constant) and n.args[0].value == opt and isinstance(n.func.value, ast.Name):
            D = n.func.value.id
            v = n.args[1] if len(n.args) > 1 else None
            if not (isinstance(v, ast.Name) and v.id == opt):
                problems.append(f"T3 line {n.lineno}: {D}.setdefault({opt!r}, {ast.unparse(v) if v is not None else ''}) does not store the caller's {opt}")
                continue
            top = [s for s in fn.body if isinstance(s, ast.Expr) and s.value is n]
            if (name, opt, D) in GUESS_SPEC_CARRIER:
                # a user-supplied specification of the sampling network: completed with the caller's option, then consumed
                later = [c for c in calls if c.lineno > n.lineno and any(k.arg is None and isinstance(k.value, ast.Name) and k.value.id == D
                                                                         for k in c.keywords)]
                if not later:
                    problems.append(f"T3 line {n.lineno}: {D} (completed with {opt}) is never handed on as **{D}")
                else:
                    delivered += 1
                continue
            if not top:
                guard = CONDITIONAL_CARRIER.get((name, opt))
                par = [s for s in fn.body if isinstance(s, ast.If) and not s.orelse and len(s.body) == 1 and isinstance(s.body[0], ast.Expr)
                       and s.body[0].value is n]
                if not (guard and par and ast.unparse(par[0].test) == guard):
                    problems.append(f"T3 line {n.lineno}: {D}.setdefault({opt!r}, ...) is conditional")
                    continue
            carriers.setdefault(D, n.lineno)
    for D, line in carriers.items():
        binds = [n for n in walk if isinstance(n, ast.Name) and n.id == D and isinstance(n.ctx, (ast.Store, ast.Del))]
        if len(binds) > 1 or any(b.lineno > line for b in binds):
            problems.append(f"T3: carrier {D} is rebound (lines {[b.lineno for b in binds]})")
        for n in walk:
            if isinstance(n, ast.Subscript) and isinstance(n.value, ast.Name) and n.value.id == D and isinstance(n.ctx, (ast.Store, ast.Del)):
                problems.append(f"T3 line {n.lineno}: carrier {D}[...] is written")
            if isinstance(n, ast.Call) and isinstance(n.func, ast.Attribute) and isinstance(n.func.value, ast.Name) and \
                    n.func.value.id == D and n.func.attr in ("pop", "update", "clear", "popitem", "__setitem__", "__delitem__"):
                problems.append(f"T3 line {n.lineno}: carrier {D}.{n.func.attr}(...)")
            if isinstance(n, ast.Call) and isinstance(n.func, ast.Attribute) and isinstance(n.func.value, ast.Name) and \
                    n.func.value.id == D and n.func.attr == "setdefault" and n.lineno < line and n.args and \
                    isinstance(n.args[0], ast.Constant) and n.args[0].value == opt:
                problems.append(f"T3 line {n.lineno}: an earlier setdefault of {opt!r} wins")
        got = 0
        for c in calls:
            star = any(k.arg is None and isinstance(k.value, ast.Name) and k.value.id == D for k in c.keywords)
            if star:
                got += 1
                if any(k.arg == opt for k in c.keywords):
                    problems.append(f"T3 line {c.lineno}: {opt} given twice ({opt}= and **{D})")
                if c.lineno < line:
                    problems.append(f"T3 line {c.lineno}: **{D} is used before {opt} is stored in it")
            elif _is_leaf(c) and c.lineno > line and not any(k.arg == opt and isinstance(k.value, ast.Name) and k.value.id == opt
                                                            for k in c.keywords):
                # a truncating leaf that does not see the carrier: only exact factorisations are allowed to skip it
                meth = [k.value.value for k in c.keywords if k.arg == "method" and isinstance(k.value, ast.Constant)]
                if not (meth and meth[0] in ("qr", "lq")):
                    problems.append(f"T3 line {c.lineno}: leaf {_callee(c)}(...) does not receive **{D}")
        if got == 0:
            problems.append(f"T3: carrier {D} (holding {opt}) is never handed to a call as **{D}")
        delivered += got
    # T4
    if delivered == 0 and not staged_used:
        ignored = any(isinstance(s, ast.If) and ast.unparse(s.test) == f"{opt} != 0.0" and len(s.body) == 1 and not s.orelse and
                      ((isinstance(s.body[0], ast.Expr) and isinstance(s.body[0].value, ast.Call) and
                        ast.unparse(s.body[0].value.func) == "warnings.warn") or isinstance(s.body[0], ast.Raise)) for s in fn.body)
        if not ignored:
            problems.append(f"T4: {opt} is declared but never delivered to any call (and not documented as ignored by a warning)")
    return problems


def provider_threading(tier="quick", root=None):
    root = root or repo_root()
    t0 = time.time()
    try:
        src, tree = _load(root)
    except Exception as e:  # noqa
        return [ObResult(f"{REL}::threading::load", "frame", "unknown", "ast", time.time() - t0, function=REL, engine="E4",
                         detail=f"cannot parse: {type(e).__name__}: {e}")]
    obs = []
    n_fn = 0
    for fn in tree.body:
        if not isinstance(fn, ast.FunctionDef):
            continue
        ps = _params(fn)
        opts = [o for o in TRACKED if o in ps]
        if not opts:
            continue
        n_fn += 1
        for o in opts:
            if (fn.name, o) in NOT_COVERED:
                continue
            t1 = time.time()
            try:
                problems = analyse_threading(fn, o)
                status = "failed" if problems else "discharged"
                model = dict(function=fn.name, option=o, problems=problems[:6]) if problems else None
            except Exception as e:  # noqa
                status, model = "unknown", dict(error=f"{type(e).__name__}: {e}")
            obs.append(ObResult(f"{REL}::{fn.name}::threads[{o}]", "frame", status, "ast", time.time() - t1,
                                function=f"{REL}::{fn.name}", model=model, line=fn.lineno, engine="E4"))
    # census: the reflection found the method functions (vacuity guard): every value of the dispatch table that is a def
    t1 = time.time()
    found = {o.id.split("::")[1] for o in obs}
    table_defs = set()
    for node in tree.body:
        if isinstance(node, ast.Assign) and any(isinstance(t, ast.Name) and t.id == TABLE for t in node.targets) and isinstance(node.value, ast.Dict):
            table_defs = {v.id for v in node.value.values if isinstance(v, ast.Name)}
    defs = {n.name for n in tree.body if isinstance(n, ast.FunctionDef)}
    missing = sorted(d for d in table_defs & defs if d not in found)
    obs.append(ObResult(f"{REL}::threading::census-every-table-method-analysed", "frame",
                        "failed" if (missing or n_fn < 15) else "discharged", "ast", time.time() - t1, function=REL,
                        model=dict(not_analysed=missing, functions=n_fn) if (missing or n_fn < 15) else None, engine="E4"))
    return obs


# ======================================================================================================
# provider 3: PERIODIC chains -- left_compress / right_compress / compress of TensorNetwork1DFlat with cyclic=True
# (E1 engine run from a provider: the registered C09 sweep contracts of contracts/c10_sweeps.py own the same targets for
# the open-boundary case, and the engine's registry holds one contract per target)
# ======================================================================================================
import z3  # noqa: E402

import vf.pyvc as P  # noqa: E402
from vf.pyvc import Contract, Loop, NS, And, Or, Implies, If, Ref  # noqa: E402

T1 = "quimb/tensor/tn1d/core.py"
FLAT = f"{T1}::TensorNetwork1DFlat"
CYC_TRACKED = ("max_bond", "cutoff")


def _bool(x):
    return z3.BoolVal(bool(x))


class _Cyc(Contract):
    """shared modelling of a periodic chain of symbolic length L >= 2 with ONE arbitrary bond k (skolem), 0 <= k < L, bond
    k joining sites k and (k+1) mod L (k = L-1 is the closing bond); ghosts: cnt = number of compress calls bond k
    received, ok = every one of them received exactly the caller's options"""

    property_ids = ("C09",)
    ghost_fields = ("cnt", "ok")
    drops = "docstrings"

    def new_chain(self, cx, opts):
        L, k = cx.Int("L"), cx.Int("k")
        cx.assume(And(L >= 2, 0 <= k, k < L))
        ref = cx.new_obj("TN1D", L=L, cyclic=True, cnt=z3.IntVal(0), ok=z3.BoolVal(True), k=k)
        cx.ghost["opts0"] = dict(opts)
        return ref

    def opts_of(self, cx, kind):
        return {} if kind == "none" else {"max_bond": cx.Int("max_bond"), "cutoff": cx.Real("cutoff")}

    def attr(self, cx, base, attr, node):
        if isinstance(base, Ref) and base.kind == "TN1D" and attr in ("L", "cyclic"):
            return cx.fields(base)[attr]
        return NotImplemented

    def same_opts(self, cx, kwargs):
        """z3 Bool: the call received exactly the caller's truncation options (an absent one stays absent)"""
        o = cx.ghost["opts0"]
        out = []
        for key in CYC_TRACKED:
            if (key in o) != (key in kwargs):
                return z3.BoolVal(False)
            if key in o:
                a, b = kwargs[key], o[key]
                out.append(a == b if (z3.is_expr(a) and z3.is_expr(b)) else _bool(a is b))
        return And(*out) if out else z3.BoolVal(True)

    def leaf_site(self, cx, side, ref, i, kwargs, node):
        """[leaf: TensorNetwork1D.site_tag takes integer sites modulo L] left_compress_site(i) compresses the bond between
        sites i and i+1 (mod L), right_compress_site(i) the one between i-1 and i (mod L), with the options it receives"""
        f = cx.fields(ref)
        L = f["L"]
        line = node.lineno
        if side == "left":
            cx.oblige(f"call-pre@{line}:left_compress_site: -1 <= i <= L-2 (each bond has ONE index in the sweep)", "call-pre",
                      And(-1 <= i, i <= L - 2), line)
            b = If(i < 0, i + L, i)
        else:
            cx.oblige(f"call-pre@{line}:right_compress_site: 1 <= i <= L", "call-pre", And(1 <= i, i <= L), line)
            b = i - 1
        good = And(self.same_opts(cx, kwargs), _bool(kwargs.get("bra", None) is None))
        f["cnt"] = f["cnt"] + If(b == f["k"], 1, 0)
        f["ok"] = And(f["ok"], Implies(b == f["k"], good))
        return None


class CycSweep(_Cyc):
    floor = 8
    side = "left"

    def cases(self):
        return [NS(name=f"cyclic,stop={e},opts={k}", ek=e, kind=k) for e in ("None", "int") for k in ("none", "cap")]

    def inputs(self, cx, case):
        opts = self.opts_of(cx, case.kind)
        ref = self.new_chain(cx, opts)
        L = cx.fields(ref)["L"]
        stop = None
        if case.ek == "int":
            stop = cx.Int("stop")
            cx.assume(And(-1 <= stop, stop <= L - 1) if self.side == "left" else And(0 <= stop, stop <= L))
        return dict(self=ref, start=None, stop=stop, bra=None, create_bond=False, compress_opts=opts)

    def visited(self, L, k, upto):
        """bond k was treated once the loop variable has reached `upto`"""
        if self.side == "left":   # i = -1, 0, ..., upto-1 -> bonds L-1, 0, ..., upto-1
            return Or(And(k == L - 1, upto >= 0), And(k < L - 1, k < upto))
        return k >= upto          # i = L, L-1, ..., upto+1 -> bonds L-1, ..., upto

    def end(self, L, a):
        if self.side == "left":
            return L - 1 if a.stop is None else a.stop
        return 0 if a.stop is None else a.stop

    def call(self, cx, name, args, kwargs, node):
        if name == f".{self.side}_compress_site" and isinstance(args[0], Ref):
            cx.oblige(f"call-arg@{node.lineno}:create_bond handed on", "call-arg", _bool(kwargs.get("create_bond", None) is cx.old.create_bond),
                      node.lineno)
            return self.leaf_site(cx, self.side, args[0], args[1], kwargs, node)
        return NotImplemented

    def ensures(self, a, r, cx, case):
        f = cx.fields(a.self)
        L, k = f["L"], f["k"]
        d = {"returns-None": _bool(r is None),
             "arbitrary bond k (closing bond included) compressed EXACTLY once iff inside the swept range": f["cnt"] == If(self.visited(L, k, self.end(L, a)), 1, 0),
             "every compress call on bond k received exactly the caller's max_bond / cutoff": f["ok"]}
        if a.stop is None:
            d["full sweep: every bond of the ring exactly once"] = f["cnt"] == 1
        return d

    def inv(self, v):
        cx, o = v.cx, v.old
        f = cx.fields(o.self)
        L, k = f["L"], f["k"]
        e = self.end(L, o)
        rng = And(-1 <= v.i, v.i <= e) if self.side == "left" else And(e <= v.i, v.i <= L)
        # (the engine havocs the contents of every dict the loop body mentions: that the sweep leaves its own option dict
        # alone -- it is handed on as ** copy -- is PROVED here as an invariant, not assumed)
        return {"i-range": rng, "cnt": f["cnt"] == If(self.visited(L, k, v.i), 1, 0), "ok": f["ok"],
                "own option dict untouched": self.same_opts(cx, v.compress_opts)}

    @property
    def loops(self):
        return {0: Loop("for i in range(start, stop)" if self.side == "left" else "for i in range(start, stop, -1)", self.inv)}


class CycLeftCompress(CycSweep):
    target = f"{FLAT}.left_compress"
    side = "left"


class CycRightCompress(CycSweep):
    target = f"{FLAT}.right_compress"
    side = "right"


class CycCompress(_Cyc):
    """compress(form, **opts) on a periodic chain: every bond of the ring -- the closing bond included -- is compressed, by
    calls that receive exactly the caller's max_bond / cutoff; exactly once for form None / 'left' / 'right' / int (for
    every centre, below and above L // 2), at least once for 'flat' (whose two half sweeps both start on the closing bond)"""

    target = f"{FLAT}.compress"
    floor = 8

    def cases(self):
        return [NS(name=f"cyclic,form={fm},opts={k}", form=fm, kind=k) for fm in ("None", "left", "right", "flat", "int")
                for k in ("none", "cap")]

    def inputs(self, cx, case):
        opts = self.opts_of(cx, case.kind)
        ref = self.new_chain(cx, opts)
        form = {"None": None, "int": cx.Int("form")}.get(case.form, case.form)
        if case.form == "int":
            cx.assume(And(0 <= form, form < cx.fields(ref)["L"]))
        return dict(self=ref, form=form, create_bond=False, compress_opts=opts)

    def call(self, cx, name, args, kwargs, node):
        if name == "__isinstance__":
            v, cname = args
            if cname in ("Integral", "int", "numbers.Integral"):
                return P.is_int(v) if hasattr(P, "is_int") else (isinstance(v, int) or (z3.is_expr(v) and z3.is_int(v)))
            raise P.Unsupported(f"isinstance(..., {cname})")
        if name in (".left_canonize", ".right_canonize") and isinstance(args[0], Ref):
            return None   # [leaf] canonisation compresses nothing (QR sweeps: bond sizes never grow)
        if name in (".left_compress", ".right_compress") and isinstance(args[0], Ref):
            # callee = the sweep contract proved above (CycSweep.ensures), applied as its abstract effect
            side = name[1:].split("_")[0]
            sw = CycLeftCompress() if side == "left" else CycRightCompress()
            f = cx.fields(args[0])
            L, k = f["L"], f["k"]
            line = node.lineno
            rest = dict(kwargs)
            stop = rest.pop("stop", None)
            start = rest.pop("start", None)
            rest.pop("create_bond", None)
            if start is not None or len(args) > 1:
                raise P.Unsupported("sweep called with an explicit start")
            if stop is not None:
                cx.oblige(f"call-pre@{line}:{name[1:]}: stop inside the ring", "call-pre",
                          And(-1 <= stop, stop <= L - 1) if side == "left" else And(0 <= stop, stop <= L), line)
            # the absorb option added by form='flat' is not a truncation option
            good = And(self.same_opts(cx, rest), _bool(rest.get("bra", None) is None and set(rest) <= set(cx.ghost["opts0"]) | {"absorb"}))
            vis = sw.visited(L, k, sw.end(L, NS(stop=stop)))
            f["cnt"] = f["cnt"] + If(vis, 1, 0)
            f["ok"] = And(f["ok"], Implies(vis, good))
            return None
        return NotImplemented

    def ensures(self, a, r, cx, case):
        f = cx.fields(a.self)
        d = {"returns-None": _bool(r is None),
             "every compress call on the arbitrary bond k received exactly the caller's max_bond / cutoff": f["ok"]}
        if isinstance(a.form, str) and a.form == "flat":
            d["flat: arbitrary bond k (closing bond included) compressed at least once, at most twice"] = And(f["cnt"] >= 1, f["cnt"] <= 2)
            d["flat: only the closing bond is treated twice"] = Implies(f["cnt"] == 2, f["k"] == f["L"] - 1)
        else:
            d["arbitrary bond k of the ring (closing bond included) compressed EXACTLY once"] = f["cnt"] == 1
        return d


CYCLIC_CONTRACTS = (CycLeftCompress, CycRightCompress, CycCompress)


def provider_cyclic(tier="quick", root=None):
    root = root or repo_root()
    obs = []
    old_repo = P.REPO
    P.REPO = root
    P._SRC_CACHE.clear()
    try:
        for cls in CYCLIC_CONTRACTS:
            con = cls()
            t0 = time.time()
            fid = con.target
            try:
                rep = P.verify(con)
            except Exception as e:  # noqa
                obs.append(ObResult(f"{fid}::[cyclic]::engine", "post", "unknown", "z3", time.time() - t0, function=fid,
                                    detail=f"engine error: {type(e).__name__}: {e}", engine="E1"))
                continue
            if rep.status != "ok":
                obs.append(ObResult(f"{fid}::[cyclic]::status", "post", "unknown", "z3", time.time() - t0, function=fid,
                                    detail=f"{rep.status}: {rep.detail}"[:400], engine="E1"))
                continue
            for o in rep.obligations:
                oid = o.oid[len(fid):] if o.oid.startswith(fid) else "::" + o.oid
                obs.append(ObResult(f"{fid}::[cyclic]{oid}", o.kind, o.status, o.backend, o.time, function=fid,
                                    model=(str(o.model)[:600] if o.status == "failed" else None), line=o.line, engine="E1"))
    finally:
        P.REPO = old_repo
        P._SRC_CACHE.clear()
    return obs


# ======================================================================================================
# provider 4 (e2, sympy): exponent bookkeeping of tnag/core.py::tensor_network_ag_sum (behind a + b, a - b, +=, -=,
# add_MPS, add_MPO).  The REAL FunctionDef is compiled unchanged and run on recording stand-ins whose stored exponents
# are sympy real symbols (and, for the native float path, numbers).  A network denotes 10^e * prod_s T_s; the direct
# sum of the site tensors denotes prod A_s + prod B'_s, so with f = (prod B'_s) / (prod B_s) the result denotes
# 10^er * (A + f B).  Decided for ALL exponents, in the log domain:
#      er == ea     and     f == sign * 10^(eb - ea)   (log10 |f| == eb - ea, sign = -1 iff negate)
# i.e. 10^er * (A + f B) == 10^ea A +/- 10^eb B.
# ======================================================================================================
AG = "quimb/tensor/tnag/core.py"
AGSUM = "tensor_network_ag_sum"


def _compile_fn(root, rel, name):
    with open(os.path.join(root, rel)) as f:
        tree = ast.parse(f.read())
    fn = [n for n in tree.body if isinstance(n, ast.FunctionDef) and n.name == name]
    if not fn:
        raise LookupError(f"{name} not found in {rel}")
    code = compile(ast.Module(body=[fn[0]], type_ignores=[]), os.path.join("<real>", rel), "exec",
                   flags=__future__.annotations.compiler_flag, dont_inherit=True)
    return code


def _run_ag_sum(code, ea, eb, n, negate, inplace, compress, sp):
    """run the real function on two stand-in chains of n sites; -> (er, f, facts)"""
    log = dict(products=[], compress=[], copies=0)
    sites = [f"I{j}" for j in range(n)]

    class T:
        def __init__(self, data, inds, owner):
            self.data, self.inds, self.owner = data, tuple(inds), owner

        def reindex(self, m):
            return T(self.data, [m.get(ix, ix) for ix in self.inds], self.owner)   # a NEW tensor: tnb itself stays untouched

        def negate_(self):
            self.data = -self.data

        def modify(self, apply=None, **kw):
            if apply is not None:
                self.data = apply(self.data)

        def direct_product_(self, other, sum_inds):
            log["products"].append((self, other.data, tuple(sum_inds)))

    class TN:
        def __init__(self, nm, exponent, ts=None):
            self.nm, self.exponent = nm, exponent
            self.ts = ts or {s: T(sp.Symbol(f"{nm}_{s}", real=True, nonzero=True),
                                  [f"{nm}b{j - 1}"] * (j > 0) + [f"k{j}"] + [f"{nm}b{j}"] * (j < n - 1), nm) for j, s in enumerate(sites)}

        def copy(self):
            log["copies"] += 1
            return TN(self.nm, self.exponent, {s: T(t.data, t.inds, t.owner) for s, t in self.ts.items()})

        def __getitem__(self, s):
            return self.ts[s]

        def compress(self, **kw):
            log["compress"].append(kw)

    def create_lazy_edge_map(tn, site_tags=None):
        edges = {(sites[j], sites[j + 1]): (f"{tn.nm}b{j}",) for j in range(n - 1)}
        nbrs = {s: [sites[i] for i in (j - 1, j + 1) if 0 <= i < n] for j, s in enumerate(sites)}
        return edges, nbrs

    ns = {"create_lazy_edge_map": create_lazy_edge_map}
    exec(code, ns)  # noqa: S102 -- the real ast
    a, b = TN("A", ea), TN("B", eb)
    b_before = {s: t.data for s, t in b.ts.items()}
    out = ns[AGSUM](a, b, negate=negate, compress=compress, inplace=inplace, max_bond=7)
    facts = []
    if (out is a) != bool(inplace):
        facts.append(f"inplace={inplace}: result is{'' if out is a else ' not'} the first operand")
    if not inplace and a.exponent is not ea:
        facts.append("the first operand's exponent was changed although inplace=False")
    if b.exponent is not eb or any(b.ts[s].data is not b_before[s] for s in sites):
        facts.append("the second operand was modified")
    if len(log["products"]) != n or {id(p[0]) for p in log["products"]} != {id(out.ts[s]) for s in sites}:
        facts.append(f"{len(log['products'])} direct products for {n} sites (each site of the result exactly once)")
    if (len(log["compress"]) == 1) != bool(compress) or (compress and log["compress"][0] != {"max_bond": 7}):
        facts.append(f"compress={compress}: compress calls {log['compress']}")
    f = sp.Integer(1)
    for j, (_, data, _) in enumerate(log["products"]):
        f = f * data / sp.Symbol(f"B_{sites[j]}", real=True, nonzero=True)
    return out.exponent, f, facts


def provider_sum(tier="quick", root=None):
    import sympy as sp
    root = root or repo_root()
    fid = f"{AG}::{AGSUM}"
    t0 = time.time()
    try:
        code = _compile_fn(root, AG, AGSUM)
    except Exception as e:  # noqa
        return [ObResult(f"{fid}::load", "e2", "unknown", "sympy", time.time() - t0, function=fid, engine="E2",
                         detail=f"cannot load: {type(e).__name__}: {e}")]
    ea, eb = sp.Symbol("ea", real=True), sp.Symbol("eb", real=True)
    # exponent kinds: both symbolic (ALL real exponents), equal, one / both zero (int 0 and float 0.0 = 'no exponent'),
    # and concrete floats (the native float path incl. the `rescale_b != 1.0` shortcut)
    kinds = {"symbolic": [(ea, eb)], "equal": [(ea, ea)],
             "zero": [(0.0, eb), (ea, 0.0), (0, eb), (ea, 0), (0.0, 0.0), (0, 0), (0.0, 0)],
             "float": [(3.0, -2.0), (-2.0, 3.0), (0.5, 0.5), (1.0, 0.0), (0.0, 1.0)]}
    obs = []
    for negate in (False, True):
        for kname, pairs in kinds.items():
            t1 = time.time()
            cex, status = None, "discharged"
            try:
                for (xa, xb) in pairs:
                    for n in (1, 2, 3):
                        for inplace in (False, True):
                            for compress in (False, True):
                                er, f, facts = _run_ag_sum(code, xa, xb, n, negate, inplace, compress, sp)
                                sign = -1 if negate else 1
                                # log domain: er == ea and log10(sign * f) == eb - ea
                                d_er = sp.simplify(sp.sympify(er) - sp.sympify(xa))
                                g = sp.sympify(sign * f)
                                if g.free_symbols:
                                    g = sp.nsimplify(g, rational=True)   # python float literals that are exact integers (10.0 -> 10)
                                if g.is_negative or g.is_zero or (not g.free_symbols and not (g > 0)):
                                    facts.append(f"factor on B: f = {f}: wrong sign (expected sign {'-' if negate else '+'}) or zero")
                                    g = -g if g.is_negative or (not g.free_symbols and g < 0) else sp.Integer(1)
                                lg = sp.simplify(sp.expand_log(sp.log(g, 10), force=True) - (sp.sympify(xb) - sp.sympify(xa)))
                                if not lg.free_symbols and lg != 0:
                                    # concrete floats (native float path): rounding of 10**x in double precision only
                                    lg = sp.Integer(0) if abs(float(lg.evalf())) < 1e-9 else lg
                                if d_er != 0:
                                    facts.append(f"result exponent er = {er}, expected ea = {xa}")
                                if lg != 0:
                                    facts.append(f"factor on B: f = {f}; log10(sign*f) - (eb - ea) = {lg} (expected 0)")
                                if facts:
                                    cex = dict(ea=str(xa), eb=str(xb), sites=n, negate=negate, inplace=inplace, compress=compress, observed=facts[:3])
                                    break
                            if cex:
                                break
                        if cex:
                            break
                    if cex:
                        break
                if cex:
                    status = "failed"
            except Exception as e:  # noqa
                status, cex = "unknown", dict(error=f"{type(e).__name__}: {e}")
            obs.append(ObResult(f"{fid}::exponent-bookkeeping[{'sub' if negate else 'add'},{kname}]: er == ea and log10|f| == eb - ea, sign(f) = {'-' if negate else '+'}",
                                "e2", status, "sympy", time.time() - t1, function=fid, model=cex if status == "failed" else None,
                                detail=None if status != "unknown" else str(cex), engine="E2"))
    return obs
