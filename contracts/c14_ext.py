"""C14 extension -- the bookkeeping side of "BP is exact on trees", decided on the REAL source on every run.

provider_counting (ast, kind "frame"): the `contract` method of every BP flavour (and bp_common.contract_hyper_messages) is
    analysed path by path over its real ast: every control-flow path through one iteration of the loop over tensors /
    sites appends exactly one local value with counting number +1, every path through one iteration of the loop over
    bonds / edges exactly one with -1 (a skip is only accepted under the declared test), nothing else touches the list,
    the two messages of a bond are read in opposite directions, and the list, strip_exponent, check_zero, the stored
    sign (squared for 2-norm) and the stored exponent (doubled for 2-norm) reach combine_local_contractions (whose value
    is proved in contracts/c14_bp.py).
provider_algebra (sympy / recording stubs, kinds "e2" and "fdx"): the REAL functions normalize_message_pair, the damping
    setter, compute_index_marginal, compute_all_index_marginals_from_messages and D2BP.compute_marginal are executed on
    symbols / tokens and the identity is decided exactly.
"""
import ast
import itertools
import os
import time
import types

from vf.framework import ObResult

_BP = "quimb/tensor/belief_propagation"
COMMON, D1, D2, L1, L2, HD1 = (f"{_BP}/{n}.py" for n in ("bp_common", "d1bp", "d2bp", "l1bp", "l2bp", "hd1bp"))


def _root():
    return os.environ.get("VERIF_REPO", "/repo")


def _find(root, rel, qual):
    tree = ast.parse(open(os.path.join(root, rel)).read())
    parts = qual.split(".")
    body = tree.body
    node = None
    for p in parts:
        node = next((n for n in body if isinstance(n, (ast.FunctionDef, ast.ClassDef)) and n.name == p
                     and not (isinstance(n, ast.FunctionDef) and any(ast.unparse(d).endswith(".setter") for d in n.decorator_list))),
                    None)
        if node is None:
            return None
        body = node.body
    return node


U = ast.unparse


def _mentions(node, acc):
    return any(isinstance(n, ast.Name) and n.id == acc for n in ast.walk(node))


# ------------------------------------------------------------------------------------------------ path analysis
def _paths(stmts, acc):
    paths = [((), "fall")]
    for s in stmts:
        new = []
        for ev, ex in paths:
            if ex != "fall":
                new.append((ev, ex))
                continue
            for ev2, ex2 in _stmt(s, acc):
                new.append((ev + ev2, ex2))
        paths = new
    return paths


def _stmt(s, acc):
    if isinstance(s, ast.If):
        t = U(s.test)
        bad = (("bad", "test:" + t),) if _mentions(s.test, acc) else ()
        return [(bad + (("if", t, True),) + ev, ex) for ev, ex in _paths(s.body, acc)] + \
               [(bad + (("if", t, False),) + ev, ex) for ev, ex in _paths(s.orelse, acc)]
    if isinstance(s, ast.Continue):
        return [((), "continue")]
    if isinstance(s, ast.Break):
        return [((), "break")]
    if isinstance(s, ast.Return):
        return [((("bad", U(s)),) if _mentions(s, acc) else (), "return")]
    if isinstance(s, ast.Raise):
        return [((), "raise")]
    if isinstance(s, (ast.For, ast.While)):
        if not _mentions(s, acc):
            return [((), "fall")]
        if isinstance(s, ast.While) or s.orelse or _mentions(s.iter, acc):
            return [((("bad", U(s)[:60]),), "fall")]
        sub = tuple(sorted({(_norm(ev), ex) for ev, ex in _paths(s.body, acc)}, key=repr))
        return [((("loop", U(s.iter), sub),), "fall")]
    if isinstance(s, ast.Expr) and isinstance(s.value, ast.Call) and isinstance(s.value.func, ast.Attribute) \
            and isinstance(s.value.func.value, ast.Name) and s.value.func.value.id == acc:
        c = s.value
        if c.func.attr == "append" and len(c.args) == 1 and not c.keywords and isinstance(c.args[0], ast.Tuple) \
                and len(c.args[0].elts) == 2 and not _mentions(c.args[0], acc):
            return [((("app", U(c.args[0].elts[1])),), "fall")]
        return [((("bad", U(s)[:60]),), "fall")]
    if _mentions(s, acc):
        return [((("bad", U(s)[:60]),), "fall")]
    return [((), "fall")]


def _norm(ev):
    """events of one path without the guards"""
    return tuple(e for e in ev if e[0] != "if")


def _guards(ev):
    return tuple(e[1:] for e in ev if e[0] == "if")


def _msg_keys(nodes):
    out = set()
    for nd in nodes:
        for n in ast.walk(nd):
            if isinstance(n, ast.Subscript) and U(n.value) in ("self.messages", "messages"):
                out.add(U(n.slice).strip('()'))
    return out


def analyse(fn, acc="zvals"):
    """groups of contributions in source order + the return statements + stray uses of the accumulator"""
    groups, stray, init = [], [], 0
    for s in fn.body:
        if isinstance(s, ast.Expr) and isinstance(s.value, ast.Constant):
            continue
        if isinstance(s, ast.Assign) and len(s.targets) == 1 and U(s.targets[0]) == acc:
            init += 1
            v = s.value
            comps = []
            if isinstance(v, ast.List) and not v.elts:
                continue

            def flat(e):
                if isinstance(e, ast.BinOp) and isinstance(e.op, ast.Add):
                    flat(e.left), flat(e.right)
                else:
                    comps.append(e)
            flat(v)
            for c in comps:
                if isinstance(c, ast.ListComp) and len(c.generators) == 1 and not c.generators[0].ifs \
                        and not c.generators[0].is_async and isinstance(c.elt, ast.Tuple) and len(c.elt.elts) == 2 \
                        and not _mentions(c, acc):
                    groups.append(dict(iter=U(c.generators[0].iter), target=U(c.generators[0].target),
                                       paths=[((("app", U(c.elt.elts[1])),), "fall")], nodes=[c.elt], value=U(c.elt.elts[0])))
                else:
                    stray.append(U(c)[:80])
            continue
        if isinstance(s, ast.For) and _mentions(s, acc):
            if s.orelse or _mentions(s.iter, acc):
                stray.append(U(s)[:60])
                continue
            groups.append(dict(iter=U(s.iter), target=U(s.target), paths=_paths(s.body, acc), nodes=s.body, value=None))
            continue
        if isinstance(s, ast.Return):
            continue
        if _mentions(s, acc):
            stray.append(U(s)[:80])
    rets = [n for n in ast.walk(fn) if isinstance(n, ast.Return)]
    return groups, rets, stray, init


def _app(p):
    return ("app", p)


# what the property demands, per flavour.  events = the contributions of ONE iteration on every non-skipping path
SPECS = [
    dict(rel=D1, qual="D1BP.contract", acc="zvals",
         groups=[dict(iter="self.tn.tensor_map", events=(_app("1"),), value="self.local_tensor_contract(tid)"),
                 dict(iter="self.tn.ind_map", events=(_app("-1"),), value="self.local_message_contract(ix)")],
         callee="combine_local_contractions",
         kw=dict(backend="self.backend", strip_exponent="strip_exponent", check_zero="check_zero", mantissa="self.sign",
                 exponent="self.exponent"), star=True),
    dict(rel=D2, qual="D2BP.contract", acc="zvals",
         groups=[dict(iter="self.tn.tensor_map", events=(_app("1"),)),
                 dict(iter="self.tn.ind_map.items()", events=(_app("-1"),), skip="ix in self.output_inds",
                      keys={"ix, tida", "ix, tidb"}, unpack="tida, tidb = tids")],
         callee="combine_local_contractions",
         kw=dict(backend="self.backend", strip_exponent="strip_exponent", check_zero="check_zero",
                 mantissa="self.sign ** 2", exponent="self.exponent * 2"), star=True),
    dict(rel=L1, qual="L1BP.contract", acc="zvals",
         groups=[dict(iter="self.local_tns.items()", events=(_app("1"),), keys={"k, site"}),
                 dict(iter="self.edges", events=(_app("-1"),), keys={"i, j", "j, i"})],
         callee="combine_local_contractions",
         kw=dict(backend="self.backend", strip_exponent="strip_exponent", check_zero="check_zero", mantissa="self.sign",
                 exponent="self.exponent"), star=True),
    dict(rel=L2, qual="L2BP.contract", acc="zvals",
         groups=[dict(iter="self.local_tns.items()", events=(_app("1"),), keys={"k, i"}),
                 dict(iter="self.edges", events=(_app("-1"),), keys={"i, j", "j, i"})],
         callee="combine_local_contractions",
         kw=dict(backend="self.backend", strip_exponent="strip_exponent", check_zero="check_zero",
                 mantissa="self.sign ** 2", exponent="self.exponent * 2"), star=True),
    dict(rel=COMMON, qual="contract_hyper_messages", acc="zvals",
         groups=[dict(iter="tn.tensor_map.items()",
                      events=(("loop", "enumerate(t.inds)", (((_app("-1"),), "fall"),)), _app("1")),
                      keys={"ix, tid", "tid, ix"}),
                 dict(iter="tn.ind_map.items()", events=(_app("1"),), keys={"tid, ix"})],
         callee="combine_local_contractions",
         kw=dict(backend="backend", strip_exponent="strip_exponent", check_zero="check_zero", mantissa="mantissa",
                 exponent="exponent"), star=False),
    dict(rel=HD1, qual="HD1BP.contract", acc="zvals", groups=[], callee="contract_hyper_messages",
         args=["self.tn", "self.messages"],
         kw=dict(backend="self.backend", strip_exponent="strip_exponent", check_zero="check_zero", mantissa="self.sign",
                 exponent="self.exponent"), star=False),
]


def counting_obligations(root):
    obs = []

    def ob(fid, label, ok, model=None, dt=0.0, kind="frame"):
        obs.append(ObResult(id=f"{fid}::{label}", kind=kind, status="discharged" if ok else "failed", backend="ast",
                            solver_s=dt, function=fid, model=None if ok else model, engine="E4"))

    for sp in SPECS:
        t0 = time.time()
        fid = f"{sp['rel']}::{sp['qual']}"
        fn = _find(root, sp["rel"], sp["qual"])
        if fn is None:
            obs.append(ObResult(id=f"{fid}::present", kind="frame", status="unknown", backend="ast", solver_s=0.0,
                                function=fid, detail="function not found", engine="E4"))
            continue
        groups, rets, stray, init = analyse(fn, sp["acc"])
        want = sp["groups"]
        if want:
            ob(fid, "list-starts-empty-and-only-appended", init == 1 and not stray, dict(initialisations=init, stray=stray))
            ob(fid, "one-loop-per-region-kind", [g["iter"] for g in groups] == [w["iter"] for w in want],
               dict(found=[g["iter"] for g in groups], want=[w["iter"] for w in want]))
        for k, w in enumerate(want):
            g = groups[k] if k < len(groups) else None
            lab = ("tensor" if k == 0 else "bond") if sp["qual"] != "contract_hyper_messages" else ("factor", "variable")[k]
            if g is None:
                ob(fid, f"{lab}-term-exactly-once", False, dict(missing_group=w["iter"]))
                continue
            bad = []
            for ev, ex in g["paths"]:
                gd, n = _guards(ev), _norm(ev)
                if ex == "fall":
                    if n != w["events"]:
                        bad.append(dict(path=gd, contributes=n, want=w["events"]))
                elif ex == "continue" and w.get("skip") is not None:
                    if n or gd != ((w["skip"], True),):
                        bad.append(dict(path=gd, skips_with=n, only_allowed_skip=w["skip"]))
                else:
                    bad.append(dict(path=gd, leaves_iteration_by=ex, contributes=n))
            if w.get("skip") is not None and not any(ex == "fall" and _guards(ev) == ((w["skip"], False),) for ev, ex in g["paths"]):
                bad.append(dict(no_unconditional_path_when_not=w["skip"]))
            ob(fid, f"{lab}-term-exactly-once", not bad, dict(loop=g["iter"], violations=bad[:3]))
            if "value" in w:
                ob(fid, f"{lab}-term-value", g["value"] == w["value"], dict(found=g["value"], want=w["value"]))
            if "keys" in w:
                keys = _msg_keys(g["nodes"])
                okk = keys == w["keys"]
                if okk and "unpack" in w:
                    okk = any(U(s) == w["unpack"] for s in g["nodes"])
                ob(fid, f"{lab}-term-messages-read", okk, dict(found=sorted(keys), want=sorted(w["keys"])))
        # threading into the (proved) combiner
        okr = len(rets) == 1 and isinstance(rets[0].value, ast.Call) and U(rets[0].value.func) == sp["callee"]
        model = dict(returns=[U(r)[:120] for r in rets])
        if okr:
            c = rets[0].value
            args = [U(a) for a in c.args]
            kw = {k.arg: U(k.value) for k in c.keywords if k.arg}
            star = [U(k.value) for k in c.keywords if k.arg is None]
            has_kwargs = fn.args.kwarg is not None
            okr = args == sp.get("args", [sp["acc"]]) and kw == sp["kw"] and \
                (star == ([fn.args.kwarg.arg] if has_kwargs else [])) and has_kwargs == sp["star"]
            model = dict(args=args, kw=kw, star=star, want_kw=sp["kw"])
            # the threaded names are the parameters themselves (not rebound on the way)
            rebound = [n.id for n in ast.walk(fn) if isinstance(n, ast.Name) and isinstance(n.ctx, ast.Store)
                       and n.id in ("strip_exponent", "check_zero", "mantissa", "exponent", "kwargs")]
            okr = okr and not rebound
            model["rebound"] = rebound
        ob(fid, "threading-to-combiner", okr, model, dt=time.time() - t0)
    return obs


def provider_counting(tier="quick"):
    return counting_obligations(_root())


# ------------------------------------------------------------------------------------------------ executed on symbols
def load_real(root, rel, patch=None):
    """compile the REAL source of one BP module from `root` (relative imports resolve to the installed quimb)"""
    path = os.path.join(root, rel)
    mod = types.ModuleType("quimb.tensor.belief_propagation._vf_" + os.path.basename(rel)[:-3])
    mod.__package__ = "quimb.tensor.belief_propagation"
    mod.__file__ = path
    exec(compile(open(path).read(), path, "exec"), mod.__dict__)
    for k, v in (patch or {}).items():
        mod.__dict__[k] = v
    return mod


class SVec:
    """c * e_name: a vector known up to a scalar.  Trusted: (a u) @ (b v) = a b (u @ v), (a u) / s = (a / s) u, u @ v = v @ u
    (quimb's 1-norm messages are plain vectors, `@` is the un-conjugated dot product) -- any dimension."""

    def __init__(self, name, c, gram):
        self.name, self.c, self.gram = name, c, gram

    def __matmul__(self, o):
        return self.c * o.c * self.gram[frozenset((self.name, o.name))]

    def __truediv__(self, s):
        return SVec(self.name, self.c / s, self.gram)


class _AR:
    """recording stand-in for autoray inside the traced function"""

    def __init__(self, table):
        self.table = table

    def do(self, name, x, *a, **k):
        return self.table[name](x, *a, **k)


def algebra_obligations(root):
    import sympy as sp
    import numpy as np

    obs = []

    def ob(fid, label, ok, model=None, dt=0.0, kind="e2", backend="sympy"):
        obs.append(ObResult(id=f"{fid}::{label}", kind=kind, status="discharged" if ok else "failed", backend=backend,
                            solver_s=dt, function=fid, model=None if ok else model, engine="E2" if kind == "e2" else "fdx"))

    def guarded(fid, f):
        try:
            f()
        except Exception as e:  # noqa: the real function could not be executed on symbols -> undecided
            obs.append(ObResult(id=f"{fid}::executes", kind="e2", status="unknown", backend="sympy", solver_s=0.0, function=fid,
                                detail=f"{type(e).__name__}: {e}"[:200], engine="E2"))

    # ---- normalize_message_pair: <mi'|mj'> == 1 and <mi'|mi'> == <mj'|mj'>, each message only rescaled
    fid = f"{COMMON}::normalize_message_pair"

    def t_norm():
        t0 = time.time()
        a = sp.Symbol("a", complex=True, nonzero=True)      # mi @ mj
        b = sp.Symbol("b", complex=True, nonzero=True)      # mi @ mi
        c = sp.Symbol("c", complex=True, nonzero=True)      # mj @ mj
        gram = {frozenset(("i", "j")): a, frozenset(("i",)): b, frozenset(("j",)): c}
        mod = load_real(root, COMMON, patch=dict(ar=_AR(dict(abs=sp.Abs))))
        ri, rj = mod.normalize_message_pair(SVec("i", sp.Integer(1), gram), SVec("j", sp.Integer(1), gram))
        ok0 = isinstance(ri, SVec) and isinstance(rj, SVec) and ri.name == "i" and rj.name == "j"
        ob(fid, "each-message-only-rescaled", ok0, dict(result=repr((ri, rj))))
        if not ok0:
            return
        e1 = sp.simplify(ri @ rj - 1)
        ob(fid, "overlap-is-one", e1 == 0, dict(overlap_minus_1=str(e1)), dt=time.time() - t0)
        # equal self-overlaps: decided for positive data (principal roots) and, as a ratio, for complex data
        pos = {a: sp.Symbol("ap", positive=True), b: sp.Symbol("bp", positive=True), c: sp.Symbol("cp", positive=True)}
        e2 = sp.simplify(((ri @ ri) - (rj @ rj)).subs(pos))
        ob(fid, "equal-self-overlaps", e2 == 0, dict(difference=str(e2)))
        e3 = sp.simplify((ri.c * rj.c - 1 / a))
        ob(fid, "scale-product-is-inverse-overlap", e3 == 0, dict(difference=str(e3)))
    guarded(fid, t_norm)

    # ---- damping setter
    fid = f"{COMMON}::BeliefPropagationCommon.damping"

    def t_damp():
        t0 = time.time()
        mod = load_real(root, COMMON)
        fset = mod.BeliefPropagationCommon.__dict__["damping"].fset
        fget = mod.BeliefPropagationCommon.__dict__["damping"].fget
        d, old, new = sp.symbols("d old new")
        s = types.SimpleNamespace()
        fset(s, d)
        e = sp.expand(s._damping_fn(old, new) - (d * old + (1 - d) * new))
        ob(fid, "damped-update-is-convex-mix", e == 0 and fget(s) == d, dict(difference=str(e)), dt=time.time() - t0)
        s = types.SimpleNamespace()
        fset(s, 0.0)
        r = s._damping_fn(old, new)
        ob(fid, "zero-damping-returns-new-message", r is new and fget(s) == 0.0, dict(result=str(r)))
        s = types.SimpleNamespace()
        f = lambda o, n: ("user", o, n)  # noqa
        fset(s, f)
        ob(fid, "callable-damping-threaded", s._damping_fn is f and fget(s) is f, dict(fn=str(s._damping_fn)))
        for val in (sp.Rational(1, 2), 1):
            s = types.SimpleNamespace()
            fset(s, val)
            e = sp.expand(s._damping_fn(old, new) - (val * old + (1 - val) * new))
            if e != 0:
                ob(fid, "damped-update-is-convex-mix", False, dict(damping=str(val), difference=str(e)))
    guarded(fid, t_damp)

    # ---- 1-norm index marginals: product of the messages INTO the index from every tensor on it, normalised
    fid = f"{COMMON}::compute_index_marginal"

    def t_marg():
        t0 = time.time()
        mod = load_real(root, COMMON)
        bad, bad_all = None, None
        for dim, k in itertools.product((1, 2, 3), (1, 2, 3)):
            tids = tuple(range(10, 10 + k))
            read = []

            class M(dict):
                def __getitem__(self, key):
                    read.append(key)
                    return dict.__getitem__(self, key)
            msgs = M()
            for t in tids:
                msgs[t, "x"] = np.array([sp.Symbol(f"m_{t}_x_{q}", positive=True) for q in range(dim)], dtype=object)
                msgs["x", t] = np.array([sp.Symbol(f"w_{t}_x_{q}", positive=True) for q in range(dim)], dtype=object)
                msgs[t, "y"] = np.array([sp.Symbol(f"m_{t}_y_{q}", positive=True) for q in range(dim)], dtype=object)
                msgs["y", t] = np.array([sp.Symbol(f"w_{t}_y_{q}", positive=True) for q in range(dim)], dtype=object)
            tn = types.SimpleNamespace(ind_map={"x": tids, "y": tids[:1]})
            try:
                r = mod.compute_index_marginal(tn, "x", msgs)
            except (KeyError, IndexError, TypeError) as e:  # the real function fails on a valid input
                bad = dict(dim=dim, tids=tids, raised=repr(e))
                continue
            read_x = list(read)
            want = [sp.Mul(*[msgs[t, "x"][q] for t in tids]) for q in range(dim)]
            tot = sum(want)
            diff = [sp.simplify(r[q] - want[q] / tot) for q in range(dim)]
            if any(x != 0 for x in diff) or sorted(read_x) != sorted((t, "x") for t in tids):
                bad = dict(dim=dim, tids=tids, read=[str(x) for x in read_x], result=[str(x) for x in r])
            try:
                allm = mod.compute_all_index_marginals_from_messages(tn, msgs)
            except (KeyError, IndexError, TypeError) as e:
                bad_all = dict(dim=dim, tids=tids, raised=repr(e))
                continue
            w_y = msgs[tids[0], "y"] / sum(msgs[tids[0], "y"])
            if set(allm) != {"x", "y"} or any(sp.simplify(allm["x"][q] - r[q]) != 0 for q in range(dim)) \
                    or any(sp.simplify(allm["y"][q] - w_y[q]) != 0 for q in range(dim)):
                bad_all = dict(dim=dim, tids=tids, keys=sorted(allm))
        ob(fid, "normalised-product-of-incoming-messages", bad is None, bad, dt=time.time() - t0)
        ob(f"{COMMON}::compute_all_index_marginals_from_messages", "every-index-gets-its-own-marginal", bad_all is None, bad_all)
    guarded(fid, t_marg)

    # ---- D2BP.compute_marginal: which message, which leg order (bra, ket), what is traced, normalisation
    fid = f"{D2}::D2BP.compute_marginal"

    def t_d2():
        t0 = time.time()

        class Tok:
            def __init__(self, *t):
                self.t = t

            def __truediv__(self, o):
                return Tok("div", self, o)

            def __eq__(self, o):
                return isinstance(o, Tok) and self.t == o.t

            def __hash__(self):
                return hash(self.t)

            def __repr__(self):
                return "Tok" + repr(self.t)
        calls = []

        def array_contract(arrays, inputs=None, output=None, **kw):
            calls.append(dict(arrays=list(arrays), inputs=tuple(inputs), output=output, kw=kw))
            return Tok("contract", len(calls) - 1)
        ar_stub = _AR(dict(conj=lambda x: Tok("conj", x), real=lambda x: Tok("real", x), sum=lambda x: Tok("sum", x)))
        mod = load_real(root, D2, patch=dict(ar=ar_stub, qtn=types.SimpleNamespace(array_contract=array_contract)))
        bad = {}
        ntraces = 0
        for n in (1, 2, 3, 4):
            inds = tuple(f"i{q}" for q in range(n))
            for pos in range(n):
                others = [q for q in range(n) if q != pos]
                for r in range(len(others) + 1):
                    for bonded in itertools.combinations(others, r):
                        ntraces += 1
                        data = Tok("data")
                        msgs = {(inds[q], 7): Tok("msg", inds[q], 7) for q in bonded}
                        msgs.update({(7, inds[q]): Tok("wrong-direction", inds[q]) for q in bonded})
                        msgs[inds[pos], 7] = Tok("message-on-output-index")  # must not be used
                        self = types.SimpleNamespace(
                            tn=types.SimpleNamespace(ind_map={inds[pos]: (7,)}, tensor_map={7: types.SimpleNamespace(data=data, inds=inds)}),
                            messages=msgs, contract_opts=dict(optimize="opt-token"))
                        del calls[:]
                        res = mod.D2BP.compute_marginal(self, inds[pos])
                        case = dict(n=n, output_position=pos, bonded=bonded)
                        if len(calls) != 1:
                            bad.setdefault("one-contraction", case)
                            continue
                        c = calls[0]
                        if c["arrays"][:2] != [data, Tok("conj", data)]:
                            bad.setdefault("ket-and-conjugated-bra", dict(case, arrays=repr(c["arrays"][:2])))
                        if c["arrays"][2:] != [Tok("msg", inds[q], 7) for q in bonded]:
                            bad.setdefault("incoming-message-of-each-bond", dict(case, arrays=repr(c["arrays"][2:])))
                        ket = tuple(range(1, n + 1))
                        bra = tuple(-(q + 1) if q in bonded else q + 1 for q in range(n))
                        if c["inputs"][:2] != (ket, bra):
                            bad.setdefault("diagonal-on-output-trace-on-dangling", dict(case, inputs=repr(c["inputs"][:2])))
                        if c["inputs"][2:] != tuple((-(q + 1), q + 1) for q in bonded):
                            bad.setdefault("message-legs-bra-then-ket", dict(case, inputs=repr(c["inputs"][2:])))
                        if c["output"] != (pos + 1,) or c["kw"] != dict(optimize="opt-token"):
                            bad.setdefault("output-is-the-asked-index", dict(case, output=repr(c["output"]), kw=repr(c["kw"])))
                        p = Tok("real", Tok("contract", 0))
                        if res != Tok("div", p, Tok("sum", p)):
                            bad.setdefault("real-part-normalised-to-one", dict(case, result=repr(res)))
        # the leg order of the messages agrees with the one used where the messages are consumed by the update / norm
        ltc = _find(root, D2, "D2BP.local_tensor_contract")
        cm = _find(root, D2, "D2BP.compute_marginal")

        def leg_orders(fn):
            return sorted({U(n.args[0]) for n in ast.walk(fn) if isinstance(n, ast.Call) and U(n.func) == "m_inputs.append"})
        a, b = leg_orders(ltc) if ltc else None, leg_orders(cm) if cm else None
        norm = lambda xs: None if xs is None else [x.replace("i", "j") for x in xs]  # noqa
        if norm(a) != norm(b) or not a or len(a) != 1:
            bad.setdefault("message-legs-bra-then-ket", dict(local_tensor_contract=a, compute_marginal=b))
        dt = time.time() - t0
        for lab in ("one-contraction", "ket-and-conjugated-bra", "incoming-message-of-each-bond",
                    "diagonal-on-output-trace-on-dangling", "message-legs-bra-then-ket", "output-is-the-asked-index",
                    "real-part-normalised-to-one"):
            ob(fid, lab, lab not in bad, bad.get(lab), dt=dt / 7, kind="fdx", backend="exhaustive")
    guarded(fid, t_d2)
    return obs


def provider_algebra(tier="quick"):
    return algebra_obligations(_root())


def provider(tier="quick"):
    return provider_counting(tier) + provider_algebra(tier)


if __name__ == "__main__":
    for o in provider():
        print(o.status, o.id, round(o.solver_s, 3), o.model or o.detail or "")

# ================================================================================================ E1: the common run loop
import z3  # noqa: E402
from vf.pyvc import And, Contract, Implies, Loop, NS, Not, Or, R, Ref, register, is_z3  # noqa: E402

MD = z3.Function("c14_mdiff", z3.IntSort(), z3.RealSort())    # max message change reported by the k-th call of iterate
AMD = z3.Function("c14_amd", z3.IntSort(), z3.RealSort())     # RollingDiffMean.absmeandiff() after k updates


class _Tok:
    def __init__(self, name):
        self.name = name


@register
class BPRun(Contract):
    target = f"{COMMON}::BeliefPropagationCommon.run"
    property_ids = ("C14",)
    floor = 10
    safety = False
    ghost_fields = ("converged", "n", "g_calls", "g_updates", "g_contracts", "g_callbacks")

    def cases(self):
        return [NS(name=f"tol_abs={ta},rolling={ro},info={inf},callback={cb}", ta=ta, ro=ro, inf=inf, cb=cb)
                for ta in ("None", "given") for ro in ("zero", "None", "given") for inf in (False, True) for cb in (False, True)]

    def inputs(self, cx, case):
        mi, tol = cx.Int("max_iterations"), cx.Real("tol")
        n0 = cx.Int("n0")
        self_ = cx.new_obj("BP", converged=cx.Bool("conv0"), n=n0, mdiffs=_Tok("mdiffs"), rdiffs=_Tok("rdiffs"),
                           callback=_Tok("callback") if case.cb else None, _diis=_Tok("old-diis"),
                           g_calls=0, g_updates=0, g_contracts=0, g_callbacks=0)
        ta = None if case.ta == "None" else cx.Real("tol_abs")
        ro = {"zero": 0.0, "None": None, "given": cx.Real("tol_rolling")}[case.ro]
        cx.ghost.update(n0=n0, self_=self_)
        return dict(self=self_, max_iterations=mi, diis=False, tol=tol, tol_abs=ta, tol_rolling_diff=ro,
                    info={} if case.inf else None, progbar=False)

    def requires(self, a, case):
        # max_iterations == 0 raises UnboundLocalError on the unchanged tree (reported defect): outside this contract
        return {"at-least-one-iteration-allowed": a.max_iterations >= 1}

    def _eff(self, a, case):
        ta = a.tol if case.ta == "None" else a.tol_abs
        ro = {"zero": None, "None": a.tol, "given": a.tol_rolling_diff}[case.ro]
        return R(ta), ro

    def _crit(self, a, case, k):
        """convergence criterion evaluated after the k-th iteration (k >= 1)"""
        ta, ro = self._eff(a, case)
        c = MD(k - 1) < ta
        if ro is not None:
            c = Or(c, And(R(ro) > 0, AMD(k) < R(ro)))
        return c

    def inv(self, v):
        cx, case, a = v.cx, v.case, v.old
        f = cx.fields(cx.ghost["self_"])
        it = v.it
        d = {"count": And(it >= 0, it <= a.max_iterations, f["g_calls"] == it, f["n"] == cx.ghost["n0"] + it,
                          f["g_contracts"] == it, f["g_callbacks"] == (it if case.cb else 0)),
             "converged-iff-last-criterion": f["converged"] == And(it >= 1, self._crit(a, case, it)),
             "rolling-updates": f["g_updates"] == (0 if case.ro == "zero" else
                                                   z3.If(R(self._eff(a, case)[1]) > 0, it, 0))}
        if "max_mdiff" in v.__dict__ and is_z3(v.__dict__["max_mdiff"]):
            d["last-mdiff"] = Implies(it >= 1, v.max_mdiff == MD(it - 1))
        else:
            d["last-mdiff"] = it == 0
        return d

    @property
    def loops(self):
        return {0: Loop("while not self.converged and it < max_iterations", self.inv,
                        retype={"max_mdiff": lambda cx: cx.Real("max_mdiff"), "result": lambda cx: _Tok("result"),
                                "amd": lambda cx: cx.Real("amd")},
                        extra_modifies=("max_mdiff",))}

    def call(self, cx, name, args, kwargs, node):
        g = cx.ghost
        f = cx.fields(g["self_"])
        if name == "RollingDiffMean":
            return _Tok("rdm")
        if name == "self._maybe_contract":
            f["g_contracts"] = f["g_contracts"] + 1
            return None
        if name == "self.iterate":
            a = cx.old
            cx.oblige(f"iterate-gets-tol@{node.lineno}", "call-pre",
                      And(len(args) == 0, set(kwargs) == {"tol"}, R(kwargs.get("tol", 0)) == R(a.tol)), node.lineno)
            k = f["g_calls"]
            f["g_calls"] = k + 1
            return MD(k)
        if name == "__isinstance__" and args[1] == "dict":
            return isinstance(args[0], dict)
        if name == "self.mdiffs.append":
            cx.oblige(f"mdiff-recorded@{node.lineno}", "call-pre", R(args[0]) == MD(f["g_calls"] - 1), node.lineno)
            return None
        if name == "self.rdiffs.append":
            return None
        if name == "rdm.update":
            cx.oblige(f"rolling-mean-fed-with-mdiff@{node.lineno}", "call-pre", R(args[0]) == MD(f["g_calls"] - 1), node.lineno)
            f["g_updates"] = f["g_updates"] + 1
            return None
        if name == "rdm.absmeandiff":
            return AMD(f["g_calls"])
        if name == "self.callback":
            cx.oblige(f"callback-gets-self@{node.lineno}", "call-pre", isinstance(args[0], Ref) and args[0] == g["self_"], node.lineno)
            f["g_callbacks"] = f["g_callbacks"] + 1
            return None
        if name == "dict" and not args and not kwargs:
            return {}
        if name == "warnings.warn":
            g["warned"] = True
            return None
        if name in ("__bitop__", "__binop__"):
            op, x, y = args
            if op == "BitOr" and all(isinstance(q, bool) or (is_z3(q) and z3.is_bool(q)) for q in (x, y)):
                return Or(x, y)  # python: bool | bool
        return NotImplemented

    def ensures(self, a, r, cx, case):
        f = cx.fields(cx.ghost["self_"])
        it = cx.env["it"]
        d = {"returns-none": r is None,
             "max-iterations-respected": And(it >= 1, it <= a.max_iterations, f["g_calls"] == it, f["n"] == cx.ghost["n0"] + it),
             "stops-only-when-converged-or-exhausted": Or(f["converged"], it == a.max_iterations),
             "converged-iff-last-criterion": f["converged"] == self._crit(a, case, it),
             "final-contract-hook": f["g_contracts"] == it + 1,
             "no-diis": f["_diis"] is None,
             "warned-iff-unconverged": (z3.BoolVal(bool(cx.ghost.get("warned"))) == And(R(a.tol) != 0, Not(f["converged"])))}
        if case.inf:
            info = cx.env["info"]
            d["info-filled"] = And(set(info) == {"converged", "iterations", "max_mdiff", "rolling_abs_mean_diff"},
                                   info.get("converged") == f["converged"], info.get("iterations") == it,
                                   info.get("max_mdiff") == MD(it - 1), info.get("rolling_abs_mean_diff") == AMD(it))
        return d
