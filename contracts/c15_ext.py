"""C15 extension: more of quimb/core.py under contract (engine E1 over the real source) + grid providers on the real code.

E1 (symbolic execution of the real ast, z3):
  pkron              -- permute-then-embed: ikron(op, [prod dims[inds], prod rest], 0, **opts) followed by
                        permute(b, dims[p], inverse(p)) with p = inds ++ ascending complement, for every ordered index
                        subset of K <= 3 subsystems, symbolic dimensions (np.asarray / fancy indexing / np.empty / np.arange
                        are leaf models over python lists)
  permute            -- dispatch: sparse -> _permute_sparse(p, dims, perm), dense -> _permute_dense(p, dims, perm)
  kronpow            -- kron(*(a,) * p, **kron_opts) for p = 0..4
  partial_trace      -- dispatch over (dims kind) x (sparse / dense): dim_map exactly when the lattice has >= 2 dimensions
  _partial_trace_dense -- index lists of the tensordot / itrace call: lose = ascending complement of keep, lose2 = lose + n
  _trace_lose        -- slicing arithmetic (a, e, b symbolic): rows i_i : i_f : b are the e rows (alpha, t, beta), t < e
  _trace_keep        -- slicing arithmetic (a, s, b symbolic): rows i_i : i_f are the b rows (k, i, beta), beta < b
  ind_complement     -- n <= 4, every subset

providers (real functions re-compiled from the source text of the checked tree on every run; exhaustive over the STATED
finite grid, not proved): permute dense / sparse vs numpy transpose, _trace_lose / _trace_keep / partial_trace vs einsum,
itrace vs einsum, _find_shape_of_nested_int_array, ind_complement, pkron vs ikron on permuted subsystems.
"""
import ast
import itertools
import os
import time as _time

import z3

from vf.pyvc import (And, Contract, If, Implies, Loop, NS, Not, Or, PyRaise, Unsupported, I, Z, is_int, is_z3, register)
from contracts.c15_kron import PROD, Base, CORE, PID


# =====================================================================================================================
# leaf models of numpy 1-d integer arrays of concrete length
# =====================================================================================================================


class NpVec:
    """1-d numpy array of concrete length whose items are python ints / z3 ints"""

    def __init__(self, items):
        self.items = list(items)

    def __repr__(self):
        return f"NpVec({self.items})"


class Rec:
    """the value returned by an uninterpreted callee: callee name + actual arguments"""

    def __init__(self, fn, args, kwargs):
        self.fn, self.args, self.kwargs = fn, list(args), dict(kwargs)

    def __repr__(self):
        return f"Rec({self.fn}, {self.args}, {self.kwargs})"


def seq(v):
    if isinstance(v, NpVec):
        return list(v.items)
    if isinstance(v, (tuple, list)):
        return list(v)
    raise Unsupported(f"not a sequence: {v!r}")


def same(x, y):
    """structural identity of two values (python constants, z3 terms, engine objects)"""
    if is_z3(x) or is_z3(y):
        return Z(x) == Z(y) if (is_z3(x) or isinstance(x, int)) and (is_z3(y) or isinstance(y, int)) else False
    if isinstance(x, (tuple, list)) and isinstance(y, (tuple, list)):
        return len(x) == len(y) and And(*[same(p, q) for p, q in zip(x, y)]) if len(x) == len(y) else False
    if isinstance(x, (int, str, bool, type(None))) or isinstance(y, (int, str, bool, type(None))):
        return type(x) is type(y) and x == y
    return x is y


class NpBase(Base):
    def call(self, cx, name, args, kwargs, node):
        if name == "np.asarray":
            return args[0] if not isinstance(args[0], (tuple, list)) else NpVec(args[0])
        if name == "__len__" and isinstance(args[0], NpVec):
            return len(args[0].items)
        if name == "prod" and isinstance(args[0], NpVec):
            return PROD(args[0].items)
        if name == "__getitem__" and isinstance(args[0], NpVec):
            base, idx = args
            if isinstance(idx, int):
                if not -len(base.items) <= idx < len(base.items):
                    raise PyRaise("IndexError", node.lineno)
                return base.items[idx]
            if isinstance(idx, (NpVec, list)):  # numpy integer-array indexing
                ix = seq(idx)
                if not all(isinstance(i, int) and -len(base.items) <= i < len(base.items) for i in ix):
                    raise PyRaise("IndexError", node.lineno)
                return NpVec([base.items[i] for i in ix])
            raise Unsupported(f"index {idx!r} into a numpy vector")
        if name == "__getslice__" and isinstance(args[0], NpVec):
            base, lo, hi, st = args
            if all(x is None or isinstance(x, int) for x in (lo, hi, st)):
                return NpVec(base.items[lo:hi:st])
            raise Unsupported("symbolic slice of a numpy vector")
        if name == "enumerate" and isinstance(args[0], NpVec):
            return tuple(enumerate(args[0].items))
        if name == "__contains__" and isinstance(args[0], NpVec):
            if isinstance(args[1], int) and all(isinstance(i, int) for i in args[0].items):
                return args[1] in args[0].items
            raise Unsupported("symbolic membership in a numpy vector")
        if name == "__tuple__":
            out = []
            for kind, v in args[0]:
                if kind == "star":
                    out.extend(seq(v))
                else:
                    out.append(v)
            return tuple(out)
        if name == "np.empty" and isinstance(args[0], int):
            return NpVec([None] * args[0])  # uninitialised
        if name == "np.arange" and len(args) == 1 and isinstance(args[0], int):
            return NpVec(range(args[0]))
        if name == "__setitem__" and isinstance(args[0], NpVec):
            base, idx, val = args
            if isinstance(idx, (NpVec, list)) and isinstance(val, NpVec):  # a[idx] = val : a[idx[k]] = val[k]
                ix = seq(idx)
                if len(ix) != len(val.items):
                    raise PyRaise("ValueError", node.lineno)
                if not all(isinstance(i, int) and -len(base.items) <= i < len(base.items) for i in ix):
                    raise PyRaise("IndexError", node.lineno)
                for k, i in enumerate(ix):
                    base.items[i] = val.items[k]
                return None
            raise Unsupported("store into a numpy vector")
        return super().call(cx, name, args, kwargs, node)

    def attr(self, cx, base, attr, node):
        if base is None and attr == "np":
            return "np"
        if base == "np" and attr in ("int32", "int64", "complex128"):
            return "np." + attr
        return NotImplemented


def record(cx, rec):
    cx.__dict__.setdefault("c15x_calls", []).append(rec)
    return rec


def calls_of(cx):
    return list(cx.__dict__.get("c15x_calls", []))


# =====================================================================================================================
# pkron
# =====================================================================================================================


def _ordered_subsets(K):
    for m in range(1, K + 1):
        for sub in itertools.permutations(range(K), m):
            yield sub


@register
class Pkron(NpBase):
    """pkron(op, dims, inds, **o) == permute(ikron(op, [sz_in, sz_out], 0, **o), dims[p], p^-1), p = inds ++ complement:
    the operator is embedded on the leading block and subsystem k of the pre-permuted space (which is subsystem p[k] of
    the target) is sent to position p[k]"""

    target = f"{CORE}::pkron"
    floor = 8

    def cases(self):
        return [NS(name=f"K={K},inds={list(s)}", K=K, inds=s) for K in (1, 2, 3) for s in _ordered_subsets(K)]

    def inputs(self, cx, case):
        return dict(op=cx.Opaque("op"), dims=[cx.Int(f"d{i}") for i in range(case.K)], inds=list(case.inds),
                    ikron_opts={"sparse": cx.Opaque("sparse"), "stype": cx.Opaque("stype")})

    def requires(self, a, case):
        return {"dims>=1": And(*[d >= 1 for d in a.dims])}

    def call(self, cx, name, args, kwargs, node):
        if name in ("ikron", "permute"):
            return record(cx, Rec(name, args, kwargs))
        return super().call(cx, name, args, kwargs, node)

    def ensures(self, a, r, cx, case):
        K, inds = case.K, list(case.inds)
        rest = [i for i in range(K) if i not in inds]
        p = inds + rest
        inv = [p.index(k) for k in range(K)]
        cs = calls_of(cx)
        d = {"calls-are-ikron-then-permute": [c.fn for c in cs] == ["ikron", "permute"]}
        if not d["calls-are-ikron-then-permute"]:
            return d
        ik, pm = cs
        d["ikron-args"] = len(ik.args) == 3 and ik.args[0] is a.op and same(ik.args[2], 0)
        d["ikron-options-threaded"] = set(ik.kwargs) == set(a.ikron_opts) and all(ik.kwargs[k] is a.ikron_opts[k] for k in ik.kwargs)
        dd = ik.args[1] if len(ik.args) > 1 else None
        ok = isinstance(dd, (list, tuple)) and len(dd) == 2
        d["ikron-dims-two-blocks"] = ok
        if ok:
            d["ikron-dims-[sz_in,...]"] = Z(dd[0]) == PROD([a.dims[i] for i in inds])
            # sz // sz_in == prod of the untouched dims  <=>  dd1 * sz_in == sz (exact division)
            d["ikron-dims-[...,sz_out]"] = Z(dd[1]) * PROD([a.dims[i] for i in inds]) == PROD(a.dims)
        d["permute-args"] = len(pm.args) == 3 and not pm.kwargs and pm.args[0] is ik
        if d["permute-args"]:
            try:
                dc, ip = seq(pm.args[1]), seq(pm.args[2])
            except Unsupported:
                dc = ip = None
            d["permute-dims-cur==dims[p]"] = dc is not None and same(dc, [a.dims[i] for i in p])
            d["permute-perm==inverse(p)"] = ip is not None and same(ip, inv)
        d["returns-permute"] = r is pm
        return d


# =====================================================================================================================
# permute / kronpow / partial_trace -- dispatch and option threading
# =====================================================================================================================


@register
class Permute(Base):
    target = f"{CORE}::permute"
    floor = 2

    def cases(self):
        return [NS(name="sparse", sparse=True), NS(name="dense", sparse=False)]

    def inputs(self, cx, case):
        return dict(p=cx.Opaque("p"), dims=cx.Opaque("dims"), perm=cx.Opaque("perm"))

    def call(self, cx, name, args, kwargs, node):
        if name == "issparse":
            return cx.case.sparse
        if name in ("_permute_sparse", "_permute_dense"):
            return record(cx, Rec(name, args, kwargs))
        return super().call(cx, name, args, kwargs, node)

    def requires(self, a, case):
        return {}

    def ensures(self, a, r, cx, case):
        cs = calls_of(cx)
        want = "_permute_sparse" if case.sparse else "_permute_dense"
        d = {"one-call-to-the-right-route": [c.fn for c in cs] == [want]}
        if d["one-call-to-the-right-route"]:
            c = cs[0]
            d["args-(p,dims,perm)"] = len(c.args) == 3 and not c.kwargs and c.args[0] is a.p and c.args[1] is a.dims \
                and c.args[2] is a.perm
            d["returns-it"] = r is c
        return d


@register
class Kronpow(Base):
    target = f"{CORE}::kronpow"
    floor = 3

    def cases(self):
        return [NS(name=f"p={p}", p=p) for p in range(5)]

    def inputs(self, cx, case):
        return dict(a=cx.Opaque("a"), p=case.p, kron_opts={"stype": cx.Opaque("stype"), "ownership": cx.Opaque("own")})

    def requires(self, a, case):
        return {}

    def call(self, cx, name, args, kwargs, node):
        if name == "kron":
            return record(cx, Rec(name, args, kwargs))
        return super().call(cx, name, args, kwargs, node)

    def ensures(self, a, r, cx, case):
        cs = calls_of(cx)
        d = {"one-kron-call": [c.fn for c in cs] == ["kron"]}
        if d["one-kron-call"]:
            c = cs[0]
            d["p-copies-of-a"] = len(c.args) == case.p and all(x is a.a for x in c.args)
            d["options-threaded"] = set(c.kwargs) == set(a.kron_opts) and all(c.kwargs[k] is a.kron_opts[k] for k in c.kwargs)
            d["returns-it"] = r is c
        return d


class NdDims:
    """dims given as a numpy array: only .ndim is read"""

    def __init__(self, ndim):
        self.ndim = ndim


class NestedSeq:
    """dims given as a nested python sequence: no .ndim attribute; its nesting depth is what
    _find_shape_of_nested_int_array reports"""

    def __init__(self, depth):
        self.depth = depth


@register
class PartialTrace(Base):
    """lattice dims (>= 2 array dimensions) are flattened by dim_map(dims, keep) first; sparse states go to
    _partial_trace_simple, dense ones to _partial_trace_dense, with the (possibly mapped) dims and keep"""

    target = f"{CORE}::partial_trace"
    floor = 3

    def cases(self):
        return [NS(name=f"{kind}{nd},{'sparse' if sp else 'dense'}", kind=kind, nd=nd, sparse=sp)
                for kind in ("ndarray", "nested") for nd in (1, 2, 3) for sp in (False, True)]

    def inputs(self, cx, case):
        return dict(p=cx.Opaque("p"), dims=NdDims(case.nd) if case.kind == "ndarray" else NestedSeq(case.nd),
                    keep=cx.Opaque("keep"))

    def requires(self, a, case):
        return {}

    def attr(self, cx, base, attr, node):
        if isinstance(base, NdDims) and attr == "ndim":
            return base.ndim
        if isinstance(base, NestedSeq) and attr == "ndim":
            raise PyRaise("AttributeError", node.lineno)
        return NotImplemented

    def call(self, cx, name, args, kwargs, node):
        if name == "_find_shape_of_nested_int_array" and isinstance(args[0], NestedSeq):
            # [leaf, provider 'nested-shape'] the shape of a nested sequence has one entry per nesting level
            return tuple(cx.Int(f"ext{i}") for i in range(args[0].depth))
        if name == "issparse":
            return cx.case.sparse
        if name == "dim_map":
            rec = record(cx, Rec(name, args, kwargs))
            rec.out = (cx.Opaque("flatdims"), cx.Opaque("flatkeep"))
            return rec.out
        if name in ("_partial_trace_simple", "_partial_trace_dense"):
            return record(cx, Rec(name, args, kwargs))
        return super().call(cx, name, args, kwargs, node)

    def ensures(self, a, r, cx, case):
        cs = calls_of(cx)
        route = "_partial_trace_simple" if case.sparse else "_partial_trace_dense"
        want = (["dim_map"] if case.nd >= 2 else []) + [route]
        d = {"calls": [c.fn for c in cs] == want}
        if not d["calls"]:
            return d
        fin = cs[-1]
        if case.nd >= 2:
            dm = cs[0]
            d["dim_map(dims,keep)"] = len(dm.args) == 2 and not dm.kwargs and dm.args[0] is a.dims and dm.args[1] is a.keep
            d["route-gets-mapped-dims-keep"] = len(fin.args) == 3 and not fin.kwargs and fin.args[0] is a.p \
                and fin.args[1] is dm.out[0] and fin.args[2] is dm.out[1]
        else:
            d["route-gets-(p,dims,keep)"] = len(fin.args) == 3 and not fin.kwargs and fin.args[0] is a.p \
                and fin.args[1] is a.dims and fin.args[2] is a.keep
        d["returns-route"] = r is fin
        return d


# =====================================================================================================================
# ind_complement
# =====================================================================================================================


def _subsets(n):
    for m in range(n + 1):
        for s in itertools.combinations(range(n), m):
            yield s


@register
class IndComplement(Base):
    target = f"{CORE}::ind_complement"
    floor = 1

    def cases(self):
        out = []
        for n in range(5):
            for s in _subsets(n):
                for order in ("asc", "desc"):
                    if order == "desc" and len(s) < 2:
                        continue
                    out.append(NS(name=f"n={n},inds={list(s)},{order}", n=n, inds=s if order == "asc" else s[::-1]))
        return out

    def inputs(self, cx, case):
        return dict(inds=tuple(case.inds), n=case.n)

    def requires(self, a, case):
        return {}

    def ensures(self, a, r, cx, case):
        return {"ascending-complement": isinstance(r, tuple) and list(r) == [i for i in range(case.n) if i not in case.inds]}


# =====================================================================================================================
# _trace_lose / _trace_keep -- the slicing arithmetic (everything symbolic; obligations raised at the slice)
# =====================================================================================================================


class Mat:
    """the operator p (only sliced)"""


class Block:
    def __init__(self, rows, cols):
        self.rows, self.cols = rows, cols


class Out:
    """the result array rhos (only written)"""

    def __init__(self, shape):
        self.shape = shape


DIV = z3.Function("c15x_div", z3.IntSort(), z3.IntSort(), z3.IntSort())
MOD = z3.Function("c15x_mod", z3.IntSort(), z3.IntSort(), z3.IntSort())


class TraceBase(NpBase):
    safety = True
    nonlinear_hooks = True

    def call(self, cx, name, args, kwargs, node):
        if name == "isop" and isinstance(args[0], Mat):
            return True
        if name == "prod":
            if getattr(self, "ghost_prod", False):
                # the value of prod(...) as a ghost integer with its defining equation (keeps range(a) symbolic: prod(()) is 1)
                g = cx.Int("prod")
                cx.assume(g == PROD(seq(args[0])))
                return g
            return PROD(seq(args[0]))
        if name == "__nldivmod__":
            # euclidean division by a positive divisor as the function pair (DIV, MOD) with its defining instance
            x, y = Z(args[0]), Z(args[1])
            cx.oblige(f"enc@{node.lineno}:divisor>0", "enc", y > 0, node.lineno)
            cx.assume(And(x == DIV(x, y) * y + MOD(x, y), 0 <= MOD(x, y), MOD(x, y) < y))
            return DIV(x, y), MOD(x, y)
        if name == "np.zeros":
            return Out(kwargs.get("shape", args[0] if args else None))
        if name == "__getitem__" and isinstance(args[0], Mat):
            idx = args[1]
            if isinstance(idx, tuple) and len(idx) == 2 and all(isinstance(s, slice) for s in idx):
                self.at_slice(cx, idx[0], idx[1], node)
                return Block(idx[0], idx[1])
            raise Unsupported("p is only block-sliced")
        if name == "trace" and isinstance(args[0], Block):
            return Rec("trace", args, kwargs)
        if name == ".conjugate" and isinstance(args[0], Rec):
            return Rec("conj", [args[0]], {})
        if name == "__getitem__" and isinstance(args[0], Out):
            return Rec("read", [args[1]], {})
        if name == "__setitem__" and isinstance(args[0], Out):
            self.at_store(cx, args[1], args[2], node)
            return None
        if name == "__binop__" and args[0] == "Add" and isinstance(args[1], Rec) and args[1].fn == "read":
            return Rec("acc", [args[1], args[2]], {})  # rhos[i, j] += x
        return super().call(cx, name, args, kwargs, node)


@register
class TraceLose(TraceBase):
    """dims = (..a.., e, ..b..) compressed to (a, e, b); for the output entry (i, j), i = alpha * b + beta:
    the block p[i_i:i_f:b, j_i:j_f:b] has exactly e rows, row t is the flat index (alpha, t, beta) of (a, e, b) -- and
    likewise for the columns with j -- and stays inside p; the entry is stored at [i, j] and its conjugate at [j, i]"""

    target = f"{CORE}::_trace_lose"
    floor = 10

    def cases(self):
        # (K = 1 is the instance dims = (1, e) of K = 2, lose = 1: a = b = 1)
        return [NS(name=f"K={K},lose={l}", K=K, lose=l) for K in (2, 3) for l in range(K)]

    def inputs(self, cx, case):
        cx.c15x_dims = [cx.Int(f"d{i}") for i in range(case.K)]
        return dict(p=Mat(), dims=list(cx.c15x_dims), lose=case.lose)

    def requires(self, a, case):
        return {"dims>=1": And(*[d >= 1 for d in a.dims])}

    def abc(self, cx):
        ds, l = cx.c15x_dims, cx.case.lose
        return PROD(ds[:l]), ds[l], PROD(ds[l + 1:])

    def rows_spec(self, cx, sl, i, tag, node):
        A, E, B = self.abc(cx)
        q, r = DIV(Z(i), B), MOD(Z(i), B)
        X = E * B
        hyp = And(0 <= Z(i), Z(i) < A * B, Z(i) == q * B + r, 0 <= r, r < B)  # (q, r) = divmod(i, b), defining equation
        lo, hi, st = Z(0 if sl.start is None else sl.start), Z(sl.stop), Z(1 if sl.step is None else sl.step)
        ln = node.lineno
        cx.oblige(f"slice-{tag}-step==b@{ln}", "post", Implies(hyp, st == B), ln)
        cx.oblige(f"slice-{tag}-start==(alpha,0,beta)@{ln}", "post", Implies(hyp, lo == q * (E * B) + r), ln)
        cx.oblige(f"slice-{tag}-has-exactly-e-rows@{ln}", "post",
                  Implies(hyp, And(lo + (E - 1) * st < hi, hi <= lo + E * st)), ln)
        # cut: two arithmetic steps proved on their own, then used as hypotheses (q < a; q * (e b) <= (a - 1) * (e b))
        Y = z3.Int(f"eb!{tag}")
        cx.oblige(f"slice-{tag}-cut1:alpha<a@{ln}", "post", Implies(hyp, q < A), ln)
        cx.oblige(f"slice-{tag}-cut2:monotone@{ln}", "post", Implies(And(q <= A - 1, Y >= 0, q >= 0), q * Y <= (A - 1) * Y), ln)
        cut = And(q < A, Implies(And(q <= A - 1, X >= 0, q >= 0), q * X <= (A - 1) * X))  # cut2 at Y := e b
        cx.oblige(f"slice-{tag}-inside-p@{ln}", "post", Implies(And(hyp, cut), And(0 <= lo, hi <= A * E * B)), ln)

    def at_slice(self, cx, rs, cs, node):
        v = cx.env
        self.rows_spec(cx, rs, v["i"], "rows", node)
        self.rows_spec(cx, cs, v["j"], "cols", node)

    def at_store(self, cx, idx, val, node):
        v, ln = cx.env, node.lineno
        ok = isinstance(idx, tuple) and len(idx) == 2
        if ok and isinstance(val, Rec) and val.fn == "trace":
            cx.oblige(f"store-trace-at-[i,j]@{ln}", "post", And(Z(idx[0]) == Z(v["i"]), Z(idx[1]) == Z(v["j"])), ln)
        elif ok and isinstance(val, Rec) and val.fn == "conj" and val.args[0].fn == "read":
            src = val.args[0].args[0]
            cx.oblige(f"store-conj-at-[j,i]@{ln}", "post",
                      And(Z(idx[0]) == Z(v["j"]), Z(idx[1]) == Z(v["i"]), Z(src[0]) == Z(v["i"]), Z(src[1]) == Z(v["j"]),
                          Z(v["i"]) != Z(v["j"])), ln)
        else:
            cx.oblige(f"store-unexpected@{ln}", "post", False, ln)

    @property
    def loops(self):
        def inv0(v):
            A, E, B = self.abc(v.cx)
            return {"i-range": And(0 <= v.i, v.i <= A * B)}

        def inv1(v):
            A, E, B = self.abc(v.cx)
            return {"i-range": And(0 <= v.i, v.i < A * B), "j-range": And(v.i <= v.j, v.j <= A * B)}
        return {0: Loop("for i in range(a * b)", inv0, retype={"rhos": lambda cx: cx.env["rhos"]}), 1: Loop("for j in range(i, a * b)", inv1, retype={"rhos": lambda cx: cx.env["rhos"]})}

    def ensures(self, a, r, cx, case):
        A, E, B = self.abc(cx)
        ok = isinstance(r, Out) and isinstance(r.shape, tuple) and len(r.shape) == 2
        d = {"returns-rhos": ok}
        if ok:
            d["shape-(ab,ab)"] = And(Z(r.shape[0]) == A * B, Z(r.shape[1]) == A * B)
        return d


@register
class TraceKeep(TraceBase):
    """dims compressed to (a, s, b); for the output entry (i, j) and every k < a the block p[i_i:i_f, j_i:j_f] is the b
    consecutive rows (k, i, beta), beta < b, and columns (k, j, beta), inside p; accumulated into [i, j]; conj at [j, i]"""

    target = f"{CORE}::_trace_keep"
    floor = 10
    ghost_prod = True

    def cases(self):
        return [NS(name=f"K={K},keep={l}", K=K, keep=l) for K in (1, 2, 3) for l in range(K)]

    def inputs(self, cx, case):
        cx.c15x_dims = [cx.Int(f"d{i}") for i in range(case.K)]
        return dict(p=Mat(), dims=list(cx.c15x_dims), keep=case.keep)

    def requires(self, a, case):
        return {"dims>=1": And(*[d >= 1 for d in a.dims])}

    def abc(self, cx):
        ds, l = cx.c15x_dims, cx.case.keep
        return PROD(ds[:l]), ds[l], PROD(ds[l + 1:])

    def rows_spec(self, cx, sl, i, tag, node):
        A, S, B = self.abc(cx)
        k = Z(cx.env["k"])
        hyp = And(0 <= Z(i), Z(i) < S, 0 <= k, k < A)
        ln = node.lineno
        cx.oblige(f"slice-{tag}-unit-step@{ln}", "post", sl.step is None, ln)
        lo, hi = Z(sl.start), Z(sl.stop)
        cx.oblige(f"slice-{tag}-start==(k,i,0)@{ln}", "post", Implies(hyp, lo == k * (S * B) + Z(i) * B), ln)
        cx.oblige(f"slice-{tag}-has-exactly-b-rows@{ln}", "post", Implies(hyp, hi == lo + B), ln)
        cx.oblige(f"slice-{tag}-inside-p@{ln}", "post", Implies(hyp, And(0 <= lo, hi <= A * S * B)), ln)

    def at_slice(self, cx, rs, cs, node):
        v = cx.env
        self.rows_spec(cx, rs, v["i"], "rows", node)
        self.rows_spec(cx, cs, v["j"], "cols", node)

    def at_store(self, cx, idx, val, node):
        v, ln = cx.env, node.lineno
        ok = isinstance(idx, tuple) and len(idx) == 2
        if ok and isinstance(val, Rec) and val.fn == "acc" and isinstance(val.args[1], Rec) and val.args[1].fn == "trace":
            src = val.args[0].args[0]
            cx.oblige(f"accumulate-trace-at-[i,j]@{ln}", "post",
                      And(Z(idx[0]) == Z(v["i"]), Z(idx[1]) == Z(v["j"]), Z(src[0]) == Z(v["i"]), Z(src[1]) == Z(v["j"])), ln)
        elif ok and isinstance(val, Rec) and val.fn == "conj" and val.args[0].fn == "read":
            src = val.args[0].args[0]
            cx.oblige(f"store-conj-at-[j,i]@{ln}", "post",
                      And(Z(idx[0]) == Z(v["j"]), Z(idx[1]) == Z(v["i"]), Z(src[0]) == Z(v["i"]), Z(src[1]) == Z(v["j"]),
                          Z(v["i"]) != Z(v["j"])), ln)
        else:
            cx.oblige(f"store-unexpected@{ln}", "post", False, ln)

    @property
    def loops(self):
        def inv0(v):
            A, S, B = self.abc(v.cx)
            return {"i-range": And(0 <= v.i, v.i <= S)}

        def inv1(v):
            A, S, B = self.abc(v.cx)
            return {"i-range": And(0 <= v.i, v.i < S), "j-range": And(v.i <= v.j, v.j <= S)}

        def inv2(v):
            A, S, B = self.abc(v.cx)
            return {"i-range": And(0 <= v.i, v.i < S), "j-range": And(v.i <= v.j, v.j < S), "k-range": And(0 <= v.k, v.k <= A),
                    "every-k-visited": v.k == getattr(v, "_it2")}
        return {0: Loop("for i in range(s)", inv0, retype={"rhos": lambda cx: cx.env["rhos"]}), 1: Loop("for j in range(i, s)", inv1, retype={"rhos": lambda cx: cx.env["rhos"]}), 2: Loop("for k in range(a)", inv2, retype={"rhos": lambda cx: cx.env["rhos"]})}

    def ensures(self, a, r, cx, case):
        A, S, B = self.abc(cx)
        ok = isinstance(r, Out) and isinstance(r.shape, tuple) and len(r.shape) == 2
        d = {"returns-rhos": ok}
        if ok:
            d["shape-(s,s)"] = And(Z(r.shape[0]) == S, Z(r.shape[1]) == S)
        return d


# =====================================================================================================================
# grid provider: the REAL functions (re-compiled from the source text of the checked tree on every run, inside the
# namespace of quimb.core) against numpy references, on every input of a stated finite grid (exhaustive over the grid,
# NOT a proof for larger inputs)
# =====================================================================================================================

_GRID_FNS = ("ind_complement", "itrace", "_partial_trace_dense", "_trace_lose", "_trace_keep", "_partial_trace_simple",
             "partial_trace", "_permute_dense", "_permute_sparse", "permute", "pkron", "_find_shape_of_nested_int_array")


def load_real(root=None, names=_GRID_FNS):
    import quimb.core as qc
    import vf.pyvc as P

    root = root or os.environ.get("VERIF_REPO") or P.REPO
    src = open(os.path.join(root, CORE)).read()
    tree = ast.parse(src)
    ns = dict(vars(qc))
    for node in tree.body:
        if isinstance(node, ast.FunctionDef) and node.name in names:
            code = compile(ast.Module(body=[node], type_ignores=[]), os.path.join(root, CORE), "exec")
            exec(code, ns)
    ns["ptr"] = ns["partial_trace"]
    return NS(**{k: ns[k] for k in names})


def provider_grid(tier="quick", root=None, only=None):
    import numpy as np
    import scipy.sparse as sp
    from vf.framework import ObResult

    F = load_real(root)
    rng = np.random.default_rng(7)
    out = []

    def rnd(*shape):
        return rng.integers(-4, 5, size=shape) + 1j * rng.integers(-4, 5, size=shape)

    def dense(x):
        return x.toarray() if sp.issparse(x) else np.asarray(x)

    def run(fn, label, gen):
        if only and not any(o in f"{fn}::{label}" for o in only):
            return
        t0, n, bad = _time.time(), 0, None
        try:
            for desc, got, want in gen():
                n += 1
                g, w = dense(got()), want()
                if g.shape != w.shape or not np.allclose(g, w, atol=1e-9):
                    bad = dict(input=desc, got=str(g.tolist())[:200], want=str(w.tolist())[:200])
                    break
        except Exception as e:  # noqa
            bad = dict(input=str(locals().get("desc")), error=f"{type(e).__name__}: {e}"[:200])
        out.append(ObResult(id=f"{CORE}::{fn}::{label}", kind="fdx", status="failed" if bad else "discharged",
                            backend="exhaustive", solver_s=round(_time.time() - t0, 3), function=f"{CORE}::{fn}",
                            model=bad or {"inputs": n}, engine="fdx"))

    vals = (1, 2, 3)
    all_dims = [d for K in (1, 2, 3) for d in itertools.product(vals, repeat=K)]
    big_dims = [d for K in (1, 2, 3) for d in itertools.product((2, 3), repeat=K)]
    D = lambda dims: int(np.prod(dims, dtype=int))
    fmts = ("csr", "csc", "coo", "bsr") if tier == "thorough" else ("csr", "coo")

    # ---- permute: subsystem perm[k] of the input becomes subsystem k of the output
    def gen_permute(sparse):
        def g():
            for dims in all_dims:
                K, d = len(dims), D(dims)
                for perm in itertools.permutations(range(K)):
                    for kind in ("ket", "bra", "op"):
                        x = rnd(d, 1) if kind == "ket" else rnd(1, d) if kind == "bra" else rnd(d, d)
                        if kind == "op":
                            want = lambda x=x: x.reshape(dims + dims).transpose(list(perm) + [q + K for q in perm]).reshape(d, d)
                        else:
                            want = lambda x=x, kind=kind: x.reshape(dims).transpose(perm).reshape((d, 1) if kind == "ket" else (1, d))
                        xin = sp.csr_matrix(x) if sparse else x
                        yield (f"dims={dims} perm={perm} {kind}", lambda xin=xin, perm=perm: F.permute(xin, list(dims), list(perm)), want)
        return g
    run("permute", "grid-dense==numpy-transpose", gen_permute(False))
    run("permute", "grid-sparse==numpy-transpose", gen_permute(True))

    # ---- pkron: op acts on dims[inds] (in the order given), identity elsewhere
    def gen_pkron(sparse):
        def g():
            for dims in big_dims:
                K, d = len(dims), D(dims)
                for inds in _ordered_subsets(K):
                    din = tuple(dims[i] for i in inds)
                    rest = [i for i in range(K) if i not in inds]
                    drest = tuple(dims[i] for i in rest)
                    op = rnd(D(din), D(din))
                    p = list(inds) + rest
                    inv = [p.index(k) for k in range(K)]

                    def want(op=op, drest=drest, din=din, inv=inv, K=K, d=d):
                        full = np.kron(op, np.eye(D(drest))).reshape(din + drest + din + drest)
                        return full.transpose(inv + [q + K for q in inv]).reshape(d, d)
                    oin = sp.csr_matrix(op) if sparse else op
                    yield (f"dims={dims} inds={inds}", lambda oin=oin, inds=inds: F.pkron(oin, list(dims), list(inds)), want)
        return g
    run("pkron", "grid-dense==explicit-embedding", gen_pkron(False))
    run("pkron", "grid-sparse==explicit-embedding", gen_pkron(True))

    # ---- partial trace family
    letters = "abcdefgh"

    def ptr_ref(rho, dims, keep):
        K = len(dims)
        keep = sorted(keep)
        r = rho.reshape(tuple(dims) + tuple(dims))
        row = [letters[i] for i in range(K)]
        col = [letters[i] if i not in keep else letters[i].upper() for i in range(K)]
        outl = [letters[i] for i in keep] + [letters[i].upper() for i in keep]
        dk = D([dims[i] for i in keep])
        return np.einsum("".join(row + col) + "->" + "".join(outl), r).reshape(dk, dk)

    def gen_ptr(fmt, kind):
        def g():
            # sparse route: subsystem dimensions >= 2 (dimension-1 subsystems: recorded finding C15-b in dim_compress);
            # operators: total dimension >= 2 (a 1 x 1 array is a ket for isvec / isop) and hermitian (the sparse route
            # fills the lower triangle by conjugation)
            for dims in (all_dims if fmt == "dense" else big_dims):
                K, d = len(dims), D(dims)
                if kind == "op" and d == 1:
                    continue
                psi = rnd(d, 1)
                h = rnd(d, d)
                rho = psi @ psi.conj().T if kind == "ket" else h + h.conj().T
                x = psi if kind == "ket" else rho
                xin = x if fmt == "dense" else sp.csr_matrix(x).asformat(fmt)
                for m in range(1, K + 1):
                    for keep in itertools.permutations(range(K), m):
                        kk = [keep[0], list(keep)] if m == 1 else [list(keep)]
                        for k_ in kk:
                            yield (f"dims={dims} keep={k_} {kind} {fmt}", lambda xin=xin, k_=k_: F.partial_trace(xin, list(dims), k_),
                                   lambda rho=rho, keep=keep: ptr_ref(rho, dims, keep))
        return g
    for fmt in ("dense",) + fmts:
        for kind in ("ket", "op"):
            run("partial_trace", f"grid-{fmt}-{kind}==einsum", gen_ptr(fmt, kind))

    def gen_single(which):
        def g():
            for dims in all_dims:
                K, d = len(dims), D(dims)
                if d == 1:
                    continue  # a 1 x 1 array is not an operator for isop
                rho = rnd(d, d)
                rho = rho + rho.conj().T  # both routines fill the lower triangle by conjugation (hermitian input)
                for pos in range(K):
                    keep = [i for i in range(K) if i != pos] if which == "_trace_lose" else [pos]
                    if which == "_trace_lose" and K == 1:
                        yield (f"dims={dims} lose={pos}", lambda rho=rho, pos=pos: getattr(F, which)(rho, list(dims), pos),
                               lambda rho=rho: np.trace(rho).reshape(1, 1))
                        continue
                    yield (f"dims={dims} pos={pos}", lambda rho=rho, pos=pos: getattr(F, which)(rho, list(dims), pos),
                           lambda rho=rho, keep=keep: ptr_ref(rho, dims, keep))
        return g
    run("_trace_lose", "grid==einsum", gen_single("_trace_lose"))
    run("_trace_keep", "grid==einsum", gen_single("_trace_keep"))

    # ---- itrace: pairs (l, l + K) in every order
    def gen_itrace():
        for dims in big_dims:
            K = len(dims)
            a = rnd(*(tuple(dims) + tuple(dims)))
            for m in range(1, K + 1):
                for lose in itertools.permutations(range(K), m):
                    keep = [i for i in range(K) if i not in lose]
                    dk = tuple(dims[i] for i in keep)
                    axes = ([list(lose), [q + K for q in lose]])
                    yield (f"dims={dims} axes={axes}", lambda a=a, axes=axes: F.itrace(a, axes),
                           lambda a=a, keep=keep, dk=dk: ptr_ref(a, dims, keep).reshape(dk + dk) if keep else
                           np.asarray(np.einsum("".join(letters[:K]) * 2, a)))
                    if m == 1:
                        yield (f"dims={dims} axes=({lose[0]},{lose[0] + K})", lambda a=a, l=lose[0]: F.itrace(a, (l, l + K)),
                               lambda a=a, keep=keep, dk=dk: ptr_ref(a, dims, keep).reshape(dk + dk) if keep else
                               np.asarray(np.einsum("".join(letters[:K]) * 2, a)))
    run("itrace", "grid==einsum", gen_itrace)

    # ---- ind_complement (n <= 6, every subset) and _find_shape_of_nested_int_array (depth <= 3, extents <= 3)
    def gen_indc():
        for n in range(7):
            for s in _subsets(n):
                for inds in (tuple(s), tuple(s[::-1]), set(s)):
                    yield (f"n={n} inds={inds}", lambda inds=inds, n=n: np.asarray(F.ind_complement(inds, n), dtype=float),
                           lambda s=s, n=n: np.asarray([i for i in range(n) if i not in s], dtype=float))
    run("ind_complement", "fdx-n<=6==ascending-complement", gen_indc)

    def gen_shape():
        for depth in (1, 2, 3):
            for shp in itertools.product(vals, repeat=depth):
                arr = np.arange(2, 2 + D(shp)).reshape(shp)
                for conv in ("list", "tuple", "npint"):
                    def nest(x, conv=conv):
                        if x.ndim == 0:
                            return int(x) if conv != "npint" else np.int64(x)
                        it = [nest(y) for y in x]
                        return tuple(it) if conv == "tuple" else it
                    yield (f"shape={shp} {conv}", lambda arr=arr, nest=nest: np.asarray(F._find_shape_of_nested_int_array(nest(arr)), dtype=float),
                           lambda shp=shp: np.asarray(shp, dtype=float))
    run("_find_shape_of_nested_int_array", "grid==numpy-shape", gen_shape)
    return out
