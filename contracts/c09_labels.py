"""C09 / C10 / C13 (/ C06) -- a *label calculus* for the state / operator conventions of quimb's site-structured networks.

Abstract domain
---------------
* An *index id* (the format string "k{}", "b{}", a fresh uuid + "{}", ...) is an element of the uninterpreted sort
  ``IndId``; only equality is known.  String literals of the source are distinct constants (two different texts are
  two different ids), ``rand_uuid()`` returns an id distinct from every id that exists at that moment (FRESHNESS: the
  trusted axiom of this domain).  A *label* is a pair (id, site): ``id.format(site)``; distinct pairs are distinct
  labels (injectivity of formatting over the ids in play: trusted).
* Everything is stated for ONE ARBITRARY ("skolem") site s: a statement proved for s holds for every site.  Sets of
  sites (``gen_sites_present()``, ``where=``, ``keep``) are abstract values carrying the single Boolean "s is a member".
* A network object (heap ``Ref`` of kind "TN") has the declared ids ``_site_ind_id`` (vector like) or ``_upper_ind_id`` /
  ``_lower_ind_id`` (operator like) and the ghost tuple ``layers``.  A *layer* is one original vector / operator that
  was put into the network; it carries ghost ``conj`` (is it the element-wise conjugate of the original), ``present``
  (has it a tensor at s) and, per physical LEG of the original object ("site" for vectors, "up" / "lo" for operators),
  the id of the label that sits on that leg at s (``slots``).  Legs never change their meaning: whatever the declared
  ids are renamed to, "up" is the leg that indexes the ROWS of the original operator's dense form.
* CONVENTION (fixed here, checked at run time by the bounded drivers): dense rows = upper labels; ``A.apply(x)``
  contracts A's lower labels with x; ``tn.H`` is element-wise conjugation only; the matrix element <b|A|k> is the network in
  which the CONJUGATED vector shares its labels with A's up leg and the unconjugated one with A's lo leg.  Two networks
  combined with ``|`` / ``&`` are contracted over the labels they share (a label carried by two legs is summed).

Trusted leaves: ``TensorNetwork.reindex(map)`` replaces every occurrence of a key label by its value and nothing else;
``copy`` / ``.H`` / ``conj_`` / ``|`` / ``&`` / ``|=`` / ``view_as_``; contraction (``^``), ``fuse_multibonds_``, ``compress``,
``drop_tags``, ``add_tag``, ``>>=`` do not rename outer labels.  ``f_ = partialmethod(f, inplace=True)``.
"""

import ast

import z3

from vf.pyvc import (And, Contract, If, Implies, Loop, NS, Not, Opaque, Or, PyRaise, Ref, StarArg, SymIter,
                     Unsupported, is_int, is_z3, register, REGISTRY)

TNAG = "quimb/tensor/tnag/core.py"
TN1D = "quimb/tensor/tn1d/core.py"
DMRGF = "quimb/tensor/tn1d/dmrg.py"
GATING = "quimb/tensor/gating.py"

Id = z3.DeclareSort("IndId")
SITE = z3.Int("s!site")  # the skolem site

# ------------------------------------------------------------------------------------------------------------
# ids
# ------------------------------------------------------------------------------------------------------------

LIT = {}


def lit(text):
    """the id denoted by a string literal (same text -> same constant; different texts are distinct, see lit_axiom)"""
    if text not in LIT:
        LIT[text] = z3.Const("id:" + text, Id)
    return LIT[text]


for _t in ("k{}", "b{}", "__ind_a{}__", "__ind_b{}__", "__ind_c{}__", "__ham2{}__", "_bra{}"):
    lit(_t)


def gen_level(j):
    """the documented automatic id of level j+1 of tensor_network_align: "__ind_a{}__", "__ind_b{}__", ..."""
    return lit(f"__ind_{chr(ord('a') + j)}{{}}__")


def lit_axiom():
    xs = list(LIT.values())
    return z3.Distinct(*xs) if len(xs) > 1 else z3.BoolVal(True)


def is_id(v):
    return is_z3(v) and v.sort() == Id


def reg(cx, *ids):
    cx.ghost.setdefault("ids", []).extend(ids)


def mk_id(cx, name):
    c = z3.Const(cx._name(name), Id)
    reg(cx, c)
    return c


def as_id(cx, v):
    if is_id(v):
        return v
    if isinstance(v, str):
        if v not in LIT:
            c = lit(v)
            cx.assume(And(*[c != o for t, o in LIT.items() if t != v]))
        return lit(v)
    raise Unsupported(f"not an index id: {v!r}")


def fresh_id(cx):
    """rand_uuid(): distinct from every id in existence (inputs, literals, earlier uuids) -- FRESHNESS axiom"""
    c = z3.Const(cx._name("uuid"), Id)
    others = list(cx.ghost.get("ids", [])) + list(LIT.values())
    if others:
        cx.assume(And(*[c != o for o in others]))
    reg(cx, c)
    return c


# ------------------------------------------------------------------------------------------------------------
# layers, networks, site sets, labels
# ------------------------------------------------------------------------------------------------------------


class Layer:
    """one original vector / operator inside a network, seen at the skolem site"""

    def __init__(self, origin, roles, slots, conj, present):
        self.origin, self.roles, self.slots, self.conj, self.present = origin, tuple(roles), tuple(slots), conj, present

    def slot(self, role):
        return self.slots[self.roles.index(role)]

    def replace(self, **kw):
        d = dict(origin=self.origin, roles=self.roles, slots=self.slots, conj=self.conj, present=self.present)
        d.update(kw)
        return Layer(**d)

    def __repr__(self):
        return f"Layer({self.origin}:{dict(zip(self.roles, self.slots))}, conj={self.conj}, present={self.present})"


class SiteSet:
    """a collection of sites; ``has`` : the skolem site is a member"""

    def __init__(self, has, note=""):
        self.has, self.note = has, note


class SliceSet(SiteSet):
    """a python slice of sites (1D): ``has`` : the skolem site lies in the slice"""


class SiteElem:
    """the generic element of a SiteSet (comprehension variable)"""

    def __init__(self, of):
        self.of = of


class Label:
    """id.format(site)"""

    def __init__(self, fam, site):
        self.fam, self.site = fam, site


class LabelMap:
    """{key.fam.format(x): val.fam.format(x) for x in where}"""

    def __init__(self, where, key, val):
        self.where, self.key, self.val = where, key, val


class Marker:
    def __init__(self, name):
        self.name = name

    def __repr__(self):
        return f"<{self.name}>"


class Contraction:
    """the value of ``tn ^ all`` / ``tn ^ ...``: remembers the layers of the network that was contracted"""

    def __init__(self, net, layers):
        self.net, self.layers = net, layers


ALL = Marker("all")
OR_ = Marker("operator.or_")

ID_FIELDS = {"vec": ("_site_ind_id",), "op": ("_upper_ind_id", "_lower_ind_id"), "plain": ()}
PUBLIC = {"site_ind_id": ("vec", "_site_ind_id"), "upper_ind_id": ("op", "_upper_ind_id"),
          "lower_ind_id": ("op", "_lower_ind_id")}


def new_vec(cx, name, conj=None):
    sid = mk_id(cx, f"{name}_site")
    slot = mk_id(cx, f"{name}_slot")
    lay = Layer(name, ("site",), (slot,), cx.Bool(f"{name}_conj") if conj is None else conj, cx.Bool(f"{name}_present"))
    return cx.new_obj("TN", cls="vec", _site_ind_id=sid, layers=(lay,), cyclic=cx.Bool(f"{name}_cyclic"),
                      L=cx.Int(f"{name}_L"), _site_tag_id=mk_id(cx, f"{name}_tagid"))


def new_op(cx, name, conj=None):
    up, lo = mk_id(cx, f"{name}_upper"), mk_id(cx, f"{name}_lower")
    su, sl = mk_id(cx, f"{name}_upslot"), mk_id(cx, f"{name}_loslot")
    lay = Layer(name, ("up", "lo"), (su, sl), cx.Bool(f"{name}_conj") if conj is None else conj,
                cx.Bool(f"{name}_present"))
    return cx.new_obj("TN", cls="op", _upper_ind_id=up, _lower_ind_id=lo, layers=(lay,),
                      cyclic=cx.Bool(f"{name}_cyclic"), L=cx.Int(f"{name}_L"), _site_tag_id=mk_id(cx, f"{name}_tagid"))


def is_tn(v):
    return isinstance(v, Ref) and v.kind == "TN"


def wf(f):
    """representation invariant of a freshly made vector / operator: one layer whose labels are the declared ones"""
    if len(f["layers"]) != 1:
        return False
    lay = f["layers"][0]
    # (labels exist only where the network has a tensor: nothing is said about the slots of an absent site)
    if f["cls"] == "vec":
        return lay.roles == ("site",) and Implies(lay.present, lay.slots[0] == f["_site_ind_id"])
    if f["cls"] == "op":
        return lay.roles == ("up", "lo") and And(Implies(lay.present, And(lay.slots[0] == f["_upper_ind_id"],
                                                                          lay.slots[1] == f["_lower_ind_id"])),
                                                  f["_upper_ind_id"] != f["_lower_ind_id"])
    return False


def present_any(layers):
    return Or(*[l.present for l in layers])


def spec_reindex(layers, has, keyfam, valfam):
    """reindex({keyfam.format(x): valfam.format(x) for x in W}) seen at the skolem site (has: s in W)"""
    return tuple(l.replace(slots=tuple(If(And(has, sl == keyfam), valfam, sl) for sl in l.slots)) for l in layers)


def layers_eq(A, B, flags=True, slots=True):
    if len(A) != len(B):
        return False
    out = []
    for a, b in zip(A, B):
        if a.roles != b.roles or a.origin != b.origin:
            return False
        if slots:
            out += [x == y for x, y in zip(a.slots, b.slots)]
        if flags:
            out += [a.conj == b.conj, a.present == b.present]
    return And(*out)


def same_state(f, g):
    """two field dicts describe the same abstract network"""
    if f["cls"] != g["cls"]:
        return False
    return And(layers_eq(f["layers"], g["layers"]), *[f[k] == g[k] for k in ID_FIELDS[f["cls"]]])


def fresh_like(cx, f, name):
    """field dict of the same shape with arbitrary contents (havoc)"""
    g = dict(f)
    for k in ID_FIELDS[f["cls"]]:
        g[k] = z3.Const(cx._name(f"{name}{k}"), Id)
    g["layers"] = tuple(Layer(l.origin, l.roles, tuple(z3.Const(cx._name(f"{name}_{l.origin}_{r}"), Id) for r in l.roles),
                              cx.Bool(f"{name}_{l.origin}_conj"), cx.Bool(f"{name}_{l.origin}_present"))
                        for l in f["layers"])
    return g


def copy_obj(cx, ref, flip=False):
    f = dict(cx.fields(ref))
    if flip:
        f["layers"] = tuple(l.replace(conj=Not(l.conj)) for l in f["layers"])
    return cx.new_obj("TN", **f)


def combined(cx, a, b):
    """a | b, a & b: a new network holding the tensors of both; the class (declared ids) of the left operand survives
    only for structure-compatible operands, which no carrier relies on: the result is a plain network"""
    fa, fb = cx.fields(a), cx.fields(b)
    return cx.new_obj("TN", cls="plain", layers=fa["layers"] + fb["layers"], cyclic=Or(fa["cyclic"], fb["cyclic"]),
                      L=fa["L"])


def layer_of(layers, origin):
    xs = [l for l in layers if l.origin == origin]
    return xs[0] if len(xs) == 1 else None


# ------------------------------------------------------------------------------------------------------------
# shared modelling of the network API
# ------------------------------------------------------------------------------------------------------------


class LabelContract(Contract):
    property_ids = ("C09", "C10", "C13")
    safety = False
    methods = {}  # method name -> registered target
    drops = "decorators, docstring, annotations"

    # -- inputs: literal ids are pairwise distinct (different strings)
    def inputs(self, cx, case):
        cx.assume(lit_axiom())
        return self.mk_inputs(cx, case)

    # -- f-strings: plain text when every part is text (generated ids such as "__ind_a{}__")
    def on_fstring(self, cx, n):
        parts = []
        for v in n.values:
            if isinstance(v, ast.Constant):
                parts.append(v.value)
            else:
                parts.append(cx.ev(v.value))
        if all(isinstance(p, str) for p in parts):
            return "".join(parts)
        return cx.Opaque("fstr")

    # -- {f(x): g(x) for x in <site set>}
    def on_dictcomp(self, cx, n):
        if len(n.generators) != 1 or n.generators[0].ifs or not isinstance(n.generators[0].target, ast.Name):
            return NotImplemented
        g = n.generators[0]
        it = cx.ev(g.iter)
        if it is None:
            raise PyRaise("TypeError", n.lineno)  # iteration over None
        if isinstance(it, (tuple, list, dict, range)):
            return NotImplemented
        if not isinstance(it, SiteSet):
            raise Unsupported(f"dict comprehension over {it!r}")
        saved = dict(cx.env)
        x = SiteElem(it)
        cx.env[g.target.id] = x
        k, v = cx.ev(n.key), cx.ev(n.value)
        cx.env = saved
        if not (isinstance(k, Label) and isinstance(v, Label) and k.site is x and v.site is x):
            raise Unsupported("dict comprehension that is not a per-site label map")
        return LabelMap(it, k, v)

    def attr(self, cx, base, attr, node):
        if base is None:
            if attr == "all":
                return ALL
            if attr in ("operator", "functools", "qu", "np", "MatrixProductOperator", "TensorNetwork1DFlat",
                        "TensorNetworkGenOperator", "TensorNetworkGenVector", "Tensor", "TensorNetwork"):
                return Marker(attr)
            return NotImplemented
        if isinstance(base, Marker) and base.name == "operator" and attr == "or_":
            return OR_
        if is_tn(base):
            f = cx.fields(base)
            if attr in PUBLIC:
                cls, priv = PUBLIC[attr]
                if f["cls"] != cls:
                    raise PyRaise("AttributeError", node.lineno)
                return f[priv]
            if attr == "H":
                return copy_obj(cx, base, flip=True)
            if attr == "_NDIMS":
                return Marker("_NDIMS")
            if attr in ("_site_inds", "_upper_inds", "_lower_inds"):
                return None
        return NotImplemented

    def havoc_heap(self, cx):
        for oid, f in cx.heap.items():
            if "layers" in f:
                cx.heap[oid] = fresh_like(cx, f, f"hv{oid}")

    def frame_inv(self, key):
        """loop invariant: every network is as it was when the loop was reached (the loop bodies of the carriers only
        contract / fuse / drop tags, which rename no outer label)"""

        def inv(v):
            cx = v.cx
            snap = cx.ghost.get(key)
            if snap is None:
                snap = cx.ghost[key] = {oid: dict(f) for oid, f in cx.heap.items() if "layers" in f}
            return {f"frame-obj{oid}": same_state(cx.heap[oid], f) for oid, f in snap.items()}

        return inv

    # -- callee use: assert requires, havoc the frame (shape preserving), fresh result, assume ensures
    def apply(self, cx, a, node, case=None):
        case = case or self.case_of_call(cx, a)
        name = self.target.split("::")[-1]
        for lab, c in self.requires_at(cx, a, case).items():
            cx.oblige(f"call-pre@{node.lineno}:{name}:{lab}", "call-pre", c, node.lineno)
        pre = {k: dict(v) for k, v in cx.heap.items()}
        for ref, fields in self.modifies(a, case):
            g = fresh_like(cx, cx.heap[ref.oid], f"m{ref.oid}")
            for fld in fields:
                cx.heap[ref.oid][fld] = g[fld]
        saved = cx.pre_heap
        cx.pre_heap = pre
        try:
            res = self.fresh_result(cx, a, case)
            for lab, c in self.ensures(a, res, cx, case).items():
                cx.assume(c)
        finally:
            cx.pre_heap = saved
        return res

    def requires_at(self, cx, a, case):
        """requires evaluated at a call site (current heap)"""
        saved = cx.pre_heap
        cx.pre_heap = cx.heap
        try:
            return self.requires_cx(cx, a, case)
        finally:
            cx.pre_heap = saved

    def requires_cx(self, cx, a, case):
        """pre-conditions over the pre-state ``cx.pre``; used both for the body proof and at call sites"""
        return {}

    def requires(self, a, case):
        cx = a.__dict__.get("_cx")
        return self.requires_cx(cx, a, case) if cx is not None else {}

    # -- calls
    def call(self, cx, name, args, kwargs, node):
        if name == "hasattr":
            obj, attr = args
            if is_tn(obj) and attr in PUBLIC:
                return cx.fields(obj)["cls"] == PUBLIC[attr][0]
            raise Unsupported(f"hasattr({obj!r}, {attr!r})")
        if name == "get_coordinate_formatter":
            return "{}"  # the placeholder of a site coordinate (one slot per lattice dimension)
        if name == "rand_uuid":
            return fresh_id(cx)
        if name == "get_symbol":
            if isinstance(args[0], int) and 0 <= args[0] < 26:
                return chr(ord("a") + args[0])  # cotengra's symbol table starts a, b, c, ... (trusted)
            raise Unsupported("get_symbol of a symbolic / large index")
        if name == "__eq__":
            x, y = args
            if (is_id(x) or isinstance(x, str)) and (is_id(y) or isinstance(y, str)):
                return as_id(cx, x) == as_id(cx, y)
            return NotImplemented
        if name == "__binop__":
            op, x, y = args
            if op == "Add" and is_id(x) and (isinstance(y, (str, Opaque))):
                return x  # uuid + "{}": the id with its site placeholder
            if op in ("BitOr", "BitAnd") and is_tn(x) and is_tn(y):
                if isinstance(node, ast.AugAssign):
                    fx = cx.fields(x)
                    fx["layers"] = fx["layers"] + cx.fields(y)["layers"]  # x |= y : y's tensors are added to x
                    return x
                return combined(cx, x, y)
            if op == "BitXor" and is_tn(x):
                if isinstance(node, ast.AugAssign):
                    return x  # contracting the tensors of a tag renames no outer label
                return Contraction(x, cx.fields(x)["layers"])  # tn ^ all, tn ^ ... : full contraction
            if op == "RShift" and is_tn(x) and isinstance(node, ast.AugAssign):
                return x  # cumulative contraction
            return NotImplemented
        if name == "tuple" and len(args) == 1 and isinstance(args[0], SiteSet):
            return args[0]
        if name == "__iter__" and isinstance(args[0], SiteSet):
            n = cx.Int("n_sites")
            cx.assume(n >= 0)
            f = z3.Function("site_at", z3.IntSort(), z3.IntSort())
            return (n, lambda t: f(t))
        if name == "__setattr__":
            base, attr, val = args
            if is_tn(base) and attr in PUBLIC:
                cls, priv = PUBLIC[attr]
                if cx.fields(base)["cls"] != cls:
                    raise Unsupported(f"store to .{attr} of a {cx.fields(base)['cls']} network")
                tgt = SETTERS[attr]
                if self.target == tgt:
                    return NotImplemented
                cx.call_contract(REGISTRY[tgt], [as_id(cx, val)], {}, node, recv=base)
                return None
            return NotImplemented
        if name == ".format" and (is_id(args[0]) or isinstance(args[0], str)) and len(args) == 2:
            return Label(as_id(cx, args[0]), args[1])
        if name == ".extend" and isinstance(args[0], list):
            args[0].extend(list(args[1]))
            return None
        if name.startswith(".") and is_tn(args[0]):
            return self.tn_method(cx, name[1:], args[0], args[1:], kwargs, node)
        return NotImplemented

    def tn_method(self, cx, m, tn, args, kwargs, node):
        f = cx.fields(tn)
        if m == "copy":
            return copy_obj(cx, tn)
        if m == "conj_":
            f["layers"] = tuple(l.replace(conj=Not(l.conj)) for l in f["layers"])
            return tn
        if m == "conj":
            return copy_obj(cx, tn, flip=True)
        if m == "gen_sites_present":
            return SiteSet(present_any(f["layers"]), "sites present")
        if m in ("site_ind", "upper_ind", "lower_ind"):
            cls, priv = PUBLIC[m + "_id"]
            if f["cls"] != cls:
                raise PyRaise("AttributeError", node.lineno)
            return Label(f[priv], args[0])
        if m == "reindex":
            return self.leaf_reindex(cx, tn, args[0], kwargs.get("inplace", args[1] if len(args) > 1 else False), node)
        if m == "reindex_":
            return self.leaf_reindex(cx, tn, args[0], True, node)
        if m in ("fuse_multibonds_", "compress", "add_tag", "drop_tags", "retag_", "replace_section_with_svd",
                 "reset_cached_properties"):
            return None if m != "fuse_multibonds_" else tn  # rename no outer label
        if m in ("phys_dim", "bond_size"):
            return cx.Opaque(m)
        inplace_alias = False
        tgt = self.methods.get(m)
        if tgt is None and m.endswith("_") and m[:-1] in self.methods:
            tgt, inplace_alias = self.methods[m[:-1]], True
        if tgt is not None and tgt in REGISTRY and tgt != self.target:
            kw = dict(kwargs, inplace=True) if inplace_alias else kwargs
            return cx.call_contract(REGISTRY[tgt], list(args), kw, node, recv=tn)
        return NotImplemented

    def leaf_reindex(self, cx, tn, m, inplace, node):
        """TensorNetwork.reindex(map, inplace) [trusted leaf]: every occurrence of a key label is replaced by its value"""
        if not isinstance(inplace, bool):
            raise Unsupported("reindex with symbolic inplace")
        tgt = tn if inplace else copy_obj(cx, tn)
        f = cx.fields(tgt)
        if isinstance(m, LabelMap):
            f["layers"] = spec_reindex(f["layers"], m.where.has, m.key.fam, m.val.fam)
            return tgt
        raise Unsupported(f"reindex with {m!r}")


SETTERS = {"site_ind_id": f"{TNAG}::TensorNetworkGenVector.site_ind_id",
           "upper_ind_id": f"{TNAG}::TensorNetworkGenOperator.upper_ind_id",
           "lower_ind_id": f"{TNAG}::TensorNetworkGenOperator.lower_ind_id"}

LabelContract.methods = {
    "reindex_sites": f"{TNAG}::TensorNetworkGenVector.reindex_sites",
    "reindex_upper_sites": f"{TNAG}::TensorNetworkGenOperator.reindex_upper_sites",
    "reindex_lower_sites": f"{TNAG}::TensorNetworkGenOperator.reindex_lower_sites",
    "align": f"{TNAG}::TensorNetworkGen.align",
    "apply": f"{TNAG}::TensorNetworkGenOperator.apply",
}


def with_cx(cx, d):
    """inputs dict that lets ``requires`` see the context (pre-state fields)"""
    d = dict(d)
    d["_cx"] = cx
    return d


def general_net(cx, cls, name):
    """a network of the given class in an ARBITRARY label state: two layers (an operator and a vector layer) whose
    labels are unrelated to the declared ids -- the partial-rename functions and the setters are specified for these"""
    f = {"cls": cls, "cyclic": cx.Bool(f"{name}_cyclic"), "L": cx.Int(f"{name}_L")}
    for k in ID_FIELDS[cls]:
        f[k] = mk_id(cx, f"{name}{k}")
    f["layers"] = (Layer(f"{name}.o", ("up", "lo"), (mk_id(cx, f"{name}_o_up"), mk_id(cx, f"{name}_o_lo")),
                         cx.Bool(f"{name}_o_conj"), cx.Bool(f"{name}_o_present")),
                   Layer(f"{name}.v", ("site",), (mk_id(cx, f"{name}_v_site"),), cx.Bool(f"{name}_v_conj"),
                         cx.Bool(f"{name}_v_present")))
    return cx.new_obj("TN", **f)


# ------------------------------------------------------------------------------------------------------------
# partial renames:  reindex_sites / reindex_upper_sites / reindex_lower_sites
# ------------------------------------------------------------------------------------------------------------


class ReindexBase(LabelContract):
    """reindex_X_sites(new_id, where, inplace): on the sites of ``where`` (default: all present sites) the label of
    the DECLARED X id becomes new_id's label, every other label and the declared ids are unchanged"""

    cls, priv = "vec", "_site_ind_id"
    floor = 8

    def cases(self):
        return [NS(name=f"where={w},inplace={i}", where=w, inplace=i) for w in ("None", "given") for i in (True, False)]

    def case_of_call(self, cx, a):
        if not isinstance(a.inplace, bool):
            raise Unsupported("symbolic inplace")
        return NS(name="call", where="None" if a.where is None else "given", inplace=a.inplace)

    def mk_inputs(self, cx, case):
        return with_cx(cx, dict(self=general_net(cx, self.cls, "T"), new_id=mk_id(cx, "new_id"),
                                where=None if case.where == "None" else SiteSet(cx.Bool("s_in_where"), "where"),
                                inplace=case.inplace))

    def requires_cx(self, cx, a, case):
        # the generic versions iterate over ``where``: a python slice is only understood by the 1D override
        return {"where-is-a-collection-of-sites": a.where is None or type(a.where) is SiteSet}

    def modifies(self, a, case):
        return [(a.self, ["layers"])] if case.inplace else []

    def fresh_result(self, cx, a, case):
        if case.inplace:
            return a.self
        f = cx.pre(a.self)
        return cx.new_obj("TN", **fresh_like(cx, f, "ri"))

    def ensures(self, a, r, cx, case):
        d = {"result-is-network": is_tn(r)}
        if not is_tn(r):
            return d
        old, new = cx.pre(a.self), cx.fields(r)
        d["result-identity"] = (r == a.self) if case.inplace else (r != a.self and r.oid not in cx.pre_heap)
        if not isinstance(a.where, (SiteSet, type(None))):
            raise Unsupported("where of unknown kind")
        has = present_any(old["layers"]) if a.where is None else a.where.has
        new_id = as_id(cx, a.new_id)
        d["renamed-exactly-where-asked"] = layers_eq(new["layers"], spec_reindex(old["layers"], has, old[self.priv], new_id))
        d["declared-ids-unchanged"] = And(*[new[k] == old[k] for k in ID_FIELDS[self.cls]]) if new["cls"] == self.cls else False
        if not case.inplace:
            d["receiver-untouched"] = same_state(cx.fields(a.self), old)
        return d


@register
class ReindexSites(ReindexBase):
    target = f"{TNAG}::TensorNetworkGenVector.reindex_sites"
    cls, priv = "vec", "_site_ind_id"


@register
class ReindexUpperSites(ReindexBase):
    target = f"{TNAG}::TensorNetworkGenOperator.reindex_upper_sites"
    cls, priv = "op", "_upper_ind_id"


@register
class ReindexLowerSites(ReindexBase):
    target = f"{TNAG}::TensorNetworkGenOperator.reindex_lower_sites"
    cls, priv = "op", "_lower_ind_id"


# ------------------------------------------------------------------------------------------------------------
# the declared-id setters (property setters: last definition of the name in the class body)
# ------------------------------------------------------------------------------------------------------------


class SetterBase(LabelContract):
    """X_ind_id = new_id: the declared id becomes new_id and the labels of the OLD declared id become new_id's on every
    present site; the other declared id is untouched.  Operators: raises ValueError iff new_id is the other id."""

    cls, priv, other = "vec", "_site_ind_id", None
    floor = 3

    def cases(self):
        return [NS(name="distinct", clash=False)] + ([NS(name="clash", clash=True)] if self.other else [])

    def case_of_call(self, cx, a):
        return NS(name="call", clash=False)

    def mk_inputs(self, cx, case):
        return with_cx(cx, dict(self=general_net(cx, self.cls, "T"), new_id=mk_id(cx, "new_id")))

    def requires_cx(self, cx, a, case):
        if self.other is None:
            return {}
        c = as_id(cx, a.new_id) == cx.pre(a.self)[self.other]
        return {"ids-distinct": Not(c)} if not case.clash else {"clash": c}

    def modifies(self, a, case):
        return [(a.self, ["layers", self.priv])]

    def fresh_result(self, cx, a, case):
        return None

    def ensures_raise(self, a, exc, cx, case):
        if exc == "ValueError" and case.clash:
            return {"raise-on-clash-state-unchanged": same_state(cx.fields(a.self), cx.pre(a.self))}
        return {f"no-raise-{exc}": False}

    def ensures(self, a, r, cx, case):
        if case.clash:
            return {"must-raise-on-clash": False}
        old, new = cx.pre(a.self), cx.fields(a.self)
        new_id = as_id(cx, a.new_id)
        d = {"declared-id-set": new[self.priv] == new_id,
             "labels-follow": layers_eq(new["layers"], spec_reindex(old["layers"], present_any(old["layers"]),
                                                                     old[self.priv], new_id)),
             "returns-none": r is None}
        if self.other:
            d["other-id-untouched"] = new[self.other] == old[self.other]
        return d


@register
class SetSiteIndId(SetterBase):
    target = SETTERS["site_ind_id"]
    cls, priv, other = "vec", "_site_ind_id", None


@register
class SetUpperIndId(SetterBase):
    target = SETTERS["upper_ind_id"]
    cls, priv, other = "op", "_upper_ind_id", "_lower_ind_id"


@register
class SetLowerIndId(SetterBase):
    target = SETTERS["lower_ind_id"]
    cls, priv, other = "op", "_lower_ind_id", "_upper_ind_id"


# ------------------------------------------------------------------------------------------------------------
# tensor_network_align
# ------------------------------------------------------------------------------------------------------------


def out_field(cls):
    return "_site_ind_id" if cls == "vec" else "_lower_ind_id"


def in_field(cls):
    return "_site_ind_id" if cls == "vec" else "_upper_ind_id"


def out_leg(cls):
    return "site" if cls == "vec" else "lo"


def in_leg(cls):
    return "site" if cls == "vec" else "up"


def align_levels(P, ind_ids):
    """the id of every level (between network j and j+1) as DOCUMENTED: the given ones, or
    (first network's own id, "__ind_a{}__", "__ind_b{}__", ...)"""
    n = len(P)
    if ind_ids is not None:
        return list(ind_ids[:n - 1])
    return [P[0][out_field(P[0]["cls"])]] + [gen_level(j) for j in range(n - 2)]


def kinds_of(cx, tns, pre=False):
    return tuple("v" if (cx.pre(t) if pre else cx.fields(t))["cls"] == "vec" else "o" for t in tns)


@register
class Align(LabelContract):
    """tensor_network_align(*tns, ind_ids, trace, inplace): network j is joined with network j+1 -- the id below j
    (site id of a vector, LOWER id of an operator) is the id above j+1 (site id / UPPER id): a FIRST vector therefore sits
    on the operator's UPPER (row) labels and a LAST vector on the LOWER (column) labels."""

    target = f"{TNAG}::tensor_network_align"
    floor = 700

    def cases(self):
        import itertools
        out = []
        for n in (2, 3, 4):
            for kinds in itertools.product("vo", repeat=n):
                for ids in ("None", "given"):
                    for trace in (False, True):
                        if trace and not (kinds[0] == "o" and kinds[-1] == "o"):
                            continue  # trace reads tns[0].upper_ind_id / sets tns[-1].lower_ind_id: operators only
                        for inplace in (False, True):
                            out.append(NS(name=f"{''.join(kinds)},ids={ids},trace={trace},inplace={inplace}", kinds=kinds,
                                          ids=ids, trace=trace, inplace=inplace))
        return out

    def case_of_call(self, cx, a):
        tns = a.tns
        if any(isinstance(t, StarArg) or not is_tn(t) for t in tns):
            raise Unsupported("tensor_network_align on a collection of unknown size")
        if not isinstance(a.trace, bool) or not isinstance(a.inplace, bool):
            raise Unsupported("symbolic trace / inplace")
        return NS(name="call", kinds=kinds_of(cx, tns), ids="None" if a.ind_ids is None else "given", trace=a.trace,
                  inplace=a.inplace)

    def mk_inputs(self, cx, case):
        tns = tuple(new_vec(cx, f"t{i}") if k == "v" else new_op(cx, f"t{i}") for i, k in enumerate(case.kinds))
        ids = None if case.ids == "None" else tuple(mk_id(cx, f"level{j}") for j in range(len(tns) - 1))
        return with_cx(cx, dict(tns=tns, ind_ids=ids, trace=case.trace, inplace=case.inplace))

    @staticmethod
    def middle_vector(kinds):
        return any(k == "v" for k in kinds[1:-1])

    def requires_cx(self, cx, a, case):
        P = [cx.pre(t) for t in a.tns]
        n = len(P)
        d = {f"wf-{i}": wf(p) for i, p in enumerate(P)}
        if a.ind_ids is not None:
            d["enough-level-ids"] = len(a.ind_ids) >= n - 1
            if not d["enough-level-ids"]:
                return d
        lv = [as_id(cx, x) for x in align_levels(P, a.ind_ids)]
        # the operator setters refuse an id equal to the operator's OTHER id at that moment (ValueError)
        for i, p in enumerate(P):
            if p["cls"] != "op":
                continue
            up_new = lv[i - 1] if i > 0 else p["_upper_ind_id"]
            if i > 0:
                d[f"ids-distinct-upper-{i}"] = lv[i - 1] != p["_lower_ind_id"]
            if i < n - 1:
                d[f"ids-distinct-lower-{i}"] = lv[i] != up_new
        if case.trace and n >= 2:
            d["ids-distinct-trace"] = P[0]["_upper_ind_id"] != lv[n - 2]
        return d

    def modifies(self, a, case):
        if not case.inplace:
            return []
        return [(t, ["layers"] + list(ID_FIELDS["vec" if k == "v" else "op"])) for t, k in zip(a.tns, case.kinds)]

    def fresh_result(self, cx, a, case):
        if self.middle_vector(case.kinds):
            raise PyRaise("ValueError")
        if case.inplace:
            return list(a.tns)
        return [cx.new_obj("TN", **fresh_like(cx, cx.pre(t), f"al{i}")) for i, t in enumerate(a.tns)]

    def ensures_raise(self, a, exc, cx, case):
        if exc == "ValueError":
            return {"raise-only-for-a-vector-in-the-middle": self.middle_vector(case.kinds)}
        return {f"no-raise-{exc}": False}

    def ensures(self, a, r, cx, case):
        if self.middle_vector(case.kinds):
            return {"vector-in-the-middle-must-raise": False}
        n = len(a.tns)
        d = {"result-is-list-of-networks": isinstance(r, (list, tuple)) and len(r) == n and all(is_tn(x) for x in r)}
        if not d["result-is-list-of-networks"]:
            return d
        P = [cx.pre(t) for t in a.tns]
        F = [cx.fields(x) for x in r]
        if case.inplace:
            d["inplace-returns-the-inputs"] = all(x == t for x, t in zip(r, a.tns))
        else:
            d["copies-are-new-objects"] = all(x.oid not in cx.pre_heap for x in r) and len({x.oid for x in r}) == n
            for i, t in enumerate(a.tns):
                d[f"input-{i}-untouched"] = same_state(cx.fields(t), P[i])
        for i in range(n):
            d[f"kind-{i}-kept"] = F[i]["cls"] == P[i]["cls"]
            if not d[f"kind-{i}-kept"]:
                return d
            d[f"aligned-wf-{i}"] = wf(F[i])
            d[f"conj-and-presence-{i}-unchanged"] = layers_eq(F[i]["layers"], P[i]["layers"], slots=False)
        for i in range(n - 1):
            c0, c1 = F[i]["cls"], F[i + 1]["cls"]
            lab = f"joins-{i}:{'vector' if c0 == 'vec' else 'lower'}-to-{'vector' if c1 == 'vec' else 'upper'}"
            l0, l1 = F[i]["layers"][0], F[i + 1]["layers"][0]
            d[lab] = And(F[i][out_field(c0)] == F[i + 1][in_field(c1)],
                         Implies(And(l0.present, l1.present), l0.slot(out_leg(c0)) == l1.slot(in_leg(c1))))
        lv = [as_id(cx, x) for x in align_levels(P, a.ind_ids)]
        if a.ind_ids is None:
            d["first-network-unchanged"] = same_state(F[0], P[0])
        for j in range(n - 1):
            d[f"level-{j}-has-the-documented-id"] = F[j][out_field(F[j]["cls"])] == lv[j]
        if F[0]["cls"] == "op":
            d["first-upper-unchanged"] = F[0]["_upper_ind_id"] == P[0]["_upper_ind_id"]
        if F[-1]["cls"] == "op":
            if case.trace:
                d["trace-closes-last-lower-with-first-upper"] = F[-1]["_lower_ind_id"] == F[0]["_upper_ind_id"]
            else:
                d["last-lower-unchanged"] = F[-1]["_lower_ind_id"] == P[-1]["_lower_ind_id"]
        return d


ALIGN = REGISTRY[Align.target]


@register
class AlignMethod(LabelContract):
    """TensorNetworkGen.align(self, *args, inplace, **kwargs) == tensor_network_align(self, *args, ...): the receiver
    is the FIRST network of the stack"""

    target = f"{TNAG}::TensorNetworkGen.align"
    floor = 350

    def cases(self):
        import itertools
        out = []
        for n in (2, 3):
            for kinds in itertools.product("vo", repeat=n):
                for ids in ("None", "given"):
                    for inplace in (False, True):
                        out.append(NS(name=f"{''.join(kinds)},ids={ids},inplace={inplace}", kinds=kinds, ids=ids,
                                      trace=False, inplace=inplace))
        return out

    def as_align(self, a):
        return NS(tns=(a.self,) + tuple(a.args), ind_ids=a.kwargs.get("ind_ids"), trace=a.kwargs.get("trace", False),
                  inplace=a.inplace)

    def case_of_call(self, cx, a):
        return ALIGN.case_of_call(cx, self.as_align(a))

    def mk_inputs(self, cx, case):
        d = ALIGN.mk_inputs(cx, case)
        kw = {} if d["ind_ids"] is None else {"ind_ids": d["ind_ids"]}
        return with_cx(cx, dict(self=d["tns"][0], args=tuple(d["tns"][1:]), inplace=case.inplace, kwargs=kw))

    def requires_cx(self, cx, a, case):
        return ALIGN.requires_cx(cx, self.as_align(a), case)

    def modifies(self, a, case):
        return ALIGN.modifies(self.as_align(a), case)

    def fresh_result(self, cx, a, case):
        return ALIGN.fresh_result(cx, self.as_align(a), case)

    def ensures_raise(self, a, exc, cx, case):
        return ALIGN.ensures_raise(self.as_align(a), exc, cx, case)

    def ensures(self, a, r, cx, case):
        return ALIGN.ensures(self.as_align(a), r, cx, case)


# ------------------------------------------------------------------------------------------------------------
# operator on vector / operator on operator
# ------------------------------------------------------------------------------------------------------------

OTHER = {"lower": "upper", "upper": "lower"}
# (contract, fuse_multibonds, compress): the three flags only select label-preserving post-processing; every value of
# each flag occurs, and every branch combination of the two `if contract` / `if compress` statements
FLAG_COMBOS = ((False, True, False), (True, True, False), (True, False, True), (False, True, True))
LEG = {"lower": "lo", "upper": "up"}


def distinct_from(x, others):
    return And(*[x != o for o in others])


@register
class ApplyOpVec(LabelContract):
    """tensor_network_apply_op_vec(A, x, which_A): the result is a VECTOR network with x's original site id; on the sites
    where A is present A's chosen leg (lo: A @ x, up: A^T @ x) shares a FRESH label with x and A's other leg carries x's
    original label; elsewhere x's labels are untouched"""

    target = f"{TNAG}::tensor_network_apply_op_vec"
    floor = 250

    def cases(self):
        out = []
        for w in ("lower", "upper", "sideways"):
            for contract, fuse, compress in FLAG_COMBOS:
                for inplace in (False, True):
                    for inplace_A in (False, True):
                        out.append(NS(name=f"which_A={w},contract={contract},fuse={fuse},compress={compress},"
                                           f"inplace={inplace},inplace_A={inplace_A}", w=w, contract=contract,
                                      fuse=fuse, compress=compress, inplace=inplace, inplace_A=inplace_A))
        return out

    def case_of_call(self, cx, a):
        for k in ("contract", "compress", "inplace", "inplace_A", "fuse_multibonds"):
            if not isinstance(a[k], bool):
                raise Unsupported(f"symbolic {k}")
        if not isinstance(a.which_A, str):
            raise Unsupported("symbolic which_A")
        return NS(name="call", w=a.which_A, contract=a.contract, fuse=a.fuse_multibonds, compress=a.compress,
                  inplace=a.inplace, inplace_A=a.inplace_A)

    def mk_inputs(self, cx, case):
        return with_cx(cx, dict(A=new_op(cx, "A"), x=new_vec(cx, "x"), which_A=case.w, contract=case.contract,
                                fuse_multibonds=case.fuse, compress=case.compress, inplace=case.inplace,
                                inplace_A=case.inplace_A, compress_opts={}))

    def requires_cx(self, cx, a, case):
        A, x = cx.pre(a.A), cx.pre(a.x)
        return {"wf-A": wf(A), "wf-x": wf(x), "is-operator": A["cls"] == "op", "is-vector": x["cls"] == "vec",
                "A-acts-on-sites-of-x": Implies(present_any(A["layers"]), present_any(x["layers"]))
                if A["cls"] == "op" and x["cls"] == "vec" else False}

    @property
    def loops(self):
        return {0: Loop("for site in sites_present_in_A", self.frame_inv("loop0"))}

    def modifies(self, a, case):
        m = []
        if case.inplace:
            m.append((a.x, ["layers", "_site_ind_id"]))
        if case.inplace_A:
            m.append((a.A, ["layers", "_upper_ind_id", "_lower_ind_id"]))
        return m

    def result_template(self, cx, a):
        x, A = cx.pre(a.x), cx.pre(a.A)
        f = dict(x)
        f["layers"] = x["layers"] + A["layers"]
        return f

    def fresh_result(self, cx, a, case):
        if case.w not in OTHER:
            raise PyRaise("ValueError")
        g = fresh_like(cx, self.result_template(cx, a), "av")
        if case.inplace:
            cx.fields(a.x).update(g)
            return a.x
        return cx.new_obj("TN", **g)

    def ensures_raise(self, a, exc, cx, case):
        if exc == "ValueError":
            return {"raise-only-for-invalid-which_A": case.w not in OTHER,
                    "raise-leaves-x-untouched": same_state(cx.fields(a.x), cx.pre(a.x)),
                    "raise-leaves-A-untouched": same_state(cx.fields(a.A), cx.pre(a.A))}
        return {f"no-raise-{exc}": False}

    def ensures(self, a, r, cx, case):
        if case.w not in OTHER:
            return {"invalid-which_A-must-raise": False}
        d = {"result-is-network": is_tn(r)}
        if not is_tn(r):
            return d
        X, A, R = cx.pre(a.x), cx.pre(a.A), cx.fields(r)
        d["result-identity"] = (r == a.x) if case.inplace else (r.oid not in cx.pre_heap)
        if not case.inplace:
            d["x-untouched"] = same_state(cx.fields(a.x), X)
        if not case.inplace_A:
            d["A-untouched"] = same_state(cx.fields(a.A), A)
        d["result-is-vector-with-x-site-id"] = R["cls"] == "vec" and R["_site_ind_id"] == X["_site_ind_id"]
        lx, lA = layer_of(R["layers"], X["layers"][0].origin), layer_of(R["layers"], A["layers"][0].origin)
        d["result-holds-exactly-x-and-A"] = len(R["layers"]) == 2 and lx is not None and lA is not None
        if not d["result-holds-exactly-x-and-A"] or R["cls"] != "vec":
            return d
        d["conj-and-presence-unchanged"] = And(layers_eq((lx,), X["layers"], slots=False),
                                               layers_eq((lA,), A["layers"], slots=False))
        pA = A["layers"][0].present
        Fam = X["_site_ind_id"]
        g = lx.slot("site")
        d["contracted-pair:A-chosen-leg-with-x"] = Implies(pA, And(lA.slot(LEG[case.w]) == g, g != Fam))
        d["outer-family:A-other-leg-carries-x-site-id"] = Implies(pA, lA.slot(LEG[OTHER[case.w]]) == Fam)
        d["rename-only-where-A-acts"] = Implies(And(Not(pA), X["layers"][0].present), g == Fam)
        d["inner-id-fresh"] = Implies(pA, distinct_from(g, [Fam, A["_upper_ind_id"], A["_lower_ind_id"]]))
        return d


# result of apply_op_op as a dense product X' @ Y' : (factor, transposed)
OPOP_PRODUCT = {("lower", "upper"): (("A", False), ("B", False)),   # A @ B      (the default: matrix multiplication)
                ("lower", "lower"): (("B", False), ("A", True)),    # B @ A^T
                ("upper", "upper"): (("A", True), ("B", False)),    # A^T @ B
                ("upper", "lower"): (("B", False), ("A", False))}   # B @ A


def row_leg(transposed):
    return "lo" if transposed else "up"


def col_leg(transposed):
    return "up" if transposed else "lo"


@register
class ApplyOpOp(LabelContract):
    """tensor_network_apply_op_op(A, B, which_A, which_B): the result denotes the dense product of OPOP_PRODUCT under
    B's ORIGINAL declared ids: rows (upper id) on the row leg of the left factor, columns (lower id) on the column leg
    of the right factor, the two inner legs joined through a fresh label -- and B is renamed only where A acts"""

    target = f"{TNAG}::tensor_network_apply_op_op"
    floor = 500

    def cases(self):
        out = []
        for wa in ("lower", "upper", "sideways"):
            for wb in ("lower", "upper", "sideways"):
                if "sideways" in (wa, wb) and wa != wb and "lower" not in (wa, wb):
                    continue
                for contract, fuse, compress in FLAG_COMBOS:
                    for inplace in (False, True):
                        for inplace_A in (False, True):
                            out.append(NS(name=f"which=({wa},{wb}),contract={contract},fuse={fuse},"
                                               f"compress={compress},inplace={inplace},inplace_A={inplace_A}",
                                          wa=wa, wb=wb, contract=contract, fuse=fuse, compress=compress,
                                          inplace=inplace, inplace_A=inplace_A))
        return out

    def case_of_call(self, cx, a):
        for k in ("contract", "compress", "inplace", "inplace_A", "fuse_multibonds"):
            if not isinstance(a[k], bool):
                raise Unsupported(f"symbolic {k}")
        if not isinstance(a.which_A, str) or not isinstance(a.which_B, str):
            raise Unsupported("symbolic which_A / which_B")
        return NS(name="call", wa=a.which_A, wb=a.which_B, contract=a.contract, fuse=a.fuse_multibonds,
                  compress=a.compress, inplace=a.inplace, inplace_A=a.inplace_A)

    def mk_inputs(self, cx, case):
        return with_cx(cx, dict(A=new_op(cx, "A"), B=new_op(cx, "B"), which_A=case.wa, which_B=case.wb,
                                contract=case.contract, fuse_multibonds=case.fuse, compress=case.compress,
                                inplace=case.inplace, inplace_A=case.inplace_A, compress_opts={}))

    def requires_cx(self, cx, a, case):
        A, B = cx.pre(a.A), cx.pre(a.B)
        ok = A["cls"] == "op" and B["cls"] == "op"
        return {"wf-A": wf(A), "wf-B": wf(B), "both-operators": ok,
                "A-acts-on-sites-of-B": Implies(present_any(A["layers"]), present_any(B["layers"])) if ok else False}

    @property
    def loops(self):
        return {0: Loop("for site in B.gen_sites_present()", self.frame_inv("loop0"))}

    def valid(self, case):
        return (case.wa, case.wb) in OPOP_PRODUCT

    def modifies(self, a, case):
        m = []
        if case.inplace:
            m.append((a.B, ["layers", "_upper_ind_id", "_lower_ind_id"]))
        if case.inplace_A:
            m.append((a.A, ["layers", "_upper_ind_id", "_lower_ind_id"]))
        return m

    def fresh_result(self, cx, a, case):
        if not self.valid(case):
            raise PyRaise("ValueError")
        B, A = cx.pre(a.B), cx.pre(a.A)
        f = dict(B)
        f["layers"] = B["layers"] + A["layers"]
        g = fresh_like(cx, f, "ao")
        if case.inplace:
            cx.fields(a.B).update(g)
            return a.B
        return cx.new_obj("TN", **g)

    def ensures_raise(self, a, exc, cx, case):
        if exc == "ValueError":
            return {"raise-only-for-invalid-combination": not self.valid(case),
                    "raise-leaves-B-untouched": same_state(cx.fields(a.B), cx.pre(a.B)),
                    "raise-leaves-A-untouched": same_state(cx.fields(a.A), cx.pre(a.A))}
        return {f"no-raise-{exc}": False}

    def ensures(self, a, r, cx, case):
        if not self.valid(case):
            return {"invalid-combination-must-raise": False}
        d = {"result-is-network": is_tn(r)}
        if not is_tn(r):
            return d
        B, A, R = cx.pre(a.B), cx.pre(a.A), cx.fields(r)
        d["result-identity"] = (r == a.B) if case.inplace else (r.oid not in cx.pre_heap)
        if not case.inplace:
            d["B-untouched"] = same_state(cx.fields(a.B), B)
        if not case.inplace_A:
            d["A-untouched"] = same_state(cx.fields(a.A), A)
        d["result-is-operator-with-B-declared-ids"] = R["cls"] == "op" and And(
            R["_upper_ind_id"] == B["_upper_ind_id"], R["_lower_ind_id"] == B["_lower_ind_id"])
        L = {"B": layer_of(R["layers"], B["layers"][0].origin), "A": layer_of(R["layers"], A["layers"][0].origin)}
        d["result-holds-exactly-B-and-A"] = len(R["layers"]) == 2 and L["A"] is not None and L["B"] is not None
        if not d["result-holds-exactly-B-and-A"] or R["cls"] != "op":
            return d
        d["conj-and-presence-unchanged"] = And(layers_eq((L["B"],), B["layers"], slots=False),
                                               layers_eq((L["A"],), A["layers"], slots=False))
        (X, tX), (Y, tY) = OPOP_PRODUCT[(case.wa, case.wb)]
        pA = A["layers"][0].present
        U, Lo = B["_upper_ind_id"], B["_lower_ind_id"]
        g = L[X].slot(col_leg(tX))
        d["rows:upper-id-on-row-leg-of-left-factor"] = Implies(pA, L[X].slot(row_leg(tX)) == U)
        d["columns:lower-id-on-column-leg-of-right-factor"] = Implies(pA, L[Y].slot(col_leg(tY)) == Lo)
        d["contracted-pair:inner-legs-joined"] = Implies(pA, And(g == L[Y].slot(row_leg(tY)), g != U, g != Lo))
        d["inner-id-fresh"] = Implies(pA, distinct_from(g, [U, Lo, A["_upper_ind_id"], A["_lower_ind_id"]]))
        d["rename-only-where-A-acts"] = Implies(And(Not(pA), B["layers"][0].present),
                                                And(L["B"].slot("up") == U, L["B"].slot("lo") == Lo))
        return d


@register
class OperatorApply(LabelContract):
    """TensorNetworkGenOperator.apply(other): A @ other (operator or vector) under other's ids; ``inplace`` consumes
    the acting operator (self), other is never touched"""

    target = f"{TNAG}::TensorNetworkGenOperator.apply"
    floor = 100

    def cases(self):
        return [NS(name=f"other={k},compress={c},contract={t},inplace={i}", kind=k, compress=c, contract=t, inplace=i)
                for k in ("op", "vec", "plain") for c in (False, True) for t in (False, True) for i in (False, True)]

    def mk_inputs(self, cx, case):
        other = {"op": lambda: new_op(cx, "B"), "vec": lambda: new_vec(cx, "x"),
                 "plain": lambda: cx.new_obj("TN", cls="plain", layers=(), cyclic=False, L=cx.Int("L"))}[case.kind]()
        return with_cx(cx, dict(self=new_op(cx, "A"), other=other, compress=case.compress, contract=case.contract,
                                inplace=case.inplace, compress_opts={}))

    def callee(self, a, case):
        if case.kind == "op":
            return (REGISTRY[ApplyOpOp.target],
                    NS(A=a.self, B=a.other, which_A="lower", which_B="upper", contract=a.contract, fuse_multibonds=True,
                       compress=a.compress, inplace=False, inplace_A=a.inplace, compress_opts={}),
                    NS(name="call", wa="lower", wb="upper", contract=case.contract, fuse=True, compress=case.compress,
                       inplace=False, inplace_A=case.inplace))
        return (REGISTRY[ApplyOpVec.target],
                NS(A=a.self, x=a.other, which_A="lower", contract=a.contract, fuse_multibonds=True, compress=a.compress,
                   inplace=False, inplace_A=a.inplace, compress_opts={}),
                NS(name="call", w="lower", contract=case.contract, fuse=True, compress=case.compress, inplace=False,
                   inplace_A=case.inplace))

    def requires_cx(self, cx, a, case):
        if case.kind == "plain":
            return {}
        con, a2, c2 = self.callee(a, case)
        return con.requires_cx(cx, a2, c2)

    def call(self, cx, name, args, kwargs, node):
        if name == "__isinstance__":
            v, cname = args
            if is_tn(v) and cname in ("TensorNetworkGenOperator", "TensorNetworkGenVector"):
                return cx.fields(v)["cls"] == ("op" if cname.endswith("Operator") else "vec")
            raise Unsupported(f"isinstance(..., {cname})")
        return super().call(cx, name, args, kwargs, node)

    def ensures_raise(self, a, exc, cx, case):
        if exc == "TypeError":
            return {"raise-only-for-neither-operator-nor-vector": case.kind == "plain"}
        return {f"no-raise-{exc}": False}

    def ensures(self, a, r, cx, case):
        if case.kind == "plain":
            return {"must-raise-TypeError": False}
        con, a2, c2 = self.callee(a, case)
        return con.ensures(a2, r, cx, c2)


# ------------------------------------------------------------------------------------------------------------
# C10: assembly of the DMRG energy networks
# ------------------------------------------------------------------------------------------------------------


def join_ok(la, lega, lb, legb):
    """the two legs carry the same label wherever both layers have a tensor"""
    return Implies(And(la.present, lb.present), la.slot(lega) == lb.slot(legb))


class DMRGContract(LabelContract):
    property_ids = ("C10",)

    def attr(self, cx, base, attr, node):
        if isinstance(base, Ref) and base.kind == "DMRG":
            f = cx.fields(base)
            if attr in f:
                return f[attr]
            return cx.Opaque(attr)  # everything else on the solver object is numerical bookkeeping
        return super().attr(cx, base, attr, node)

    def call(self, cx, name, args, kwargs, node):
        if name == "get_default_opts":
            return cx.Opaque("opts")
        if name == "__binop__":
            op, x, y = args
            if op == "BitXor" and is_tn(x) and not isinstance(node, ast.AugAssign) and (y is ALL or y is Ellipsis):
                return Contraction(x, cx.fields(x)["layers"])
            if isinstance(x, (Contraction, Opaque)) or isinstance(y, (Contraction, Opaque)):
                if op in ("Add", "Sub", "Mult", "Div", "Pow"):
                    return cx.Opaque("scalar")
        if name.startswith(".") and isinstance(args[0], Ref) and args[0].kind == "DMRG":
            if name in ("._set_bond_dim_seq", "._set_cutoff_seq"):
                return None  # schedules: no labels involved
        return super().call(cx, name, args, kwargs, node)

    def tn_method(self, cx, m, tn, args, kwargs, node):
        f = cx.fields(tn)
        if m == "rand_state":
            # leaf MPO.rand_state -> MPS_rand_state(L, ..., site_ind_id="k{}"): a new, unconjugated, well formed state
            # with a tensor on every site on which the operator has one
            sid = lit("k{}")
            pres = cx.Bool("rand_state_present")
            cx.assume(Implies(present_any(f["layers"]), pres))
            return cx.new_obj("TN", cls="vec", _site_ind_id=sid, cyclic=f["cyclic"], L=f["L"],
                              layers=(Layer("rand_state", ("site",), (sid,), z3.BoolVal(False), pres),))
        if m == "identity":
            # leaf MPO.identity -> MPO_identity_like: same declared ids, well formed, present on the same sites
            lay = f["layers"][0]
            return cx.new_obj("TN", cls="op", _upper_ind_id=f["_upper_ind_id"], _lower_ind_id=f["_lower_ind_id"],
                              cyclic=f["cyclic"], L=f["L"],
                              layers=(Layer("eye", ("up", "lo"), (f["_upper_ind_id"], f["_lower_ind_id"]),
                                            z3.BoolVal(False), lay.present),))
        return super().tn_method(cx, m, tn, args, kwargs, node)


def stack_posts(d, prefix, layers, kinds_conj=None):
    """<b| O_1 ... O_m |k> in the fixed convention: the first layer (bra) sits on the UP leg of O_1, every O_j's LO leg on the
    UP leg of O_{j+1}, the last layer (ket) on the LO leg of O_m; all the level labels pairwise different"""
    if len(layers) < 2 or layers[0].roles != ("site",) or layers[-1].roles != ("site",) or \
            any(l.roles != ("up", "lo") for l in layers[1:-1]):
        d[f"{prefix}-is-a-(bra,ops...,ket)-stack"] = False
        return
    b, k, ops = layers[0], layers[-1], layers[1:-1]
    chain = [(b, "site")] + [x for o in ops for x in ((o, "up"), (o, "lo"))] + [(k, "site")]
    levels = []
    for j in range(0, len(chain), 2):
        (la, lega), (lb, legb) = chain[j], chain[j + 1]
        name = ("bra" if j == 0 else f"op{j // 2}-lower") + "-joins-" + ("ket" if j == len(chain) - 2 else f"op{j // 2 + 1}-upper")
        d[f"{prefix}:{name}"] = join_ok(la, lega, lb, legb)
        levels.append(lb.slot(legb))
    allp = And(*[l.present for l in layers])
    d[f"{prefix}:levels-pairwise-distinct"] = Implies(allp, z3.Distinct(*levels) if len(levels) > 1 else True)


@register
class DMRGInit(DMRGContract):
    """DMRG.__init__: the energy network is <b|ham|k>: _b is the conjugate of _k and sits on ham's UP leg (rows), _k on
    ham's LO leg (columns); _k keeps its site id; ham / p0 are copied, never modified"""

    target = f"{DMRGF}::DMRG.__init__"
    floor = 40

    def cases(self):
        return [NS(name=f"p0={p}", p0=p) for p in ("None", "given")]

    def case_of_call(self, cx, a):
        return NS(name="call", p0="None" if a.p0 is None else "given")

    def mk_inputs(self, cx, case):
        return with_cx(cx, dict(self=cx.new_obj("DMRG"), ham=new_op(cx, "ham"), bond_dims=cx.Opaque("bond_dims"),
                                cutoffs=cx.Opaque("cutoffs"), bsz=cx.Opaque("bsz"), which="SA",
                                p0=None if case.p0 == "None" else new_vec(cx, "p0")))

    def requires_cx(self, cx, a, case):
        ok = is_tn(a.ham) and cx.pre(a.ham)["cls"] == "op"
        d = {"ham-is-an-operator": ok}
        if ok:
            d["wf-ham"] = wf(cx.pre(a.ham))
        if a.p0 is not None:
            okp = is_tn(a.p0) and cx.pre(a.p0)["cls"] == "vec"
            d["p0-is-a-vector"] = okp
            if okp and ok:
                d["wf-p0"] = wf(cx.pre(a.p0))
                d["p0-covers-the-sites-of-ham"] = Implies(present_any(cx.pre(a.ham)["layers"]),
                                                          present_any(cx.pre(a.p0)["layers"]))
        return d

    def fresh_result(self, cx, a, case):
        """callee use (DMRGX.__init__): new objects of the right shape; the ensures pin their contents"""
        H = cx.pre(a.ham)
        if a.p0 is not None:
            K = cx.pre(a.p0)
        else:
            K = dict(cls="vec", _site_ind_id=lit("k{}"), cyclic=H["cyclic"], L=H["L"],
                     layers=(Layer("rand_state", ("site",), (lit("k{}"),), z3.BoolVal(False), cx.Bool("rs_present")),))
        k = cx.new_obj("TN", **fresh_like(cx, K, "k"))
        b = cx.new_obj("TN", **fresh_like(cx, K, "b"))
        h = cx.new_obj("TN", **fresh_like(cx, H, "h"))
        e = cx.new_obj("TN", cls="plain", cyclic=H["cyclic"], L=H["L"],
                       layers=cx.fields(b)["layers"] + cx.fields(h)["layers"] + cx.fields(k)["layers"])
        u = fresh_id(cx)
        cx.assume(cx.fields(b)["_site_ind_id"] == u)
        f = cx.fields(a.self)
        f.update(_k=k, _b=b, ham=h, TN_energy=e, cyclic=H["cyclic"], L=H["L"], energies=[], local_energies=[],
                 total_energies=[])
        return None

    def ensures(self, a, r, cx, case):
        S = cx.fields(a.self)
        d = {"state-ham-and-energy-network-set": all(is_tn(S.get(k)) for k in ("_k", "_b", "ham", "TN_energy")),
             "returns-none": r is None}
        if not d["state-ham-and-energy-network-set"]:
            return d
        K, B, H, E = (cx.fields(S[k]) for k in ("_k", "_b", "ham", "TN_energy"))
        Hin = cx.pre(a.ham)
        news = [S["_k"], S["_b"], S["ham"]]
        d["internal-networks-are-new-objects"] = all(x.oid not in cx.pre_heap for x in news) and \
            len({x.oid for x in news}) == 3
        d["ham-untouched"] = same_state(cx.fields(a.ham), Hin)
        d["kinds"] = K["cls"] == "vec" and B["cls"] == "vec" and H["cls"] == "op"
        if not d["kinds"] or len(K["layers"]) != 1 or len(B["layers"]) != 1 or len(H["layers"]) != 1:
            d["single-layers"] = False
            return d
        lk, lb, lh = K["layers"][0], B["layers"][0], H["layers"][0]
        olds = [Hin["_upper_ind_id"], Hin["_lower_ind_id"]]
        if a.p0 is not None:
            Pin = cx.pre(a.p0)
            olds.append(Pin["_site_ind_id"])
            d["p0-untouched"] = same_state(cx.fields(a.p0), Pin)
            d["ket-keeps-its-site-id"] = K["_site_ind_id"] == Pin["_site_ind_id"]
            d["ket-is-p0-unconjugated"] = And(lk.conj == Pin["layers"][0].conj, lk.present == Pin["layers"][0].present)
        else:
            d["ket-is-a-fresh-unconjugated-state"] = Not(lk.conj)
        d["ket-covers-ham"] = Implies(lh.present, lk.present)
        d["bra-is-the-conjugate-of-ket"] = And(lb.conj == Not(lk.conj), lb.present == lk.present)
        d["ham-is-the-given-operator-unconjugated"] = And(lh.conj == Hin["layers"][0].conj,
                                                          lh.present == Hin["layers"][0].present)
        d["wf-ket"], d["wf-bra"], d["wf-ham"] = wf(K), wf(B), wf(H)
        d["bra-joins-upper(rows)"] = And(B["_site_ind_id"] == H["_upper_ind_id"], join_ok(lb, "site", lh, "up"))
        d["ket-joins-lower(columns)"] = And(K["_site_ind_id"] == H["_lower_ind_id"], join_ok(lk, "site", lh, "lo"))
        d["bra-level-is-fresh"] = distinct_from(B["_site_ind_id"], olds + list(LIT.values()))
        d["energy-network-is-(bra|ham|ket)"] = layers_eq(E["layers"], (lb, lh, lk))
        stack_posts(d, "TN_energy", E["layers"])
        if "TN_norm" in S:
            N = cx.fields(S["TN_norm"])
            d["norm-network-is-(bra|eye|ket)"] = len(N["layers"]) == 3 and And(layers_eq((N["layers"][0],), (lb,)),
                                                                                layers_eq((N["layers"][2],), (lk,)))
            stack_posts(d, "TN_norm", N["layers"])
        return d


@register
class DMRGXInit(DMRGContract):
    """DMRGX.__init__: TN_energy2 = <b| H H |k> in the same convention: b on var_ham1's UP leg, var_ham1's LO leg on
    var_ham2's UP leg, var_ham2's LO leg on k"""

    target = f"{DMRGF}::DMRGX.__init__"
    floor = 8

    def mk_inputs(self, cx, case):
        return with_cx(cx, dict(self=cx.new_obj("DMRG"), ham=new_op(cx, "ham"), p0=new_vec(cx, "p0"),
                                bond_dims=cx.Opaque("bond_dims"), cutoffs=cx.Opaque("cutoffs"), bsz=cx.Opaque("bsz")))

    def requires_cx(self, cx, a, case):
        d = REGISTRY[DMRGInit.target].requires_cx(cx, a, NS(name="call", p0="given"))
        if is_tn(a.p0) and "_site_ind_id" in cx.pre(a.p0):
            # the literal "__ham2{}__" is used for the middle level: a state that already uses it makes the setter raise
            d["reserved-id-not-used-by-p0"] = cx.pre(a.p0)["_site_ind_id"] != lit("__ham2{}__")
        return d

    def call(self, cx, name, args, kwargs, node):
        if name == "super().__init__":
            return cx.call_contract(REGISTRY[DMRGInit.target], list(args), kwargs, node, recv=cx.env["self"])
        return super().call(cx, name, args, kwargs, node)

    def ensures(self, a, r, cx, case):
        S = cx.fields(a.self)
        d = {"energy2-network-set": is_tn(S.get("TN_energy2")) and all(is_tn(S.get(k)) for k in ("_k", "_b", "ham"))}
        if not d["energy2-network-set"]:
            return d
        K, B, H, E2 = (cx.fields(S[k]) for k in ("_k", "_b", "ham", "TN_energy2"))
        Hin, Pin = cx.pre(a.ham), cx.pre(a.p0)
        L = E2["layers"]
        d["energy2-network-is-(bra|H|H|ket)"] = len(L) == 4 and And(layers_eq((L[0],), B["layers"]),
                                                                   layers_eq((L[3],), K["layers"]))
        if len(L) != 4:
            return d
        stack_posts(d, "TN_energy2", L)
        if L[1].roles == ("up", "lo") and L[2].roles == ("up", "lo"):
            hin = Hin["layers"][0]
            d["both-operators-are-the-given-ham-unconjugated"] = And(
                *[And(l.conj == hin.conj, l.present == hin.present) for l in (L[1], L[2])])
        d["bra-is-the-conjugate-of-ket"] = L[0].conj == Not(L[3].conj)
        d["ket-is-p0-unconjugated"] = L[3].conj == Pin["layers"][0].conj
        d["ket-keeps-its-site-id"] = K["_site_ind_id"] == Pin["_site_ind_id"]
        d["ham-and-p0-untouched"] = And(same_state(cx.fields(a.ham), Hin), same_state(cx.fields(a.p0), Pin))
        # the first energy network of the base class is still <b|ham|k>
        stack_posts(d, "TN_energy", cx.fields(S["TN_energy"])["layers"])
        return d


# ------------------------------------------------------------------------------------------------------------
# C09 / C13: MatrixProductState.partial_trace_to_mpo  (and the 1D override of reindex_sites it goes through)
# ------------------------------------------------------------------------------------------------------------




class RMap:
    """a label -> label dict filled inside a loop over the kept sites.  Ghost: ``ok`` (every entry maps id.format(old) to
    the SAME id.format(new) for the (new, old) pair of its iteration) and, per tracked id, the number of such entries"""

    def __init__(self, ok, counts):
        self.ok, self.counts = ok, dict(counts)  # counts: {name: (id, z3 Int)}


def rmap_of(v, tracked):
    """view of a loop-carried dict: the python dict before the loop ({}), an RMap inside / after it"""
    if isinstance(v, RMap):
        return v
    if isinstance(v, dict) and not v:
        return RMap(z3.BoolVal(True), {k: (i, z3.IntVal(0)) for k, i in tracked.items()})
    raise Unsupported(f"loop-carried map {v!r}")


class OneD(LabelContract):
    """1D classes: reindex_sites is the override of TensorNetwork1DVector (accepts slices)"""

    methods = dict(LabelContract.methods, reindex_sites=f"{TN1D}::TensorNetwork1DVector.reindex_sites")

    def call(self, cx, name, args, kwargs, node):
        if name == "__isinstance__":
            v, cname = args
            if cname == "slice":
                return isinstance(v, SliceSet)
            if cname == "Tensor" and is_tn(v):
                return False  # (a fully contracted network is wrapped again by as_network: same labels)
            raise Unsupported(f"isinstance(..., {cname})")
        if name == "sorted" and isinstance(args[0], SiteSet):
            r = SiteSet(args[0].has, "sorted " + args[0].note)
            r.size = self.size_of(cx, args[0])  # same sites, same number of them
            return r
        if name in ("max", "min") and len(args) == 1 and isinstance(args[0], SiteSet):
            return cx.Int(name + "_site")
        if name == "len" and isinstance(args[0], SiteSet):
            return self.size_of(cx, args[0])
        if name == "enumerate" and isinstance(args[0], SiteSet):
            at = z3.Function("keep_at", z3.IntSort(), z3.IntSort())
            return SymIter(self.size_of(cx, args[0]), lambda t: (t, at(t)))
        if name == "__contains__" and isinstance(args[0], SiteSet):
            return z3.Function("site_in", z3.IntSort(), z3.BoolSort())(args[1]) if is_z3(args[1]) else cx.Bool("site_in")
        if name == "__setitem__" and isinstance(args[0], RMap):
            m, k, v = args
            if not (isinstance(k, Label) and isinstance(v, Label)):
                raise Unsupported("rescale map entry that is not label -> label")
            new, old = cx.env.get("new"), cx.env.get("old")
            good = And(k.fam == v.fam, k.site == old, v.site == new)
            m.ok = And(m.ok, good)
            m.counts = {nm: (i, c + If(And(good, k.fam == i), 1, 0)) for nm, (i, c) in m.counts.items()}
            return None
        if name == "super().reindex_sites":
            return cx.call_contract(REGISTRY[ReindexSites.target], list(args), kwargs, node, recv=cx.env["self"])
        return super().call(cx, name, args, kwargs, node)

    def size_of(self, cx, s):
        if not hasattr(s, "size"):
            s.size = cx.Int("n_keep")
            cx.assume(s.size >= 0)
        return s.size

    def tn_method(self, cx, m, tn, args, kwargs, node):
        f = cx.fields(tn)
        if m == "slice2sites":
            if not isinstance(args[0], SliceSet):
                raise PyRaise("AttributeError", node.lineno)  # (uses slice.start / .stop / .step)
            r = SiteSet(args[0].has, "sites of the slice")
            r.size = self.size_of(cx, args[0])
            return r
        if m == "site_tag":
            return Label(f["_site_tag_id"], args[0])
        if m == "as_network":
            return tn
        if m == "view_as_":
            # leaf: casts the network to the class and stores the given properties (no relabelling)
            if not (isinstance(args[0], Marker) and args[0].name == "MatrixProductOperator"):
                raise Unsupported("view_as_ of another class")
            for k in [k for k in f if k in ("_site_ind_id",)]:
                del f[k]
            f.update(cls="op", _upper_ind_id=as_id(cx, kwargs["upper_ind_id"]),
                     _lower_ind_id=as_id(cx, kwargs["lower_ind_id"]), _site_tag_id=kwargs["site_tag_id"],
                     L=kwargs["L"], cyclic=kwargs["cyclic"])
            return tn
        return super().tn_method(cx, m, tn, args, kwargs, node)

    def attr(self, cx, base, attr, node):
        if is_tn(base) and attr == "site_tag_id":
            return cx.fields(base)["_site_tag_id"]
        return super().attr(cx, base, attr, node)

    def leaf_reindex(self, cx, tn, m, inplace, node):
        if isinstance(m, RMap) or (isinstance(m, dict) and not m):
            # a site renumbering old -> new inside each id: the label FAMILIES on every leg are unchanged
            if isinstance(m, RMap):
                cx.oblige(f"call-pre@{node.lineno}:reindex:renumbering-keeps-every-label-in-its-family", "call-pre", m.ok,
                          node.lineno)
            if not inplace:
                return copy_obj(cx, tn)
            cx.fields(tn)["renumbered_by"] = m
            return tn
        return super().leaf_reindex(cx, tn, m, inplace, node)


@register
class ReindexSites1D(OneD):
    """TensorNetwork1DVector.reindex_sites: as the generic one; a slice stands for its sites"""

    target = f"{TN1D}::TensorNetwork1DVector.reindex_sites"
    floor = 10

    def cases(self):
        return [NS(name=f"where={w},inplace={i}", where=w, inplace=i) for w in ("None", "slice", "given")
                for i in (True, False)]

    def case_of_call(self, cx, a):
        w = "None" if a.where is None else ("slice" if isinstance(a.where, SliceSet) else "given")
        if not isinstance(a.inplace, bool):
            raise Unsupported("symbolic inplace")
        return NS(name="call", where=w, inplace=a.inplace)

    def mk_inputs(self, cx, case):
        w = {"None": None, "slice": SliceSet(cx.Bool("s_in_slice"), "slice"),
             "given": SiteSet(cx.Bool("s_in_where"), "where")}[case.where]
        return with_cx(cx, dict(self=general_net(cx, "vec", "T"), new_id=mk_id(cx, "new_id"), where=w,
                                inplace=case.inplace))

    def modifies(self, a, case):
        return [(a.self, ["layers"])] if case.inplace else []

    def fresh_result(self, cx, a, case):
        return a.self if case.inplace else cx.new_obj("TN", **fresh_like(cx, cx.pre(a.self), "ri"))

    def ensures(self, a, r, cx, case):
        return ReindexSites.ensures(REGISTRY[ReindexSites.target], a, r, cx, case)


@register
class PartialTraceToMPO(OneD):
    """partial_trace_to_mpo(keep, upper_ind_id, rescale_sites): rho = tr_rest |psi><psi| as an MPO whose declared UPPER id
    (rows) labels the UNCONJUGATED layer and whose LOWER id (columns) the conjugated layer on every kept site; on the
    other sites the two layers share their label (traced)"""

    target = f"{TN1D}::MatrixProductState.partial_trace_to_mpo"
    floor = 60

    def cases(self):
        return [NS(name=f"keep={k},rescale={r}", keep=k, rescale=r) for k in ("seq", "slice") for r in (True, False)]

    def mk_inputs(self, cx, case):
        keep = (SliceSet if case.keep == "slice" else SiteSet)(cx.Bool("s_kept"), "keep")
        return with_cx(cx, dict(self=new_vec(cx, "psi"), keep=keep, upper_ind_id=mk_id(cx, "bra_id"),
                                rescale_sites=case.rescale))

    def requires_cx(self, cx, a, case):
        P = cx.pre(a.self)
        return {"wf-psi": wf(P), "bra-id-differs-from-site-id": as_id(cx, a.upper_ind_id) != P["_site_ind_id"]}

    def tracked(self, v):
        P = v.cx.pre(v.old.self)
        return ({"site": P["_site_ind_id"], "bra": as_id(v.cx, v.old.upper_ind_id)}, {"tag": P["_site_tag_id"]})

    def inv_rescale(self, v):
        ti, tt = self.tracked(v)
        reind, retag = rmap_of(v.reind, ti), rmap_of(v.retag, tt)
        d = {"renumbering-keeps-families": And(reind.ok, retag.ok)}
        for nm, (i, c) in list(reind.counts.items()) + list(retag.counts.items()):
            d[f"one-entry-per-kept-site:{nm}"] = c == v._it1
        d.update(self.frame_inv("loop1")(v))
        return d

    def retype(self, which):
        def mk(cx):
            P = cx.pre(cx.old.self)
            tr = {"site": P["_site_ind_id"], "bra": as_id(cx, cx.old.upper_ind_id)} if which == "reind" else \
                {"tag": P["_site_tag_id"]}
            return RMap(cx.Bool(f"{which}_ok"), {k: (i, cx.Int(f"{which}_n_{k}")) for k, i in tr.items()})

        return mk

    @property
    def loops(self):
        return {0: Loop("for i in self.gen_sites_present()", self.frame_inv("loop0")),
                1: Loop("for (new, old) in enumerate(keep)", self.inv_rescale,
                        retype={"reind": self.retype("reind"), "retag": self.retype("retag")})}

    def ensures(self, a, r, cx, case):
        d = {"result-is-network": is_tn(r)}
        if not is_tn(r):
            return d
        P, R = cx.pre(a.self), cx.fields(r)
        psi = P["layers"][0]
        kept, bra_id = a.keep.has, as_id(cx, a.upper_ind_id)
        d["psi-untouched"] = same_state(cx.fields(a.self), P)
        d["result-is-a-new-operator"] = r.oid not in cx.pre_heap and R["cls"] == "op"
        if R["cls"] != "op" or len(R["layers"]) != 2 or any(l.roles != ("site",) for l in R["layers"]):
            d["result-holds-two-copies-of-psi"] = False
            return d
        l0, l1 = R["layers"]
        d["one-unconjugated-one-conjugated-layer"] = And(l0.conj != l1.conj, l0.present == psi.present,
                                                         l1.present == psi.present)
        for j, l in enumerate((l0, l1)):
            d[f"rows:upper-id-on-the-unconjugated-layer[{j}]"] = Implies(
                And(psi.present, kept, l.conj == psi.conj), l.slot("site") == R["_upper_ind_id"])
            d[f"columns:lower-id-on-the-conjugated-layer[{j}]"] = Implies(
                And(psi.present, kept, l.conj != psi.conj), l.slot("site") == R["_lower_ind_id"])
        d["traced-sites-share-their-label"] = Implies(And(psi.present, Not(kept)), l0.slot("site") == l1.slot("site"))
        d["upper-and-lower-ids-differ"] = R["_upper_ind_id"] != R["_lower_ind_id"]
        d["declared-ids-are-(site-id,bra-id)"] = And(R["_upper_ind_id"] == P["_site_ind_id"], R["_lower_ind_id"] == bra_id)
        d["tag-id-kept"] = R["_site_tag_id"] == P["_site_tag_id"]
        if case.rescale:
            m = R.get("renumbered_by")
            d["kept-sites-renumbered-in-both-ids"] = isinstance(m, RMap) and And(
                m.ok, *[c == self.size_of(cx, a.keep) for _, (i, c) in m.counts.items()])
            d["length-is-number-of-kept-sites"] = R["L"] == self.size_of(cx, a.keep)
        else:
            d["sites-keep-their-numbers"] = "renumbered_by" not in R
            d["length-kept"] = R["L"] == P["L"]
        return d


# ------------------------------------------------------------------------------------------------------------
# C13: the exact reduced density matrix / local expectation of TensorNetworkGenVector
# ------------------------------------------------------------------------------------------------------------
# label level: a label is a term of sort Lab; fmt(id, site) = id.format(site); mangle(l) = l + mangle_append.

Lab = z3.DeclareSort("Label")
fmt = z3.Function("fmt", Id, z3.IntSort(), Lab)
mangle = z3.Function("mangle", Lab, Lab)


class LabV:
    """a single label"""

    def __init__(self, z):
        self.z = z


class BoundMethod:
    def __init__(self, name, of):
        self.name, self.of = name, of


class WSeq:
    """the sequence ``where`` of sites: length n, j-th site at(j)"""

    def __init__(self, n, at, note="where"):
        self.n, self.at, self.note = n, at, note


class LabSeq:
    """(id.format(w) for w in over)"""

    def __init__(self, fam, over):
        self.fam, self.over = fam, over

    @property
    def parts(self):
        return (self,)


class LabCat:
    def __init__(self, parts):
        self.parts = tuple(parts)


def seq_eq(a, b):
    """two label sequences are equal (same ids over the same site sequence, part by part)"""
    pa, pb = getattr(a, "parts", None), getattr(b, "parts", None)
    if pa is None or pb is None or len(pa) != len(pb):
        return False
    if any(x.over is not y.over for x, y in zip(pa, pb)):
        return False
    return And(*[x.fam == y.fam for x, y in zip(pa, pb)])


class RDMNet:
    """the value of make_reduced_density_matrix(where, bra_ind_id) of ``src``"""

    def __init__(self, src, where, bra_id):
        self.src, self.where, self.bra_id = src, where, bra_id


class RhoVal:
    """rho as tensor / array / fused matrix.  ``axes``: label sequence of the axes (tensor, array) or (rows, cols) (matrix);
    ``times_normalised``: how often it has been divided by its trace"""

    def __init__(self, form, axes, net, times_normalised=0):
        self.form, self.axes, self.net, self.times_normalised = form, axes, net, times_normalised


class NFactor:
    """trace of the fused matrix of ``of`` (a RhoVal) -- or its reciprocal"""

    def __init__(self, of, inverse=False):
        self.of, self.inverse = of, inverse


class RehearseInfo:
    def __init__(self, tn, output_inds):
        self.tn, self.output_inds = tn, output_inds


class ExactContract(LabelContract):
    property_ids = ("C13",)
    methods = dict(LabelContract.methods,
                   make_reduced_density_matrix=f"{TNAG}::TensorNetworkGenVector.make_reduced_density_matrix",
                   partial_trace_exact=f"{TNAG}::TensorNetworkGenVector.partial_trace_exact")

    def wseq(self, cx, where):
        """the site sequence denoted by ``where`` (a WSeq, or the python tuple (site,) of the single-site form)"""
        if isinstance(where, WSeq):
            return where
        if isinstance(where, tuple) and len(where) == 1 and is_int(where[0]):
            cache = cx.ghost.setdefault("wseq1", {})
            key = str(where[0])
            if key not in cache:
                w0 = where[0]
                cache[key] = WSeq(1, lambda j, w0=w0: w0, "(where,)")
            return cache[key]
        raise Unsupported(f"where = {where!r}")

    def attr(self, cx, base, attr, node):
        if is_tn(base) and attr == "site_ind":
            return BoundMethod("site_ind", cx.fields(base)["_site_ind_id"])
        if (isinstance(base, str) or is_id(base)) and attr == "format":
            return BoundMethod("format", as_id(cx, base))
        if isinstance(base, RhoVal):
            if attr == "data" and base.form == "tensor":
                return RhoVal("array", base.axes, base.net, base.times_normalised)
            if attr == "shape":
                return NS(shape_of=base)
        return super().attr(cx, base, attr, node)

    def call(self, cx, name, args, kwargs, node):
        if name == "map" and isinstance(args[0], BoundMethod):
            return LabSeq(args[0].of, self.wseq(cx, args[1]))
        if name == "tuple" and len(args) == 1 and isinstance(args[0], (LabSeq, LabCat)):
            return args[0]
        if name == "__tuple__":
            parts = []
            for kind, v in args[0]:
                if kind != "star" or not isinstance(v, (LabSeq, LabCat)):
                    raise Unsupported("tuple display mixing labels with other values")
                parts.extend(v.parts)
            return LabCat(parts)
        if name == "__binop__":
            op, x, y = args
            if op == "Add" and isinstance(x, (LabSeq, LabCat)) and isinstance(y, (LabSeq, LabCat)):
                return LabCat(x.parts + y.parts)
            if op == "Div" and isinstance(x, RhoVal) and isinstance(y, NFactor) and not y.inverse:
                cx.oblige(f"normalise@{node.lineno}:factor-is-the-trace-of-this-rho", "call-pre",
                          y.of.net is x.net and y.of.times_normalised == 0, node.lineno)
                return RhoVal(x.form, x.axes, x.net, x.times_normalised + 1)
            if op == "Div" and x == 1 and isinstance(y, NFactor) and not y.inverse:
                return NFactor(y.of, inverse=True)
        if name == "_handle_rehearse":
            return RehearseInfo(args[1], kwargs.get("output_inds"))
        if name == "do":
            if args[0] == "trace" and isinstance(args[1], RhoVal) and args[1].form == "matrix":
                return NFactor(args[1])
        if name == ".contract" and isinstance(args[0], RDMNet):
            # leaf: exact contraction to a tensor whose axes are ``output_inds`` in the given order
            return RhoVal("tensor", kwargs["output_inds"], args[0])
        if name == ".to_dense" and isinstance(args[0], RhoVal) and args[0].form == "tensor" and len(args) == 3:
            # leaf Tensor.to_dense(rows, cols): fuses the labels of ``rows`` into the row index, ``cols`` into the column
            t = args[0]
            cx.oblige(f"to_dense@{node.lineno}:groups-cover-the-axes-of-the-tensor", "call-pre",
                      seq_eq(LabCat(args[1].parts + args[2].parts), t.axes), node.lineno)
            return RhoVal("matrix", (args[1], args[2]), t.net, t.times_normalised)
        if name == ".multiply_" and isinstance(args[0], RhoVal) and isinstance(args[1], NFactor) and args[1].inverse:
            t, f = args[0], args[1]
            cx.oblige(f"normalise@{node.lineno}:factor-is-the-trace-of-this-rho", "call-pre",
                      f.of.net is t.net and f.of.times_normalised == 0, node.lineno)
            t.times_normalised += 1
            return t
        return super().call(cx, name, args, kwargs, node)

    def tn_method(self, cx, m, tn, args, kwargs, node):
        if m == "has_site":
            w = args[0]
            if isinstance(w, WSeq) or isinstance(w, tuple):
                return False
            if is_int(w):
                return True
            raise Unsupported(f"has_site({w!r})")
        return super().tn_method(cx, m, tn, args, kwargs, node)


def mk_where(cx, kind):
    if kind == "single":
        return cx.Int("where_site")
    n = cx.Int("ng")
    cx.assume(n >= 1)
    return WSeq(n, z3.Function("where_at", z3.IntSort(), z3.IntSort()))


class RMapL:
    """reindex_map seen from the skolem label: is it a key, and what is its image"""

    def __init__(self, has, val):
        self.has, self.val = has, val


class PSet:
    """phys_inds seen from the skolem label"""

    def __init__(self, has):
        self.has = has


class WSet:
    """set(where): membership predicate on sites"""

    def __init__(self, member):
        self.member = member


@register
class MakeRDM(ExactContract):
    """make_reduced_density_matrix(where, allow_dangling, bra_ind_id, mangle_append): for an ARBITRARY label l of the state:
       physical, site kept      -> ket keeps l,   bra gets bra_ind_id.format(site)
       physical, site not kept  -> ket and bra both keep l (traced)
       dangling & allow_dangling-> both keep l
       any other label          -> ket keeps l,   bra gets l + mangle_append   (nothing else is shared)
    and the bra layer is the conjugate of the (untouched) state"""

    target = f"{TNAG}::TensorNetworkGenVector.make_reduced_density_matrix"
    floor = 40

    ELL = z3.Const("l!skolem", Lab)                 # the skolem label
    IS_PHYS = z3.Bool("l!is_physical")               # l is site_ind(C) for the site C at position IDX of gen_site_coos
    C, IDX, JDX = z3.Int("l!site"), z3.Int("l!site_pos"), z3.Int("l!ind_map_pos")
    site_at = z3.Function("site_at", z3.IntSort(), z3.IntSort())
    ix_at = z3.Function("ix_at", z3.IntSort(), Lab)
    ntids = z3.Function("ntids", Lab, z3.IntSort())
    inwhere = z3.Function("in_where", z3.IntSort(), z3.BoolSort())
    in_phys_other = z3.Function("in_phys_inds", Lab, z3.BoolSort())

    def cases(self):
        return [NS(name=f"where={w},allow_dangling={d},layer_tags={t}", where=w, dangling=d, tags=t)
                for w in ("single", "seq") for d in (True, False) for t in (True, False)]

    def case_of_call(self, cx, a):
        return NS(name="call", where="single" if is_int(a.where) else "seq", dangling=a.allow_dangling, tags=True)

    def mk_inputs(self, cx, case):
        psi = new_vec(cx, "psi")
        cx.ghost["n_sites"], cx.ghost["n_inds"] = cx.Int("n_sites"), cx.Int("n_inds")
        cx.assume(And(cx.ghost["n_sites"] >= 0, cx.ghost["n_inds"] >= 1))
        sid = cx.fields(psi)["_site_ind_id"]
        # definition of the skolem label: a label of the network, at position JDX of ind_map; physical iff it is the
        # site label of the site C which sits at position IDX of gen_site_coos
        cx.assume(And(0 <= self.JDX, self.JDX < cx.ghost["n_inds"], self.ix_at(self.JDX) == self.ELL))
        cx.assume(Implies(self.IS_PHYS, And(self.ELL == fmt(sid, self.C), 0 <= self.IDX, self.IDX < cx.ghost["n_sites"],
                                            self.site_at(self.IDX) == self.C)))
        return with_cx(cx, dict(self=psi, where=mk_where(cx, case.where), allow_dangling=case.dangling,
                                bra_ind_id=mk_id(cx, "bra_id"), mangle_append="*",
                                layer_tags=("KET", "BRA") if case.tags else ()))

    def requires_cx(self, cx, a, case):
        return {"is-vector": cx.pre(a.self)["cls"] == "vec"}

    # ---- skolem facts (definitional): the t-th site / the t-th key of ind_map is the skolem one iff t is its position
    def site_facts(self, v):
        sid = v.cx.pre(v.old.self)["_site_ind_id"]
        t = v._it0
        return [Implies(self.IS_PHYS, (fmt(sid, self.site_at(t)) == self.ELL) == (t == self.IDX)),
                Implies(Not(self.IS_PHYS), fmt(sid, self.site_at(t)) != self.ELL)]

    def ind_facts(self, v):
        t = v._it1
        return [(self.ix_at(t) == self.ELL) == (t == self.JDX)]

    def member(self, a):
        """site in set(where)"""
        if is_int(a.where):
            return lambda c: c == a.where
        return lambda c: self.inwhere(c)

    def inv_sites(self, v):
        cx, a = v.cx, v.old
        rm, ps = self.as_rmap(v.reindex_map), v.phys_inds
        t = v._it0
        done = And(self.IS_PHYS, self.IDX < t)
        d = {"phys_inds-holds-the-site-labels-seen-so-far": ps.has == done,
             "kept-sites-seen-so-far-are-mapped": rm.has == And(done, self.member(a)(self.C)),
             "...to-their-bra-label": Implies(rm.has, rm.val == fmt(as_id(cx, a.bra_ind_id), self.C))}
        d.update(self.frame_inv("loop0")(v))
        return d

    def inv_inds(self, v):
        cx, a = v.cx, v.old
        rm, ps = self.as_rmap(v.reindex_map), v.phys_inds
        t = v._it1
        dangling_ok = And(self.ntids(self.ELL) == 1, a.allow_dangling)
        d = {"phys_inds-complete": ps.has == self.IS_PHYS,
                "physical:kept-iff-mapped-to-bra-label": Implies(self.IS_PHYS, And(
                    rm.has == self.member(a)(self.C), Implies(rm.has, rm.val == fmt(as_id(cx, a.bra_ind_id), self.C)))),
                "other:mangled-once-seen-unless-allowed-dangling": Implies(Not(self.IS_PHYS), And(
                    rm.has == And(self.JDX < t, Not(dangling_ok)), Implies(rm.has, rm.val == mangle(self.ELL))))}
        d.update(self.frame_inv("loop1")(v))
        return d

    @staticmethod
    def as_rmap(v):
        if isinstance(v, RMapL):
            return v
        if isinstance(v, dict) and not v:
            return RMapL(z3.BoolVal(False), MakeRDM.ELL)
        raise Unsupported(f"reindex_map = {v!r}")

    @property
    def loops(self):
        hv_rm = lambda cx: RMapL(cx.Bool("rm_has"), z3.Const(cx._name("rm_val"), Lab))
        hv_ps = lambda cx: PSet(cx.Bool("ps_has"))
        return {0: Loop("for coo in self.gen_site_coos()", self.inv_sites, facts=self.site_facts,
                        extra_modifies=("reindex_map", "phys_inds"), retype={"reindex_map": hv_rm, "phys_inds": hv_ps}),
                1: Loop("for (ix, tids) in self.ind_map.items()", self.inv_inds, facts=self.ind_facts,
                        extra_modifies=("reindex_map", "phys_inds"), retype={"reindex_map": hv_rm, "phys_inds": hv_ps})}

    def attr(self, cx, base, attr, node):
        if is_tn(base) and attr == "ind_map":
            return Marker("ind_map")
        return super().attr(cx, base, attr, node)

    def call(self, cx, name, args, kwargs, node):
        if name == "set":
            if not args:
                return PSet(z3.BoolVal(False))
            w = args[0]
            if isinstance(w, tuple) and len(w) == 1:
                return WSet(lambda c, w0=w[0]: c == w0)
            if isinstance(w, WSeq):
                return WSet(lambda c: self.inwhere(c))
            raise Unsupported(f"set({w!r})")
        if name == "__contains__":
            cont, x = args
            if isinstance(cont, WSet):
                return cont.member(x)
            if isinstance(cont, PSet) and isinstance(x, LabV):
                return If(x.z == self.ELL, cont.has, self.in_phys_other(x.z))
        if name == ".add" and isinstance(args[0], PSet):
            args[0].has = Or(args[0].has, args[1].z == self.ELL)
            return None
        if name == "__setitem__" and isinstance(args[0], RMapL):
            m, k, v = args
            if not (isinstance(k, LabV) and isinstance(v, LabV)):
                raise Unsupported("reindex_map entry that is not label -> label")
            hit = k.z == self.ELL
            m.has, m.val = Or(m.has, hit), If(hit, v.z, m.val)
            return None
        if name == ".format" and (is_id(args[0]) or isinstance(args[0], str)) and len(args) == 2 and is_int(args[1]):
            return LabV(fmt(as_id(cx, args[0]), args[1]))
        if name == ".items" and isinstance(args[0], Marker) and args[0].name == "ind_map":
            return SymIter(cx.ghost["n_inds"], lambda t: (LabV(self.ix_at(t)), NS(tids_of=self.ix_at(t))))
        if name == "len" and isinstance(args[0], NS) and "tids_of" in args[0]:
            return self.ntids(args[0].tids_of)
        if name == "__binop__" and args[0] == "Add" and isinstance(args[1], LabV) and isinstance(args[2], str):
            return LabV(mangle(args[1].z))
        if name == "__iter__" and isinstance(args[0], Marker) and args[0].name == "site_coos":
            return (cx.ghost["n_sites"], lambda t: self.site_at(t))
        return super().call(cx, name, args, kwargs, node)

    def tn_method(self, cx, m, tn, args, kwargs, node):
        f = cx.fields(tn)
        if m == "gen_site_coos":
            return Marker("site_coos")
        if m == "site_ind" and is_int(args[0]):
            return LabV(fmt(f["_site_ind_id"], args[0]))
        if m == "reindex" and isinstance(args[0], (RMapL, dict)):
            # leaf reindex at the label level: the skolem label becomes its image if it is a key
            if kwargs.get("inplace", False):
                raise Unsupported("in place reindex of the state")
            rm = self.as_rmap(args[0])
            r = copy_obj(cx, tn)
            cx.fields(r)["img"] = If(rm.has, rm.val, cx.fields(tn).get("img", self.ELL))
            return r
        if m == "combine" and is_tn(args[0]):
            fa, fb = f, cx.fields(args[0])
            return cx.new_obj("TN", cls="plain", cyclic=fa["cyclic"], L=fa["L"],
                              layers=fa["layers"] + fb["layers"], imgs=(fa.get("img", self.ELL), fb.get("img", self.ELL)),
                              opts=dict(kwargs))
        return super().tn_method(cx, m, tn, args, kwargs, node)

    def apply(self, cx, a, node, case=None):
        """callee use: the value 'reduced density matrix network of (self, where, bra_ind_id)'"""
        for lab, c in self.requires_at(cx, a, self.case_of_call(cx, a)).items():
            cx.oblige(f"call-pre@{node.lineno}:make_reduced_density_matrix:{lab}", "call-pre", c, node.lineno)
        return RDMNet(a.self, a.where, as_id(cx, a.bra_ind_id))

    def ensures(self, a, r, cx, case):
        d = {"result-is-network": is_tn(r) and "imgs" in cx.fields(r)}
        if not d["result-is-network"]:
            return d
        P, R = cx.pre(a.self), cx.fields(r)
        psi = P["layers"][0]
        d["psi-untouched"] = And(same_state(cx.fields(a.self), P), "img" not in cx.fields(a.self))
        d["result-is-(ket,bra)"] = len(R["layers"]) == 2 and And(
            R["layers"][0].conj == psi.conj, R["layers"][1].conj == Not(psi.conj),
            R["layers"][0].present == psi.present, R["layers"][1].present == psi.present)
        ket, bra = R["imgs"]
        kept = self.member(a)(self.C)
        dangling_ok = And(self.ntids(self.ELL) == 1, a.allow_dangling)
        bra_id = as_id(cx, a.bra_ind_id)
        d["ket-keeps-every-label"] = ket == self.ELL
        d["kept-site:bra-gets-the-bra-label"] = Implies(And(self.IS_PHYS, kept), bra == fmt(bra_id, self.C))
        d["traced-site:bra-shares-the-label"] = Implies(And(self.IS_PHYS, Not(kept)), bra == self.ELL)
        d["allowed-dangling-label-left-alone"] = Implies(And(Not(self.IS_PHYS), dangling_ok), bra == self.ELL)
        d["every-other-label-mangled-on-the-bra-only"] = Implies(And(Not(self.IS_PHYS), Not(dangling_ok)),
                                                                 bra == mangle(self.ELL))
        d["virtual-combination-without-second-mangling"] = R["opts"].get("check_collisions") is False
        return d


@register
class PartialTraceExact(ExactContract):
    """partial_trace_exact(where, normalized, get): rho with axes (*k, *b) in the order of ``where`` (matrix form: rows = the
    ket labels k, columns = the bra labels b), built from the reduced-density-matrix network of the SAME where / bra id;
    divided by its trace exactly once iff normalized is True; normalized='return' gives (unnormalised rho, trace)"""

    target = f"{TNAG}::TensorNetworkGenVector.partial_trace_exact"
    floor = 80
    BRA = "_bra{}"

    def cases(self):
        return [NS(name=f"where={w},normalized={nz},rehearse={rh},get={g}", where=w, normalized=nz, rehearse=rh, get=g)
                for w in ("single", "seq") for nz in (True, False, "return") for rh in (False, True)
                for g in ("matrix", "array", "tensor", "other") if not (rh and g != "matrix")]

    def case_of_call(self, cx, a):
        if not isinstance(a.get, str) or not isinstance(a.rehearse, bool) or is_z3(a.normalized):
            raise Unsupported("symbolic get / rehearse / normalized")
        return NS(name="call", where="single" if is_int(a.where) else "seq", normalized=a.normalized,
                  rehearse=a.rehearse, get=a.get)

    def mk_inputs(self, cx, case):
        return with_cx(cx, dict(self=new_vec(cx, "psi"), where=mk_where(cx, case.where), optimize="auto-hq",
                                normalized=case.normalized, rehearse=case.rehearse, get=case.get, contract_opts={}))

    def requires_cx(self, cx, a, case):
        return {"is-vector": cx.pre(a.self)["cls"] == "vec"}

    def expected_axes(self, cx, a):
        W = self.wseq(cx, (a.where,) if is_int(a.where) else a.where)
        sid = cx.pre(a.self)["_site_ind_id"]
        return LabSeq(sid, W), LabSeq(lit(self.BRA), W)

    def apply(self, cx, a, node, case=None):
        case = case or self.case_of_call(cx, a)
        for lab, c in self.requires_at(cx, a, case).items():
            cx.oblige(f"call-pre@{node.lineno}:partial_trace_exact:{lab}", "call-pre", c, node.lineno)
        saved, cx.pre_heap = cx.pre_heap, cx.heap
        try:
            k, b = self.expected_axes(cx, a)
        finally:
            cx.pre_heap = saved
        net = RDMNet(a.self, a.where, lit(self.BRA))
        if case.rehearse:
            return RehearseInfo(net, LabCat((k, b)))
        if case.get not in ("matrix", "array", "tensor"):
            raise PyRaise("ValueError", node.lineno)
        axes = (k, b) if case.get == "matrix" else LabCat((k, b))
        rho = RhoVal(case.get, axes, net, 1 if case.normalized is True else 0)
        if case.normalized == "return":
            return (rho, NFactor(RhoVal("matrix", (k, b), net, 0)))
        return rho

    def ensures_raise(self, a, exc, cx, case):
        if exc == "ValueError":
            return {"raise-only-for-unknown-get": case.get not in ("matrix", "array", "tensor") and not case.rehearse}
        return {f"no-raise-{exc}": False}

    def ensures(self, a, r, cx, case):
        k, b = self.expected_axes(cx, a)
        if case.rehearse:
            d = {"rehearsal-info-returned": isinstance(r, RehearseInfo)}
            if d["rehearsal-info-returned"]:
                d["rehearsed-output-is-(*k,*b)-in-order-of-where"] = seq_eq(r.output_inds, LabCat((k, b)))
                d["rehearsed-network-is-the-rdm-of-where"] = self.net_ok(cx, a, r.tn)
            return d
        if case.get not in ("matrix", "array", "tensor"):
            return {"unknown-get-must-raise": False}
        pair = case.normalized == "return"
        d = {"result-shape": (isinstance(r, tuple) and len(r) == 2) if pair else isinstance(r, RhoVal)}
        if not d["result-shape"]:
            return d
        rho = r[0] if pair else r
        d["result-form"] = isinstance(rho, RhoVal) and rho.form == case.get
        if not d["result-form"]:
            return d
        if case.get == "matrix":
            d["rows-are-the-ket-labels-in-order-of-where"] = seq_eq(rho.axes[0], k)
            d["columns-are-the-bra-labels-in-order-of-where"] = seq_eq(rho.axes[1], b)
        else:
            d["axes-are-(*k,*b)-in-order-of-where"] = seq_eq(rho.axes, LabCat((k, b)))
        d["built-from-the-rdm-network-of-the-same-where-and-bra-id"] = self.net_ok(cx, a, rho.net)
        d["normalisation-applied-exactly-once-iff-normalized-is-True"] = \
            rho.times_normalised == (1 if case.normalized is True else 0)
        if pair:
            f = r[1]
            d["returned-factor-is-the-trace-of-the-unnormalised-rho"] = isinstance(f, NFactor) and not f.inverse and \
                f.of.net is rho.net and f.of.times_normalised == 0 and f.of.form == "matrix" and \
                And(seq_eq(f.of.axes[0], k), seq_eq(f.of.axes[1], b))
        return d

    def net_ok(self, cx, a, net):
        if not isinstance(net, RDMNet) or net.src != a.self:
            return False
        same_where = (net.where is a.where) or (is_int(a.where) and isinstance(net.where, tuple) and
                                                 len(net.where) == 1 and net.where[0] is a.where)
        return And(same_where, net.bra_id == lit(self.BRA))


class GVal:
    """the local operator: 'matrix' (D x D) or 'tensor' form (row index of site j on axis j, column index on axis ng+j)"""

    def __init__(self, form, ng):
        self.form, self.ng = form, ng


class IntSeq:
    """a tuple of ints of symbolic length: j -> elem(j)"""

    def __init__(self, n, elem):
        self.n, self.elem = n, elem


class ExpecVal:
    def __init__(self, rho):
        self.rho = rho


@register
class LocalExpectationExact(ExactContract):
    """local_expectation_exact(G, where, normalized): sum_{k,b} rho[k,b] G[b,k] for EVERY number of sites ng = len(where):
    every axis of rho is paired exactly once, the ket axis of site j (axis j) with the COLUMN axis of G (ng+j) and the bra
    axis (ng+j) with the ROW axis j; normalised iff normalized is True; 'return' gives (value, trace)"""

    target = f"{TNAG}::TensorNetworkGenVector.local_expectation_exact"
    floor = 20
    J = z3.Int("j!axis")  # skolem position in the axes tuples

    def cases(self):
        return [NS(name=f"G={g},normalized={nz},rehearse={rh}", g=g, normalized=nz, rehearse=rh)
                for g in ("matrix", "tensor") for nz in (True, False, "return") for rh in (False, True)]

    def mk_inputs(self, cx, case):
        where = mk_where(cx, "seq")
        return with_cx(cx, dict(self=new_vec(cx, "psi"), G=GVal(case.g, where.n), where=where, optimize="auto-hq",
                                normalized=case.normalized, rehearse=case.rehearse, contract_opts={}))

    def requires_cx(self, cx, a, case):
        return {"is-vector": cx.pre(a.self)["cls"] == "vec"}

    def call(self, cx, name, args, kwargs, node):
        if name == "len" and isinstance(args[0], WSeq):
            return args[0].n
        if name == "__unpack__" and isinstance(args[0], (RhoVal, ExpecVal)):
            raise PyRaise("ValueError", getattr(node, "lineno", 0))  # an array is not a (value, factor) pair
        if name == "__getslice__" and isinstance(args[0], WSeq):
            w, lo, hi, st = args
            if lo is None and hi is None and st == -1:
                return WSeq(w.n, lambda j, w=w: w.at(w.n - 1 - j), "reversed " + w.note)
            raise Unsupported("slice of where")
        if name == "do":
            if args[0] == "ndim" and isinstance(args[1], GVal):
                return 2 if args[1].form == "matrix" else 2 * args[1].ng
            if args[0] == "reshape" and isinstance(args[1], GVal) and isinstance(args[2], NS) and "shape_of" in args[2]:
                # leaf: C-order reshape of the D x D matrix to the shape of rho (d_k.., d_b..): rows -> the first ng
                # axes, columns -> the last ng (the dimensions of the k and b axes agree site by site)
                rho = args[2].shape_of
                ok = rho.form in ("array", "tensor") and len(rho.axes.parts) == 2 and \
                    rho.axes.parts[0].over is rho.axes.parts[1].over
                cx.oblige(f"reshape@{node.lineno}:target-shape-is-that-of-(*k,*b)", "call-pre", ok, node.lineno)
                return GVal("tensor", rho.axes.parts[0].over.n) if ok else GVal("matrix", args[1].ng)
            if args[0] == "tensordot":
                return self.leaf_tensordot(cx, args[1], args[2], kwargs["axes"], node)
        if name == "range":
            return ("irange",) + tuple(args)
        if name == "tuple" and isinstance(args[0], tuple) and args[0] and args[0][0] == "irange":
            ra = args[0][1:]
            lo, hi = (0, ra[0]) if len(ra) == 1 else (ra[0], ra[1])
            return IntSeq(hi - lo, lambda j, lo=lo: lo + j)
        if name == "__binop__" and args[0] == "Add" and isinstance(args[1], IntSeq) and isinstance(args[2], IntSeq):
            x, y = args[1], args[2]
            return IntSeq(x.n + y.n, lambda j, x=x, y=y: If(j < x.n, x.elem(j), y.elem(j - x.n)))
        return super().call(cx, name, args, kwargs, node)

    def leaf_tensordot(self, cx, rho, G, axes, node):
        """leaf tensordot(rho, G, axes=(A, B)): sums over the pairs (axis A[j] of rho, axis B[j] of G)"""
        ok = isinstance(rho, RhoVal) and rho.form == "array" and isinstance(G, GVal) and \
            isinstance(axes, tuple) and len(axes) == 2 and all(isinstance(x, IntSeq) for x in axes)
        cx.oblige(f"tensordot@{node.lineno}:operands-are-(rho-array,G)", "call-pre", ok, node.lineno)
        if not ok:
            return cx.Opaque("tensordot")
        A, B = axes
        ng = rho.axes.parts[0].over.n
        # a D x D matrix IS the tensor form when there is a single site
        cx.oblige(f"tensordot@{node.lineno}:G-is-in-tensor-form", "call-pre", True if G.form == "tensor" else G.ng == 1,
                  node.lineno)
        j = self.J
        cx.oblige(f"tensordot@{node.lineno}:G-has-one-row-and-one-column-axis-per-site", "call-pre", G.ng == ng, node.lineno)
        cx.oblige(f"tensordot@{node.lineno}:all-2ng-axes-are-summed", "call-pre", And(A.n == 2 * ng, B.n == 2 * ng),
                  node.lineno)
        inr = And(0 <= j, j < 2 * ng)
        cx.oblige(f"tensordot@{node.lineno}:every-axis-of-rho-exactly-once", "call-pre", Implies(inr, A.elem(j) == j),
                  node.lineno)
        a, g = A.elem(j), B.elem(j)
        cx.oblige(f"tensordot@{node.lineno}:pairing-is-sum-rho[k,b]G[b,k]", "call-pre",
                  Implies(inr, If(a < ng, g == a + ng, g == a - ng)), node.lineno)
        return ExpecVal(rho)

    def ensures(self, a, r, cx, case):
        if case.rehearse:
            return {"rehearsal-info-returned-immediately": isinstance(r, RehearseInfo)}
        pair = case.normalized == "return"
        d = {"result-shape": (isinstance(r, tuple) and len(r) == 2) if pair else isinstance(r, ExpecVal)}
        if not d["result-shape"]:
            return d
        e = r[0] if pair else r
        d["value-is-a-contraction-of-rho-with-G"] = isinstance(e, ExpecVal)
        if not isinstance(e, ExpecVal):
            return d
        d["rho-is-the-exact-rdm-of-the-same-where"] = isinstance(e.rho.net, RDMNet) and e.rho.net.src == a.self and \
            e.rho.net.where is a.where
        d["normalised-exactly-once-iff-normalized-is-True"] = e.rho.times_normalised == (1 if case.normalized is True else 0)
        if pair:
            d["returned-factor-is-the-trace-of-rho"] = isinstance(r[1], NFactor) and not r[1].inverse and \
                r[1].of.net is e.rho.net
        return d


# ------------------------------------------------------------------------------------------------------------
# C09: expec_TN_1D(bra, ops..., ket) and MatrixProductState.expec
# ------------------------------------------------------------------------------------------------------------


@register
class ExpecTN1D(OneD):
    """expec_TN_1D(*tns): the contracted network is the stack of (copies of) the arguments IN THE GIVEN ORDER, joined as
    by tensor_network_align: the FIRST vector (bra position) on the UP leg of the first operator, ..., the LAST vector
    (ket position) on the LO leg of the last operator; nothing is conjugated, the arguments are untouched"""

    target = f"{TN1D}::expec_TN_1D"
    floor = 60

    def cases(self):
        out = []
        for kinds in ("vv", "vov", "voov", "vvv"):
            for compress in (None, False, True):
                out.append(NS(name=f"{kinds},compress={compress}", kinds=tuple(kinds), compress=compress))
        return out

    def case_of_call(self, cx, a):
        if any(not is_tn(t) for t in a.tns):
            raise Unsupported("expec_TN_1D on a collection of unknown size")
        if is_z3(a.compress):
            raise Unsupported("symbolic compress")
        return NS(name="call", kinds=kinds_of(cx, a.tns), compress=a.compress)

    def as_align(self, a):
        return NS(tns=tuple(a.tns), ind_ids=None, trace=False, inplace=False)

    def align_case(self, case):
        return NS(name="call", kinds=case.kinds, ids="None", trace=False, inplace=False)

    def mk_inputs(self, cx, case):
        tns = tuple(new_vec(cx, f"t{i}") if k == "v" else new_op(cx, f"t{i}") for i, k in enumerate(case.kinds))
        return with_cx(cx, dict(tns=tns, compress=case.compress, eps=cx.Real("eps")))

    def requires_cx(self, cx, a, case):
        d = ALIGN.requires_cx(cx, self.as_align(a), self.align_case(case))
        first = cx.pre(a.tns[0])
        n = len(a.tns)
        if first["cls"] == "vec":
            # levels 1.. are the literals "__ind_a{}__", ...: a first network that already uses one of the LATER ones
            # gives a label carried by four legs (native: ValueError 'appears more than twice')
            d["first-id-is-not-a-later-generated-level-id"] = And(*[first["_site_ind_id"] != gen_level(j)
                                                                    for j in range(1, n - 2)])
        d["starts-and-ends-with-a-vector"] = case.kinds[0] == "v" and case.kinds[-1] == "v"
        return d

    def call(self, cx, name, args, kwargs, node):
        if name == "functools.reduce" and args[0] is OR_:
            xs = list(args[1])
            r = xs[0]
            for x in xs[1:]:
                r = combined(cx, r, x)
            return r
        if name == "__isinstance__" and args[1] == "TensorNetwork1DFlat" and is_tn(args[0]):
            return cx.Bool(f"isflat{args[0].oid}")
        if name == "qu.prod":
            return cx.Int("total_bd")
        return super().call(cx, name, args, kwargs, node)

    def fresh_result(self, cx, a, case):
        if Align.middle_vector(case.kinds):
            raise PyRaise("ValueError")
        lays = tuple(fresh_like(cx, cx.pre(t), f"ex{i}")["layers"][0] for i, t in enumerate(a.tns))
        return Contraction(None, lays)

    def ensures_raise(self, a, exc, cx, case):
        if exc == "ValueError":
            return {"raise-only-for-a-vector-in-the-middle": Align.middle_vector(case.kinds)}
        return {f"no-raise-{exc}": False}

    def ensures(self, a, r, cx, case):
        if Align.middle_vector(case.kinds):
            return {"vector-in-the-middle-must-raise": False}
        d = {"result-is-a-full-contraction": isinstance(r, Contraction)}
        if not isinstance(r, Contraction):
            return d
        P = [cx.pre(t) for t in a.tns]
        d["contracted-network-is-the-arguments-in-the-given-order"] = len(r.layers) == len(P) and all(
            l.origin == p["layers"][0].origin and l.roles == p["layers"][0].roles for l, p in zip(r.layers, P))
        if not d["contracted-network-is-the-arguments-in-the-given-order"]:
            return d
        d["nothing-conjugated-nothing-dropped"] = And(*[And(l.conj == p["layers"][0].conj,
                                                            l.present == p["layers"][0].present)
                                                        for l, p in zip(r.layers, P)])
        for i, t in enumerate(a.tns):
            d[f"argument-{i}-untouched"] = same_state(cx.fields(t), P[i])
        stack_posts(d, "expec", r.layers)
        return d


@register
class MPSExpec(OneD):
    """MatrixProductState.expec(*args) == expec_TN_1D(self, *args): the receiver is in the FIRST (bra) position"""

    target = f"{TN1D}::TensorNetwork1DVector.expec"
    floor = 20
    EX = f"{TN1D}::expec_TN_1D"

    def cases(self):
        return [NS(name=f"{k}", kinds=tuple(k), compress=None) for k in ("vv", "vov", "voov")]

    def mk_inputs(self, cx, case):
        d = REGISTRY[self.EX].mk_inputs(cx, case)
        return with_cx(cx, dict(self=d["tns"][0], args=tuple(d["tns"][1:]), kwargs={}))

    def as_expec(self, a):
        return NS(tns=(a.self,) + tuple(a.args), compress=a.kwargs.get("compress"), eps=a.kwargs.get("eps"))

    def requires_cx(self, cx, a, case):
        return REGISTRY[self.EX].requires_cx(cx, self.as_expec(a), case)

    def ensures(self, a, r, cx, case):
        return REGISTRY[self.EX].ensures(self.as_expec(a), r, cx, case)


# ------------------------------------------------------------------------------------------------------------
# C10: the local problems -- Heff[rows = BRA labels, columns = KET labels] is what reaches the eigensolver
# ------------------------------------------------------------------------------------------------------------
# Values: the labels / dimensions of the site tensors are sequences of ATOMS
#   ("inds", net oid, site, excluded bond or None)  -- all labels of the tensor at `site`, in the tensor's axis order
#   ("bond", net oid, i)                            -- the bond label between sites i and i+1


class Handle:
    """tn[i]: the tensor of a network at a site"""

    def __init__(self, net, site):
        self.net, self.site = net, site


class IndsV:
    def __init__(self, atoms):
        self.atoms = tuple(atoms)


class DimsV:
    def __init__(self, atoms):
        self.atoms = tuple(atoms)


class ZipDI:
    """zip(t.shape, t.inds) (possibly filtered)"""

    def __init__(self, atom):
        self.atom = atom


def atom_eq(x, y):
    if x is None or y is None:
        return x is None and y is None
    if x[0] != y[0] or x[1] != y[1]:
        return False
    c = (x[2] == y[2])
    if isinstance(c, bool) and not c:
        return False
    if x[0] == "inds":
        e = atom_eq(x[3], y[3])
        return e if c is True else And(c, e)
    return c


def definitely(c):
    return c is True or (is_z3(c) and z3.is_true(z3.simplify(c)))


def atoms_eq(a, b):
    a, b = getattr(a, "atoms", None), getattr(b, "atoms", None)
    if a is None or b is None or len(a) != len(b):
        return False
    return And(*[atom_eq(x, y) for x, y in zip(a, b)])


def owned_by(v, ref):
    return isinstance(v, (IndsV, DimsV)) and len(v.atoms) > 0 and all(x[1] == ref.oid for x in v.atoms)


def twin(v, frm, to):
    """the same sequence of atoms on the other layer (bra <-> ket)"""
    def tw(x):
        if x is None:
            return None
        return (x[0], to.oid if x[1] == frm.oid else x[1], x[2]) + ((tw(x[3]),) if x[0] == "inds" else ())
    return type(v)(tuple(tw(x) for x in v.atoms))


class Dat:
    """array data: ``base`` (opaque value), ``conj`` (element-wise conjugated), ``axes`` (IndsV the axes follow, or None)"""

    def __init__(self, base, conj=False, axes=None, flat=False):
        self.base, self.conj, self.axes, self.flat = base, conj, axes, flat


class LocalOp:
    """dense matrix / linear operator of an effective tensor: rows / cols are label sequences"""

    def __init__(self, kind, rows, cols, form, ldims=None, rdims=None):
        self.kind, self.rows, self.cols, self.form, self.ldims, self.rdims = kind, rows, cols, form, ldims, rdims


class EffNet:
    def __init__(self, kind, contracted=None):
        self.kind, self.contracted = kind, contracted


TAG_OF = {"ham": "_HAM", "norm": "_EYE", "ham2": "_HAM", "ovlp": "_EYE"}


class LocalContract(DMRGContract):
    methods = dict(DMRGContract.methods)
    dmrg_methods = {"form_local_ops": f"{DMRGF}::DMRG.form_local_ops"}

    def new_solver(self, cx, **extra):
        k = new_vec(cx, "k", conj=z3.BoolVal(False))
        b = copy_obj(cx, k, flip=True)
        f = dict(_k=k, _b=b, cyclic=cx.Bool("cyclic"), bsz=cx.Int("bsz"), L=cx.Int("L"), which="SA")
        f.update(extra)
        return cx.new_obj("DMRG", **f)

    def data_of(self, cx, h):
        """current data of a site tensor; class invariant of the solver: the bra tensor is the conjugate of the ket's"""
        S = cx.fields(cx.env["self"])
        store = cx.ghost.setdefault("data", {})
        key = (h.net.oid, str(h.site))
        if key not in store:
            base = cx.Val(f"data_site_{h.site}")
            store[(S["_k"].oid, str(h.site))] = Dat(base, False, IndsV([("inds", S["_k"].oid, h.site, None)]))
            store[(S["_b"].oid, str(h.site))] = Dat(base, True, IndsV([("inds", S["_b"].oid, h.site, None)]))
        return store[key]

    def attr(self, cx, base, attr, node):
        if isinstance(base, Handle):
            atom = ("inds", base.net.oid, base.site, None)
            if attr == "inds":
                return IndsV([atom])
            if attr == "shape":
                return DimsV([atom])
            if attr == "data":
                return self.data_of(cx, base)
        if isinstance(base, LocalOp) and attr == "shape":
            return (cx.Opaque("n"), cx.Opaque("n"))
        if isinstance(base, Opaque):
            return cx.Opaque(attr)
        return super().attr(cx, base, attr, node)

    def call(self, cx, name, args, kwargs, node):
        if name == "__getitem__" and is_tn(args[0]) and is_int(args[1]):
            return Handle(args[0], args[1])
        if name == "__getitem__" and isinstance(args[0], EffNet) and isinstance(args[1], str):
            return NS(eff_tensor=args[0], tag=args[1])  # the tensor(s) of the effective network selected by a tag
        if name == "__getitem__" and isinstance(args[0], Opaque):
            return cx.Opaque("item")
        if name == "__getslice__" and is_tn(args[0]):
            return cx.Opaque("section")
        if name == "__binop__":
            op, x, y = args
            if op == "BitXor" and isinstance(x, EffNet):
                return cx.Opaque("scalar") if (y is ALL or y is Ellipsis) else EffNet(x.kind, contracted=y)
            if op == "Add" and isinstance(x, IndsV) and isinstance(y, IndsV):
                return IndsV(x.atoms + y.atoms)
            if op == "Add" and isinstance(x, DimsV) and isinstance(y, DimsV):
                return DimsV(x.atoms + y.atoms)
            if op == "Add" and isinstance(x, LocalOp):
                return x  # + multiple of the identity: same rows / columns
            if op == "Div" and isinstance(x, Dat) and isinstance(y, Opaque):
                return Dat(cx.uf("scaled", [x.base, y.z]), x.conj, x.axes, x.flat)
            if isinstance(x, Opaque) or isinstance(y, Opaque):
                return cx.Opaque("scalar")
        if name == "__tuple__":
            atoms = []
            for kind, v in args[0]:
                if not isinstance(v, IndsV) or (kind == "item" and len(v.atoms) != 1):
                    raise Unsupported("label tuple with a foreign element")
                atoms.extend(v.atoms)
            return IndsV(atoms)
        if name == "abs":
            return cx.Real("abs")
        if name == "prod":
            return cx.Int("prod_dims")
        if name in ("np.fill_diagonal",):
            return None
        if name == "IdentityLinearOperator":
            return Marker("identity")
        if name == "TNLinearOperator":
            t = args[0]
            if not (isinstance(t, NS) and "eff_tensor" in t):
                raise Unsupported("TNLinearOperator of an unknown network")
            return LocalOp(t.eff_tensor.kind, kwargs.get("left_inds"), kwargs.get("right_inds"), "linop",
                           kwargs.get("ldims"), kwargs.get("rdims"))
        if name == ".to_dense" and isinstance(args[0], NS) and "eff_tensor" in args[0] and len(args) == 3:
            e = args[0].eff_tensor
            cx.oblige(f"to_dense@{node.lineno}:the-contracted-tensor-is-the-selected-one", "call-pre",
                      e.contracted == args[0].tag == TAG_OF[e.kind], node.lineno)
            return LocalOp(e.kind, args[1], args[2], "dense")
        if name == ".diagonal" and isinstance(args[0], LocalOp):
            return cx.Opaque("diag")
        if name.startswith(".") and isinstance(args[0], Opaque):
            return cx.Opaque(name[1:])
        if name.startswith(".") and isinstance(args[0], Dat):
            d = args[0]
            if name == ".conj":
                return Dat(d.base, not d.conj, d.axes, d.flat)
            if name == ".ravel":
                return Dat(d.base, d.conj, d.axes, True)
            if name == ".toarray":
                return d
            if name == ".reshape" and isinstance(args[1], DimsV):
                cx.oblige(f"reshape@{node.lineno}:dims-are-those-of-the-vector's-label-order", "call-pre",
                          atoms_eq(args[1], d.axes) if d.axes is not None else False, node.lineno)
                return Dat(d.base, d.conj, d.axes, False)
        if name == ".modify" and isinstance(args[0], Handle):
            h, data = args[0], kwargs.get("data")
            if not isinstance(data, Dat):
                raise Unsupported("modify with unknown data")
            own = IndsV([("inds", h.net.oid, h.site, None)])
            inds = kwargs.get("inds", own)
            cx.events.append(("modify", h, data, inds))
            cx.ghost.setdefault("data", {})[(h.net.oid, str(h.site))] = Dat(data.base, data.conj, inds)
            return None
        if name.startswith(".") and isinstance(args[0], Ref) and args[0].kind == "DMRG":
            m = name[1:]
            if m in ("ME_eff_ham", "ME_eff_norm", "ME_eff_ovlp", "ME_eff_ham2"):
                return EffNet(m[len("ME_eff_"):])
            if m == "_eigs":
                return self.leaf_eigs(cx, args[0], args[1], kwargs.get("B"), kwargs.get("v0"), node)
            if m == "post_check":
                return (args[4], args[3])  # (loc_en, loc_gs): rescaling only
            if m == "_canonize_after_1site_update":
                return None
            if m in self.dmrg_methods and self.dmrg_methods[m] != self.target:
                return cx.call_contract(REGISTRY[self.dmrg_methods[m]], list(args[1:]), kwargs, node, recv=args[0])
        return super().call(cx, name, args, kwargs, node)

    def leaf_eigs(self, cx, solver, A, B, v0, node):
        """leaf eigh(A, B=B, v0=v0): eigenvector of the matrix A (a column vector in A's COLUMN label order).  The
        convention obligations of the property are stated here, where the operator leaves quimb's label world"""
        S = cx.fields(solver)
        ok = isinstance(A, LocalOp)
        cx.oblige(f"eigs@{node.lineno}:operator-is-an-effective-hamiltonian", "call-pre", ok and A.kind == "ham", node.lineno)
        if not ok:
            return (cx.Opaque("en"), cx.Opaque("gs"))
        cx.oblige(f"eigs@{node.lineno}:rows-are-the-BRA-labels", "call-pre", owned_by(A.rows, S["_b"]), node.lineno)
        cx.oblige(f"eigs@{node.lineno}:columns-are-the-KET-labels", "call-pre", owned_by(A.cols, S["_k"]), node.lineno)
        cx.oblige(f"eigs@{node.lineno}:rows-and-columns-correspond-leg-by-leg", "call-pre",
                  atoms_eq(twin(A.rows, S["_b"], S["_k"]), A.cols) if isinstance(A.rows, IndsV) else False, node.lineno)
        if isinstance(B, LocalOp):
            cx.oblige(f"eigs@{node.lineno}:norm-operator-has-the-same-rows-and-columns", "call-pre",
                      And(atoms_eq(B.rows, A.rows), atoms_eq(B.cols, A.cols), B.kind == "norm"), node.lineno)
        if v0 is not None:
            cx.oblige(f"eigs@{node.lineno}:initial-guess-is-ket-data-in-column-order", "call-pre",
                      isinstance(v0, Dat) and not v0.conj and v0.axes is not None and atoms_eq(v0.axes, A.cols),
                      node.lineno)
        cx.events.append(("eigs", A, B, v0))
        return (cx.Opaque("loc_en"), Dat(cx.Val("loc_gs"), False, A.cols, True))


@register
class FormLocalOps(LocalContract):
    """DMRG.form_local_ops(i, dims, lix, uix): Heff (and Neff) with ROWS = lix and COLUMNS = uix, dense or as a linear
    operator (left_inds = rows = lix, right_inds = columns = uix, both with dimensions dims)"""

    target = f"{DMRGF}::DMRG.form_local_ops"
    floor = 40

    def cases(self):
        return [NS(name=f"ham_dense={d},norm_dense={n}", dense=d, ndense=n) for d in (None, True, False)
                for n in (None, True, False)]

    def case_of_call(self, cx, a):
        return NS(name="call", dense=None, ndense=None)

    def mk_inputs(self, cx, case):
        opts = {"local_eig_ham_dense": case.dense, "local_eig_norm_dense": case.ndense,
                "periodic_nullspace_fudge_factor": cx.Opaque("fudge"), "periodic_orthog_tol": cx.Real("tol")}
        s = self.new_solver(cx, opts=opts)
        S = cx.fields(s)
        i = cx.Int("i")
        lix = IndsV([("inds", S["_b"].oid, i, None)])
        uix = IndsV([("inds", S["_k"].oid, i, None)])
        return with_cx(cx, dict(self=s, i=i, dims=DimsV(uix.atoms), lix=lix, uix=uix))

    def requires_cx(self, cx, a, case):
        S = cx.pre(a.self)
        return {"lix-are-bra-labels": owned_by(a.lix, S["_b"]), "uix-are-ket-labels": owned_by(a.uix, S["_k"]),
                "lix-and-uix-correspond-leg-by-leg": atoms_eq(twin(a.lix, S["_b"], S["_k"]), a.uix)
                if isinstance(a.lix, IndsV) else False,
                "dims-are-the-dimensions-of-uix": atoms_eq(a.dims, a.uix)}

    def fresh_result(self, cx, a, case):
        H = LocalOp("ham", a.lix, a.uix, "dense-or-linop", a.dims, a.dims)
        N = LocalOp("norm", a.lix, a.uix, "dense-or-linop", a.dims, a.dims)
        f = cx.fields(a.self)
        f["_eff_ham"] = EffNet("ham")
        # Neff is None on open chains (and on pseudo-orthogonal periodic sites)
        if isinstance(f["cyclic"], bool) and not f["cyclic"]:
            return (H, None)
        return (H, N if cx.decide(And(f["cyclic"], cx.Bool("site_not_orthogonal")), None) else None)

    def op_ok(self, d, tag, op, kind, a):
        d[f"{tag}-is-the-effective-{kind}"] = isinstance(op, LocalOp) and op.kind == kind
        if isinstance(op, LocalOp):
            d[f"{tag}:rows-are-lix(bra-labels)"] = atoms_eq(op.rows, a.lix)
            d[f"{tag}:columns-are-uix(ket-labels)"] = atoms_eq(op.cols, a.uix)
            if op.form == "linop":
                d[f"{tag}:linear-operator-dimensions"] = And(atoms_eq(op.ldims, a.dims), atoms_eq(op.rdims, a.dims))

    def ensures(self, a, r, cx, case):
        d = {"returns-(Heff,Neff)": isinstance(r, tuple) and len(r) == 2}
        if not d["returns-(Heff,Neff)"]:
            return d
        self.op_ok(d, "Heff", r[0], "ham", a)
        cyc = cx.fields(a.self)["cyclic"]
        if r[1] is None:
            pass  # open chain, or pseudo-orthogonal site
        else:
            d["Neff-only-on-periodic-chains"] = cyc
            self.op_ok(d, "Neff", r[1], "norm", a)
        return d


@register
class FormLocalOpsX(LocalContract):
    """DMRGX.form_local_ops: dense Heff with ROWS = lix, COLUMNS = uix"""

    target = f"{DMRGF}::DMRGX.form_local_ops"
    floor = 2

    def mk_inputs(self, cx, case):
        return FormLocalOps.mk_inputs(self, cx, NS(dense=True, ndense=None))

    def requires_cx(self, cx, a, case):
        return FormLocalOps.requires_cx(self, cx, a, case)

    def ensures(self, a, r, cx, case):
        d = {}
        FormLocalOps.op_ok(self, d, "Heff", r, "ham", a)
        return d


@register
class UpdateLocal1(LocalContract):
    """_update_local_state_1site: the eigensolver receives Heff with rows = labels of the BRA tensor and columns = labels
    of the KET tensor (leaf obligations of _eigs), the new ket data is stored in the ket's axis order and the bra gets its
    element-wise conjugate (the same array up to the final normalisation, which divides both by the same number)"""

    target = f"{DMRGF}::DMRG._update_local_state_1site"
    floor = 15

    def mk_inputs(self, cx, case):
        return with_cx(cx, dict(self=self.new_solver(cx), i=cx.Int("i"), direction="right", compress_opts={}))

    def final(self, cx, a, which):
        S = cx.fields(a.self)
        return cx.ghost.get("data", {}).get((S[which].oid, str(a.i)))

    def ensures(self, a, r, cx, case):
        S = cx.fields(a.self)
        eigs = [e for e in cx.events if e[0] == "eigs"]
        d = {"exactly-one-local-eigenproblem": len(eigs) == 1}
        k, b = self.final(cx, a, "_k"), self.final(cx, a, "_b")
        d["ket-and-bra-tensors-updated"] = isinstance(k, Dat) and isinstance(b, Dat)
        if not d["ket-and-bra-tensors-updated"] or not eigs:
            return d
        d["bra-is-the-conjugate-of-the-new-ket"] = And(k.base == b.base, (not k.conj) and b.conj)
        d["ket-data-comes-from-the-eigenvector"] = self.from_eigenvector(k.base)
        d["ket-data-stored-in-the-ket's-axis-order"] = atoms_eq(k.axes, IndsV([("inds", S["_k"].oid, a.i, None)]))
        d["bra-data-stored-in-the-bra's-axis-order"] = atoms_eq(b.axes, IndsV([("inds", S["_b"].oid, a.i, None)]))
        return d

    @staticmethod
    def from_eigenvector(base):
        return "loc_gs" in str(base)


class TensorV:
    def __init__(self, dat, inds):
        self.dat, self.inds = dat, inds


@register
class Parse2Site(LocalContract):
    """parse_2site_inds_dims(k, b, i): uix / dims from the KET tensors i, i+1 without the ket's bond (i, i+1), lix from
    the BRA tensors without the bra's bond, all in the order (site i, site i+1)"""

    target = f"{DMRGF}::parse_2site_inds_dims"
    floor = 9

    def mk_inputs(self, cx, case):
        k = new_vec(cx, "k", conj=z3.BoolVal(False))
        return with_cx(cx, dict(k=k, b=copy_obj(cx, k, flip=True), i=cx.Int("i")))

    def tn_method(self, cx, m, tn, args, kwargs, node):
        if m == "bond":
            lo, hi = args
            cx.oblige(f"bond@{node.lineno}:neighbouring-sites", "call-pre", hi == lo + 1, node.lineno)
            return IndsV([("bond", tn.oid, lo)])
        return super().tn_method(cx, m, tn, args, kwargs, node)

    def call(self, cx, name, args, kwargs, node):
        if name == "zip" and len(args) == 2 and isinstance(args[0], DimsV) and isinstance(args[1], IndsV):
            if len(args[0].atoms) != 1 or not definitely(atom_eq(args[0].atoms[0], args[1].atoms[0])):
                raise Unsupported("zip of the shape and inds of different tensors")
            return ZipDI(args[1].atoms[0])
        if name == "zip" and len(args) == 1 and isinstance(args[0], StarArg) and isinstance(args[0].value, ZipDI):
            at = args[0].value.atom
            return (DimsV([at]), IndsV([at]))
        if name == "tuple" and len(args) == 1 and isinstance(args[0], IndsV):
            return args[0]
        if name == "__genexp__":
            n = args[0]
            if len(n.generators) != 1 or len(n.generators[0].ifs) != 1:
                return NotImplemented
            g = n.generators[0]
            it = cx.ev(g.iter)
            cond = g.ifs[0]
            if not (isinstance(cond, ast.Compare) and len(cond.ops) == 1 and isinstance(cond.ops[0], ast.NotEq)
                    and isinstance(cond.left, ast.Name)):
                return NotImplemented
            names = [t.id for t in (g.target.elts if isinstance(g.target, ast.Tuple) else [g.target])]
            # (the filter expression is evaluated in the enclosing scope: it names a bond label, not a loop variable)
            if isinstance(cond.comparators[0], ast.Name) and cond.comparators[0].id in names:
                return NotImplemented
            excl = cx.ev(cond.comparators[0])
            if not (isinstance(excl, IndsV) and len(excl.atoms) == 1 and excl.atoms[0][0] == "bond"):
                raise Unsupported("filter on something that is not a bond label")
            if isinstance(it, ZipDI) and len(names) == 2 and cond.left.id == names[1] and \
                    ast.unparse(n.elt) == f"({names[0]}, {names[1]})":
                at = it.atom
                return ZipDI((at[0], at[1], at[2], excl.atoms[0]))
            if isinstance(it, IndsV) and len(it.atoms) == 1 and len(names) == 1 and cond.left.id == names[0] and \
                    ast.unparse(n.elt) == names[0]:
                at = it.atoms[0]
                return IndsV([(at[0], at[1], at[2], excl.atoms[0])])
            return NotImplemented
        return super().call(cx, name, args, kwargs, node)

    def fresh_result(self, cx, a, case):
        return self.expected(a)

    def expected(self, a):
        k, b, i = a.k, a.b, a.i
        ub, lb = ("bond", k.oid, i), ("bond", b.oid, i)
        kL, kR = ("inds", k.oid, i, ub), ("inds", k.oid, i + 1, ub)
        bL, bR = ("inds", b.oid, i, lb), ("inds", b.oid, i + 1, lb)
        return (DimsV([kL, kR]), IndsV([bL]), IndsV([bR]), IndsV([bL, bR]), IndsV([kL]), IndsV([kR]), IndsV([kL, kR]),
                IndsV([lb]), IndsV([ub]))

    NAMES = ("dims", "lix_L", "lix_R", "lix", "uix_L", "uix_R", "uix", "l_bond_ind", "u_bond_ind")
    WHAT = ("ket-dimensions-of-(i,i+1)-without-the-ket-bond", "bra-labels-of-site-i", "bra-labels-of-site-i+1",
            "bra-labels-of-(i,i+1)", "ket-labels-of-site-i", "ket-labels-of-site-i+1", "ket-labels-of-(i,i+1)",
            "the-bra-bond", "the-ket-bond")

    def ensures(self, a, r, cx, case):
        d = {"returns-the-9-tuple": isinstance(r, tuple) and len(r) == 9}
        if not d["returns-the-9-tuple"]:
            return d
        for nm, what, got, exp in zip(self.NAMES, self.WHAT, r, self.expected(a)):
            d[f"{nm}-is-{what}"] = type(got) is type(exp) and atoms_eq(got, exp)
        return d


@register
class UpdateLocal2(LocalContract):
    """_update_local_state_2site: Heff rows = bra labels, columns = ket labels (leaf obligations of _eigs, through the
    proved contracts of parse_2site_inds_dims and form_local_ops); the two-site vector is reshaped in the ket's label order,
    split, and the factors stored on the ket with the ket's labels and -- conjugated -- on the bra with the BRA's labels"""

    target = f"{DMRGF}::DMRG._update_local_state_2site"
    floor = 25

    def cases(self):
        return [NS(name=f"direction={d}", direction=d) for d in ("right", "left")]

    def mk_inputs(self, cx, case):
        return with_cx(cx, dict(self=self.new_solver(cx), i=cx.Int("i"), direction=case.direction, compress_opts={}))

    def call(self, cx, name, args, kwargs, node):
        if name == ".contract" and isinstance(args[0], Handle) and isinstance(args[1], Handle):
            return NS(two_site=(args[0], args[1]))
        if name == ".to_dense" and isinstance(args[0], NS) and "two_site" in args[0]:
            h0, h1 = args[0].two_site
            ub = ("bond", h0.net.oid, h0.site)
            full = IndsV([("inds", h0.net.oid, h0.site, ub), ("inds", h1.net.oid, h1.site, ub)])
            cx.oblige(f"to_dense@{node.lineno}:the-open-labels-of-the-two-site-tensor", "call-pre",
                      And(h1.site == h0.site + 1, atoms_eq(args[1], full)) if h0.net == h1.net else False, node.lineno)
            d0, d1 = self.data_of(cx, h0), self.data_of(cx, h1)
            return Dat(cx.uf("contract2", [d0.base, d1.base]), d0.conj, args[1], True)
        if name == "Tensor":
            dat, inds = args
            cx.oblige(f"Tensor@{node.lineno}:data-axes-are-the-given-labels", "call-pre",
                      isinstance(dat, Dat) and atoms_eq(dat.axes, inds), node.lineno)
            return TensorV(dat, inds)
        if name == ".split" and isinstance(args[0], TensorV):
            t = args[0]
            li, ri = kwargs.get("left_inds"), kwargs.get("right_inds")
            cx.oblige(f"split@{node.lineno}:left-and-right-labels-partition-the-tensor", "call-pre",
                      atoms_eq(IndsV(li.atoms + ri.atoms), t.inds) if isinstance(li, IndsV) and isinstance(ri, IndsV) else False,
                      node.lineno)
            cx.oblige(f"split@{node.lineno}:arrays-requested-and-absorb-follows-the-sweep", "call-pre",
                      kwargs.get("get") == "arrays" and kwargs.get("absorb") == cx.env["direction"], node.lineno)
            new = ("newbond",)
            return (Dat(cx.uf("splitL", [t.dat.base]), t.dat.conj, (li, new)),
                    Dat(cx.uf("splitR", [t.dat.base]), t.dat.conj, (new, ri)))
        if name == ".modify" and isinstance(args[0], Handle) and isinstance(kwargs.get("data"), Dat) and \
                isinstance(kwargs["data"].axes, tuple):
            h, dat, inds = args[0], kwargs["data"], kwargs.get("inds")
            cx.events.append(("modify2", h, dat, inds))
            return None
        return super().call(cx, name, args, kwargs, node)

    def ensures(self, a, r, cx, case):
        S = cx.fields(a.self)
        k, b, i = S["_k"], S["_b"], a.i
        eigs = [e for e in cx.events if e[0] == "eigs"]
        mods = [e for e in cx.events if e[0] == "modify2"]
        d = {"exactly-one-local-eigenproblem": len(eigs) == 1, "four-tensors-updated": len(mods) == 4}
        if len(mods) != 4 or not eigs:
            return d
        exp = REGISTRY[Parse2Site.target].expected(NS(k=k, b=b, i=i))
        _, lix_L, lix_R, _, uix_L, uix_R, _, lb, ub = exp
        want = {("k", 0): (k, i, False, "splitL", (uix_L, ub)), ("b", 0): (b, i, True, "splitL", (lix_L, lb)),
                ("k", 1): (k, i + 1, False, "splitR", (ub, uix_R)), ("b", 1): (b, i + 1, True, "splitR", (lb, lix_R))}
        for (who, pos), (net, site, conj, fac, order) in want.items():
            tag = f"{'ket' if who == 'k' else 'bra'}[i{'+1' if pos else ''}]"
            ev = [e for e in mods if e[1].net == net and z3.is_true(z3.simplify(e[1].site == site))]
            d[f"{tag}-updated-once"] = len(ev) == 1
            if len(ev) != 1:
                continue
            _, h, dat, inds = ev[0]
            d[f"{tag}-gets-the-{'conjugated ' if conj else ''}{'left' if fac == 'splitL' else 'right'}-factor"] = \
                dat.conj == conj and str(dat.base).startswith(fac) and "loc_gs" in str(dat.base)
            first, second = order
            exp_inds = IndsV(first.atoms + second.atoms)
            d[f"{tag}-labels-are-its-own-in-factor-order"] = atoms_eq(inds, exp_inds)
            # the factor's axes (labels of the split tensor + the new bond) match the labels position by position
            kept = dat.axes[0] if fac == "splitL" else dat.axes[1]
            own = first if fac == "splitL" else second
            d[f"{tag}-axes-correspond-to-the-labels"] = False if not isinstance(kept, IndsV) else And(
                atoms_eq(twin(kept, k, net), own),
                (dat.axes[1] == ("newbond",)) if fac == "splitL" else (dat.axes[0] == ("newbond",)))
        return d


LocalContract.dmrg_methods = {"form_local_ops": FormLocalOps.target}


# ------------------------------------------------------------------------------------------------------------
# C06: gating -- label bookkeeping of _tensor_network_gate_inds_basic and the mode table of tensor_network_gate_inds
# ------------------------------------------------------------------------------------------------------------
# CONVENTION: a gate array in tensor form has its ROW (output) index of target j on axis j and its COLUMN (input) index on
# axis ng+j; "applying G" (G @ x) sums the column axes with the network's labels and leaves the row axes outside under the
# ORIGINAL labels; transposed: the roles of the two halves are exchanged.


class SeqL:
    """a sequence of labels of symbolic length: j -> elem(j)"""

    def __init__(self, n, elem, note=""):
        self.n, self.elem, self.note = n, elem, note


class LMapS:
    """dict(zip(keys, vals)) for two label sequences"""

    def __init__(self, keys, vals):
        self.keys, self.vals = keys, vals


class GArr:
    """the gate array: which original array, conjugated or not, parametrised or not"""

    def __init__(self, name, conj=False, param=False):
        self.name, self.conj, self.param = name, conj, param


class TGV:
    """the gate tensor"""

    def __init__(self, G, axes, left, ctor, tags):
        self.G, self.axes, self.left, self.ctor, self.tags = G, axes, left, ctor, tags


def module_const(relpath, name):
    """value of a module-level constant of the REAL source (re-read on every run): set displays and | of names"""
    import vf.pyvc as P
    import os
    full = os.path.join(P.REPO, relpath)
    if full not in P._SRC_CACHE:
        src = open(full).read()
        P._SRC_CACHE[full] = (src, ast.parse(src))
    tree = P._SRC_CACHE[full][1]
    defs = {t.id: st.value for st in tree.body if isinstance(st, ast.Assign) for t in st.targets if isinstance(t, ast.Name)}

    def ev(n):
        if isinstance(n, ast.Name):
            return ev(defs[n.id])
        if isinstance(n, ast.BinOp) and isinstance(n.op, ast.BitOr):
            return ev(n.left) + tuple(x for x in ev(n.right) if not any(x is y or (type(x) is type(y) and x == y) for y in ev(n.left)))
        return tuple(ast.literal_eval(e) for e in n.elts)

    return ev(defs[name])


class GateContract(LabelContract):
    property_ids = ("C06",)
    J = z3.Int("j!target")    # skolem position in inds
    J2 = z3.Int("j2!target")  # a second arbitrary position (injectivity / freshness instances)
    ind_at = z3.Function("ind_at", z3.IntSort(), Lab)
    bnd_at = z3.Function("bnd_at", z3.IntSort(), Lab)

    def new_gtn(self, cx, inds):
        return cx.new_obj("GTN", legs=inds, applied=[])

    def attr(self, cx, base, attr, node):
        if base is None and attr in ("_VALID_GATE_CONTRACT", "_SPLIT_GATE_CONTRACT", "_BASIC_GATE_CONTRACT"):
            return module_const(GATING, attr)
        if base is None and attr in ("ar", "PTensor", "PArray"):
            return Marker(attr)
        if isinstance(base, Marker) and base.name == "ar" and attr == "conj":
            return Marker("ar.conj")
        return super().attr(cx, base, attr, node)

    def call(self, cx, name, args, kwargs, node):
        if name == "len" and isinstance(args[0], SeqL):
            return args[0].n
        if name == "tags_to_oset":
            return args[0]
        if name.startswith(".") and isinstance(args[0], Ref) and args[0].kind == "GTN":
            tn, m = args[0], name[1:]
            f = cx.fields(tn)
            if m == "copy":
                return cx.new_obj("GTN", legs=f["legs"], applied=list(f["applied"]))
            if m == "reindex_" and isinstance(args[1], LMapS):
                # leaf reindex: the legs that carry the key labels now carry the values (keys pairwise distinct)
                cx.oblige(f"reindex@{node.lineno}:keys-are-the-labels-on-the-target-legs", "call-pre",
                          f["legs"] is args[1].keys, node.lineno)
                f["legs"] = args[1].vals
                return tn
        return super().call(cx, name, args, kwargs, node)


@register
class GateIndsBasic(GateContract):
    """_tensor_network_gate_inds_basic: fresh bond labels bnds, reindex_map = inds -> bnds, gate tensor labelled
    (*inds, *bnds) -- (*bnds, *inds) when transposed -- i.e. the network's old labels join the gate's COLUMN axes (ROW
    axes when transposed) through the fresh labels and the other half carries the ORIGINAL labels: G @ x resp. G^T @ x with
    unchanged outer labels; contract=True / one tensor: same labels, contracted; single target + contract: Tensor.gate_
    with the same transpose flag; split modes on two tensors: handed to the eager-split leaf with the same map and gate"""

    target = f"{GATING}::_tensor_network_gate_inds_basic"
    floor = 60

    def cases(self):
        return [NS(name=f"contract={c!r},isparam={p},transpose={t}", contract=c, isparam=p, transpose=t)
                for c in (False, True, "split", "reduce-split") for p in (False, True) for t in (False, True)]

    def case_of_call(self, cx, a):
        return NS(name="call", contract=a.contract, isparam=a.isparam, transpose=a.transpose)

    def mk_inputs(self, cx, case):
        ng = cx.Int("ng")
        cx.assume(ng >= 1)
        inds = SeqL(ng, lambda j: self.ind_at(j), "inds")
        return with_cx(cx, dict(tn=self.new_gtn(cx, inds), G=GArr("G", param=case.isparam), inds=inds, ng=ng,
                                tags=cx.Opaque("tags"), contract=case.contract, isparam=case.isparam,
                                info=cx.Opaque("info"), transpose=case.transpose, compress_opts={}))

    def requires_cx(self, cx, a, case):
        ok = isinstance(a.inds, SeqL) and isinstance(a.tn, Ref) and a.tn.kind == "GTN"
        d = {"inds-is-a-label-sequence-of-the-network": ok}
        if ok:
            d["ng-is-len(inds)"] = a.ng == a.inds.n
            d["targets-are-legs-of-the-network"] = cx.pre(a.tn)["legs"] is a.inds
            d["contract-is-a-basic-mode"] = any(a.contract is x or (type(a.contract) is type(x) and a.contract == x)
                                                for x in (False, True, "split", "reduce-split")) \
                if not is_z3(a.contract) else False
            d["isparam-tells-the-kind-of-G"] = isinstance(a.G, GArr) and a.G.param == a.isparam
        return d

    def apply(self, cx, a, node, case=None):
        """callee use (tensor_network_gate_inds): requires asserted, the call recorded, tn returned (in place)"""
        case = self.case_of_call(cx, a)
        for lab, c in self.requires_at(cx, a, case).items():
            cx.oblige(f"call-pre@{node.lineno}:_tensor_network_gate_inds_basic:{lab}", "call-pre", c, node.lineno)
        cx.events.append(("impl", "basic", a))
        cx.fields(a.tn)["applied"].append(("basic", a))
        return a.tn

    def call(self, cx, name, args, kwargs, node):
        if name == "__unpack__" and isinstance(args[0], SeqL):
            cx.oblige(f"unpack@{node.lineno}:exactly-{args[1]}-target", "safety", args[0].n == args[1], node.lineno)
            return [LabV(args[0].elem(j)) for j in range(args[1])]
        if name == "__unpack__" and isinstance(args[0], NS) and "tensors_with" in args[0]:
            # leaf: the target label sits on exactly one tensor of the network (else python raises ValueError)
            return [NS(tensor_with=args[0].tensors_with)]
        if name == "__genexp__":
            n = args[0]
            g = n.generators[0]
            if isinstance(n.elt, ast.Call) and ast.unparse(n.elt) == "rand_uuid()" and ast.unparse(g.iter).startswith("range("):
                ra = cx.ev(g.iter)
                cnt = ra[1] if isinstance(ra, tuple) else len(ra)
                bn = SeqL(cnt, lambda j: self.bnd_at(j), "bnds")
                # FRESHNESS (instances at the skolem positions): a new label differs from every target label and from
                # every other new label
                cx.assume(And(self.bnd_at(self.J) != self.ind_at(self.J2), self.bnd_at(self.J) != self.ind_at(self.J),
                              Implies(self.J != self.J2, self.bnd_at(self.J) != self.bnd_at(self.J2))))
                return bn
            if ast.unparse(n.elt).startswith("tn.pop_tensor(") and isinstance(cx.ev(g.iter), NS):
                return NS(popped=cx.ev(g.iter))
            return NotImplemented
        if name == "zip" and len(args) == 2 and all(isinstance(x, SeqL) for x in args):
            cx.oblige(f"zip@{node.lineno}:one-new-label-per-target", "call-pre", args[0].n == args[1].n, node.lineno)
            return ("zipped", args[0], args[1])
        if name == "dict" and len(args) == 1 and isinstance(args[0], tuple) and args[0][:1] == ("zipped",):
            return LMapS(args[0][1], args[0][2])
        if name == "__tuple__":
            seqs = [v for kind, v in args[0]]
            if len(seqs) != 2 or not all(isinstance(v, SeqL) for v in seqs) or any(k != "star" for k, _ in args[0]):
                raise Unsupported("label tuple of unknown structure")
            x, y = seqs
            r = SeqL(x.n + y.n, lambda j, x=x, y=y: If(j < x.n, x.elem(j), y.elem(j - x.n)), f"(*{x.note}, *{y.note})")
            r.halves = (x, y)
            return r
        if name in ("Tensor", "PTensor.from_parray"):
            return TGV(args[0], kwargs.get("inds"), kwargs.get("left_inds"), name, kwargs.get("tags"))
        if name == "tensor_contract":
            ok = len(args) == 2 and isinstance(args[0], StarArg) and isinstance(args[0].value, NS) and \
                "popped" in args[0].value and isinstance(args[1], TGV)
            cx.oblige(f"contract@{node.lineno}:site-tensors-with-the-gate", "call-pre", ok, node.lineno)
            return NS(contracted_gate=args[1], with_sites=args[0].value.popped if ok else None)
        if name == "_tensor_network_gate_inds_eager_split":
            cx.events.append(("eager_split", args))
            return args[0]
        if name == "__binop__" and args[0] == "BitOr" and isinstance(args[1], Ref) and args[1].kind == "GTN" and \
                isinstance(node, ast.AugAssign):
            cx.fields(args[1])["applied"].append(("attached", args[2]))
            return args[1]
        if name == ".gate_" and isinstance(args[0], NS) and "tensor_with" in args[0]:
            cx.events.append(("tensor.gate_", args[0].tensor_with, args[1], args[2], kwargs.get("transpose", False)))
            return None
        if name == ".add_tag" and isinstance(args[0], NS):
            return None
        if name.startswith(".") and isinstance(args[0], Ref) and args[0].kind == "GTN":
            tn, m = args[0], name[1:]
            f = cx.fields(tn)
            if m == "_inds_get":
                return NS(tensors_with=args[1])
            if m == "_get_tids_from_inds":
                n = cx.Int("n_tids")
                cx.assume(n >= 1)
                return NS(tids_of=args[1], n=n, legs_then=f["legs"])
            if m == "pop_tensor":
                return NS(popped_one=args[1])
        if name == "len" and isinstance(args[0], NS) and "tids_of" in args[0]:
            return args[0].n
        return super().call(cx, name, args, kwargs, node)

    def ensures(self, a, r, cx, case):
        d = {"returns-the-network-itself(in-place)": r == a.tn}
        f = cx.fields(a.tn)
        inds, ng, J = a.inds, a.ng, self.J
        inr = And(0 <= J, J < ng)
        direct = [e for e in cx.events if e[0] == "tensor.gate_"]
        split = [e for e in cx.events if e[0] == "eager_split"]
        att = [x for x in f["applied"] if x[0] == "attached"]
        if direct:
            # single target, contracted into its tensor: no relabelling at all
            _, lab, G, ix, tr = direct[0]
            d["single-target-route-only-for-ng=1-and-contract"] = And(ng == 1, bool(a.contract))
            d["gate-applied-to-the-target-label-with-the-same-transpose"] = And(
                lab.z == inds.elem(0), ix.z == inds.elem(0)) if isinstance(ix, LabV) and isinstance(lab, LabV) else False
            d["same-gate-same-transpose"] = G is a.G and tr is a.transpose
            d["labels-untouched"] = f["legs"] is inds and not att
            return d
        if split:
            tn, i2, c2, rmap, TG, info, copts = split[0][1]
            d["eager-split-only-for-split-modes-on-several-tensors"] = a.contract not in (True, False)
            d["eager-split-gets-the-network-targets-mode"] = tn == a.tn and i2 is inds and c2 == a.contract
            d["network-not-yet-relabelled"] = f["legs"] is inds
        else:
            d["exactly-one-gate-attached"] = len(att) == 1
            if len(att) != 1:
                return d
            x = att[0][1]
            TG = x if isinstance(x, TGV) else (x.contracted_gate if isinstance(x, NS) and "contracted_gate" in x else None)
            rmap = LMapS(inds, f["legs"])
            d["lazy-iff-contract-is-False"] = isinstance(x, TGV) == (a.contract is False)
            if not isinstance(x, TGV):
                sites = x.with_sites
                d["contracted-with-the-tensors-that-now-carry-the-new-labels"] = isinstance(sites, NS) and \
                    sites.tids_of is f["legs"] and sites.legs_then is f["legs"]
        d["gate-tensor-built"] = isinstance(TG, TGV) and isinstance(TG.axes, SeqL) and hasattr(TG.axes, "halves")
        if not d["gate-tensor-built"]:
            return d
        bnds = rmap.vals
        d["reindex_map-is-inds->new-labels"] = rmap.keys is inds and bnds is not inds and isinstance(bnds, SeqL) and \
            bnds.n is not None
        d["one-new-label-per-target"] = bnds.n == ng
        d["new-labels-are-fresh"] = Implies(inr, And(bnds.elem(J) != inds.elem(J), bnds.elem(J) != inds.elem(self.J2),
                                                     Implies(J != self.J2, bnds.elem(J) != bnds.elem(self.J2))))
        d["gate-has-2ng-axes"] = TG.axes.n == 2 * ng
        row, col = TG.axes.elem(J), TG.axes.elem(ng + J)
        if a.transpose:
            d["transposed:ROW-axes-join-the-network,COLUMN-axes-carry-the-original-labels"] = Implies(
                inr, And(row == bnds.elem(J), col == inds.elem(J)))
        else:
            d["COLUMN-axes-join-the-network,ROW-axes-carry-the-original-labels"] = Implies(
                inr, And(col == bnds.elem(J), row == inds.elem(J)))
        d["left_inds-are-the-new-labels"] = TG.left is bnds
        d["gate-array-and-tags-passed-on"] = TG.G is a.G and TG.tags is a.tags
        d["parametrised-gates-stay-parametrised"] = (TG.ctor == "PTensor.from_parray") == bool(a.isparam)
        return d


GATE_LAZY = ("split-gate", "swap-split-gate", "auto-split-gate")
GATE_BASIC = (False, True, "split", "reduce-split")
GATE_VALID = GATE_BASIC + GATE_LAZY  # the seven documented values of ``contract`` (the specification's own list)


def gate_mode_table(contract, ngc, isparam, valid):
    """which implementation a (contract, number of targets, parametrised) request reaches and with which EFFECTIVE
    contract value -- written per class of ng (1, 2, 3 = 'three or more'); ('raise',) = ValueError"""
    if not any(contract is v or (type(contract) is type(v) and contract == v) for v in valid):
        return ("raise",)
    if ngc == 1:      # a single target: the gate cannot be split -> the *-split-gate modes mean 'lazy' (False)
        impl, eff = "basic", (False if contract in GATE_LAZY else contract)
    elif ngc == 2:    # two targets: everything is available
        impl, eff = ("lazy_split" if contract in GATE_LAZY else "basic"), contract
    else:             # three or more: 'auto' means no splitting, the explicit gate splittings are rejected
        if contract == "auto-split-gate":
            impl, eff = "basic", False
        elif contract in GATE_LAZY:
            return ("raise",)
        else:
            impl, eff = "basic", contract
    if isparam:       # parametrised gates keep their array shape: 'auto' -> lazy, any contraction of >1 target rejected
        if eff == "auto-split-gate":
            impl, eff = "basic", False
        elif eff and ngc > 1:
            return ("raise",)
    return (impl, eff)


@register
class GateInds(GateContract):
    """tensor_network_gate_inds: mode normalisation.  Every request either raises ValueError or reaches EXACTLY ONE
    implementation (basic | lazy_split) with the effective contract value of gate_mode_table, ng = len(inds), the working
    network (self or its copy), G conjugated iff dagger, transpose = transpose or dagger"""

    target = f"{GATING}::tensor_network_gate_inds"
    floor = 300
    MODES = (False, True, "split", "reduce-split", "split-gate", "swap-split-gate", "auto-split-gate", "bogus")

    def cases(self):
        out = []
        for c in self.MODES:
            for ngc in (1, 2, 3):
                for p in (False, True):
                    for dg, tr in ((False, False), (True, False), (False, True)):
                        for ip in (False, True):
                            out.append(NS(name=f"contract={c!r},ng={'3+' if ngc == 3 else ngc},isparam={p},dagger={dg},"
                                               f"transpose={tr},inplace={ip}", contract=c, ngc=ngc, isparam=p, dagger=dg,
                                          transpose=tr, inplace=ip))
        return out

    def mk_inputs(self, cx, case):
        if case.ngc == 3:
            ng = cx.Int("ng")
            cx.assume(ng >= 3)
        else:
            ng = case.ngc
        inds = SeqL(ng, lambda j: self.ind_at(j), "inds")
        return with_cx(cx, dict(self=self.new_gtn(cx, inds), G=GArr("G", param=case.isparam), inds=inds,
                                contract=case.contract, dagger=case.dagger, transpose=case.transpose,
                                tags=cx.Opaque("tags"), info=cx.Opaque("info"), inplace=case.inplace, compress_opts={}))

    def call(self, cx, name, args, kwargs, node):
        if name == "check_opt":
            # utils.check_opt(name, value, valid): raises ValueError unless value in valid
            nm, value, valid = args
            if not any(value is v or (type(value) is type(v) and value == v) for v in valid):
                raise PyRaise("ValueError", node.lineno)
            return None
        if name == "maybe_factor_gate":
            cx.oblige(f"call-pre@{node.lineno}:maybe_factor_gate:shape-inferred-from-the-working-network", "call-pre",
                      args[1] is cx.env["inds"] and kwargs.get("tn") == cx.env["tn"], node.lineno)
            return args[0]  # a reshape only: same gate
        if name == "__isinstance__" and args[1] == "PArray":
            return isinstance(args[0], GArr) and args[0].param
        if name == "__isinstance__" and args[1] == "str" and isinstance(args[0], SeqL):
            # the labels are given as a sequence here; the single-string spelling (normalised to a 1-tuple on entry)
            # is exercised by the bounded driver only
            return False
        if name == "ar.conj" and isinstance(args[0], GArr):
            return GArr(args[0].name, not args[0].conj, args[0].param)
        if name == ".copy" and isinstance(args[0], GArr):
            return GArr(args[0].name, args[0].conj, args[0].param)
        if name == ".add_function" and isinstance(args[0], GArr):
            if not (isinstance(args[1], Marker) and args[1].name == "ar.conj"):
                raise Unsupported("add_function of something else than conj")
            args[0].conj = not args[0].conj
            return None
        if name == "_tensor_network_gate_inds_lazy_split":
            tn, G, inds, ng, tags, contract, transpose = args[:7]
            cx.events.append(("impl", "lazy_split", NS(tn=tn, G=G, inds=inds, ng=ng, tags=tags, contract=contract,
                                                       transpose=transpose, isparam=None, info=None)))
            return tn
        return super().call(cx, name, args, kwargs, node)

    def expected(self, case):
        return gate_mode_table(case.contract, case.ngc, case.isparam, GATE_VALID)

    def ensures_raise(self, a, exc, cx, case):
        if exc == "ValueError":
            return {"raise-only-where-the-mode-table-rejects": self.expected(case) == ("raise",),
                    "nothing-applied-before-rejecting": not [e for e in cx.events if e[0] == "impl"],
                    "receiver-untouched-when-rejecting": cx.fields(a.self)["legs"] is cx.pre(a.self)["legs"] and
                    not cx.fields(a.self)["applied"]}
        return {f"no-raise-{exc}": False}

    def ensures(self, a, r, cx, case):
        exp = self.expected(case)
        if exp == ("raise",):
            return {"rejected-mode-must-raise": False}
        impls = [e for e in cx.events if e[0] == "impl"]
        d = {"exactly-one-implementation-reached": len(impls) == 1}
        if len(impls) != 1:
            return d
        _, which, c = impls[0]
        d["implementation-of-the-mode-table"] = which == exp[0]
        d["effective-contract-of-the-mode-table"] = (c.contract is exp[1]) or (isinstance(exp[1], str) and c.contract == exp[1])
        d["returns-the-working-network"] = isinstance(r, Ref) and r == c.tn
        if case.inplace:
            d["inplace-works-on-the-receiver"] = r == a.self
        else:
            d["copy-is-gated-receiver-untouched"] = isinstance(r, Ref) and r != a.self and r.oid not in cx.pre_heap and \
                cx.fields(a.self)["legs"] is cx.pre(a.self)["legs"] and not cx.fields(a.self)["applied"]
        d["targets-passed-on"] = c.inds is a.inds
        d["ng-is-len(inds)"] = c.ng == a.inds.n
        d["tags-passed-on"] = c.tags is a.tags
        d["gate-conjugated-iff-dagger"] = isinstance(c.G, GArr) and c.G.name == a.G.name and c.G.conj == bool(case.dagger) \
            and c.G.param == case.isparam
        d["transpose-is-(transpose-or-dagger)"] = c.transpose is bool(case.transpose or case.dagger)
        d["caller's-gate-array-not-modified"] = a.G.conj is False
        if which == "basic":
            d["isparam-passed-on"] = c.isparam is case.isparam
            d["info-passed-on"] = c.info is a.info
        return d


# ------------------------------------------------------------------------------------------------------------
# native replays (the solver models of this domain carry no numbers: a fixed small complex instance of the convention
# each contract states is run on the REAL functions and compared with dense linear algebra)
# ------------------------------------------------------------------------------------------------------------


def _dense_embed(np, M, L, sites, d=2):
    """operator M (on `sites`, in that order) embedded in L sites of dimension d"""
    k = len(sites)
    T = M.reshape([d] * (2 * k))
    full = np.eye(d ** L, dtype=complex).reshape([d] * (2 * L))
    out = np.tensordot(T, full, axes=(list(range(k, 2 * k)), list(sites)))
    # axes now: (out_sites..., remaining rows..., cols...) -> move the new rows back to their positions
    rest = [i for i in range(L) if i not in sites]
    perm = [0] * L
    for pos, s in enumerate(sites):
        perm[s] = pos
    for pos, s in enumerate(rest):
        perm[s] = k + pos
    out = np.transpose(out, perm + list(range(L, 2 * L)))
    return out.reshape(d ** L, d ** L)


def _replay_apply_op_op(self, model):
    import numpy as np
    import quimb.tensor as qtn
    from quimb.tensor.tnag.core import tensor_network_apply_op_op
    L, sites = 4, [1, 2]
    B = qtn.MPO_rand(L, 2, dtype=complex, seed=7)
    Asub = qtn.MPO_rand(len(sites), 2, dtype=complex, seed=8)
    dA = Asub.to_dense()
    A = qtn.MatrixProductOperator([t.data for t in Asub], sites=sites, L=L)
    call = "tensor_network_apply_op_op(A on sites [1, 2] of 4, B)"
    try:
        R = tensor_network_apply_op_op(A, B, contract=True)
        if sorted(R.outer_inds()) != sorted(B.outer_inds()):
            return dict(call=call, observed=f"outer labels {R.outer_inds()}", reproduced=True)
        err = float(np.abs(R.to_dense() - _dense_embed(np, dA, L, sites) @ B.to_dense()).max())
    except Exception as e:  # noqa
        return dict(call=call, observed=f"{type(e).__name__}: {e}"[:300], reproduced=True)
    return dict(call=call, observed=dict(max_abs_error=err), reproduced=err > 1e-9)


def _replay_dmrg_init(self, model):
    import numpy as np
    import quimb.tensor as qtn
    L = 4
    H = qtn.MPO_rand_herm(L, 3, dtype=complex, seed=3)
    p0 = qtn.MPS_rand_state(L, 3, dtype=complex, seed=4)
    dm = qtn.DMRG2(H, bond_dims=8, p0=p0)
    got = complex(dm.TN_energy ^ all)
    k = p0.to_dense()
    want = complex(np.vdot(k, H.to_dense() @ k))
    wrong = complex(np.vdot(k, H.to_dense().T @ k))
    return dict(call="DMRG2(H complex hermitian, p0).TN_energy ^ all  vs  <p0|H|p0>",
                observed=dict(got=str(got), want=str(want), transposed=str(wrong), ket_site_ind_id=dm._k.site_ind_id),
                reproduced=abs(got - want) > 1e-9 * max(1, abs(want)) or dm._k.site_ind_id != p0.site_ind_id)


def _replay_ptr_to_mpo(self, model):
    import numpy as np
    import quimb as qu
    import quimb.tensor as qtn
    L, keep = 5, [1, 3]
    psi = qtn.MPS_rand_state(L, 3, dtype=complex, seed=5)
    rho = psi.partial_trace_to_mpo(keep)
    want = np.asarray(qu.ptr(psi.to_dense(), [2] * L, keep))
    got = np.asarray(rho.to_dense())
    return dict(call="MPS_rand_state(5, 3, complex).partial_trace_to_mpo([1, 3]).to_dense()  vs  qu.ptr",
                observed=dict(err=float(np.abs(got - want).max()), err_vs_transpose=float(np.abs(got - want.T).max())),
                reproduced=float(np.abs(got - want).max()) > 1e-9)


ApplyOpOp.replay = _replay_apply_op_op
DMRGInit.replay = _replay_dmrg_init
PartialTraceToMPO.replay = _replay_ptr_to_mpo
